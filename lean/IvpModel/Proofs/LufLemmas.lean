/-
  General-size correctness of the LU routines (model `LUF`, the closed-form transcription of `lu_decomp` / `lin_solve`
  that X-lu, X-radaunum and X-bdfnum execute at `Float` next to the Rust code).  Over every ordered field and for
  every n: one elimination step with row exchange preserves the solution set (`step_sys_iff`), so by induction over
  the steps (`decompGo_spec`) the original system is equivalent to the upper-triangular one with the forward-swept
  right-hand side; back substitution solves that one (`backGo_spec`); hence `decomp_solve_spec`.
-/
import IvpModel.Proofs.FieldNum
import IvpModel.Model.LUF
import Mathlib.Algebra.BigOperators.Intervals
import Mathlib.Algebra.BigOperators.Ring.Finset
import Mathlib.Tactic.LinearCombination
import Mathlib.Tactic.FieldSimp
import Mathlib.Tactic.Ring

namespace LUF
open Finset
noncomputable section
variable {K : Type} [Field K] [LinearOrder K] [IsStrictOrderedRing K] [SqrtPow K]

/-- `Σ_{lo ≤ j < n} r j · x j` -/
def rowSum (n lo : Nat) (r : Nat → K) (x : Nat → K) : K := ∑ j ∈ Ico lo n, r j * x j

/-- the linear system after `k` elimination steps: rows `i < k` are final (upper triangular, columns `≥ i`), rows `i ≥ k`
    are active (columns `≥ k`) -/
def Sys (n k : Nat) (a : Mx K) (b : Vc K) (x : Vc K) : Prop := ∀ i, i < n → rowSum n (min i k) (a i) x = b i

theorem rowSum_split (n lo : Nat) (h : lo < n) (r x : Nat → K) :
    rowSum n lo r x = r lo * x lo + rowSum n (lo + 1) r x := by
  unfold rowSum
  rw [Finset.sum_eq_sum_Ico_succ_bot h]

theorem rowSum_congr (n lo : Nat) (r r' x : Nat → K) (h : ∀ j, lo ≤ j → j < n → r j = r' j) :
    rowSum n lo r x = rowSum n lo r' x := by
  unfold rowSum
  apply Finset.sum_congr rfl
  intro j hj
  rw [Finset.mem_Ico] at hj
  rw [h j hj.1 hj.2]

theorem rowSum_add_mul (n lo : Nat) (r s x : Nat → K) (c : K) :
    rowSum n lo (fun j => r j + c * s j) x = rowSum n lo r x + c * rowSum n lo s x := by
  unfold rowSum
  rw [Finset.mul_sum, ← Finset.sum_add_distrib]
  apply Finset.sum_congr rfl
  intro j _; ring


theorem numzero : (Num.zero : K) = 0 := by simp [Num.zero]
theorem numone : (Num.one : K) = 1 := by simp [Num.one]

/-- the old row that ends up in row `i` after the exchange of rows `m` and `k` -/
def srow (a : Mx K) (k m i : Nat) : Nat → K := fun j => swapped a k m i j
def sb (b : Vc K) (k m i : Nat) : K := if i = k then b m else if i = m then b k else b i

theorem mult_mul_pivot (a : Mx K) (k m i : Nat) (hp : a m k ≠ 0) :
    mult a k m i * a m k = -(if i = m then a k k else a i k) := by
  unfold mult; rw [numone]; field_simp

/-- rows above the step are untouched -/
theorem step_row_lt (a : Mx K) (b : Vc K) (n k m i : Nat) (hik : i < k) (hkm : k ≤ m) (x : Vc K) :
    rowSum n i (stepEntry a k m i) x = rowSum n i (a i) x ∧ fwdStep (stepEntry a k m) b k m i = b i := by
  constructor
  · apply rowSum_congr
    intro j hj _
    unfold stepEntry
    by_cases h1 : j < k
    · simp [h1]
    · by_cases h2 : j = k
      · simp [h2, hik]
      · have h3 : i ≤ k := by omega
        have h4 : i ≠ k := by omega
        have h5 : i ≠ m := by omega
        simp [h1, h2, h3, swapped, h4, h5]
  · unfold fwdStep
    have h4 : i ≠ k := by omega
    have h5 : i ≠ m := by omega
    have h6 : ¬ i > k := by omega
    simp [h4, h5, h6]

/-- the new row `k` is the old pivot row -/
theorem step_row_k (a : Mx K) (b : Vc K) (n k m : Nat) (x : Vc K) :
    rowSum n k (stepEntry a k m k) x = rowSum n k (a m) x ∧ fwdStep (stepEntry a k m) b k m k = b m := by
  constructor
  · apply rowSum_congr
    intro j hj _
    unfold stepEntry
    by_cases h2 : j = k
    · simp [h2]
    · have h1 : ¬ j < k := by omega
      simp [h1, h2, swapped]
  · unfold fwdStep; simp

/-- a row below: the exchanged row plus the multiplier times the pivot row; the coefficient of `x k` cancels -/
theorem step_row_gt (a : Mx K) (b : Vc K) (n k m i : Nat) (hk : k < n) (hik : k < i) (hp : a m k ≠ 0) (x : Vc K) :
    rowSum n (k + 1) (stepEntry a k m i) x - fwdStep (stepEntry a k m) b k m i
      = (rowSum n k (srow a k m i) x - sb b k m i) + mult a k m i * (rowSum n k (a m) x - b m) := by
  have hne : i ≠ k := by omega
  have hA : ∀ j, k + 1 ≤ j → j < n → stepEntry a k m i j = srow a k m i j + mult a k m i * a m j := by
    intro j hj _
    unfold stepEntry srow
    have h1 : ¬ j < k := by omega
    have h2 : j ≠ k := by omega
    have h3 : ¬ i ≤ k := by omega
    simp only [h1, h2, h3, if_false]
    by_cases hz : a m j = 0
    · have : Num.eqb (a m j) (Num.zero : K) = true := by rw [num_eqb, numzero]; exact hz
      simp [this, hz]
    · have : Num.eqb (a m j) (Num.zero : K) = false := by
        cases hb : Num.eqb (a m j) (Num.zero : K) with
        | false => rfl
        | true => rw [num_eqb, numzero] at hb; exact absurd hb hz
      simp [this]
  have hmk : stepEntry a k m i k = mult a k m i := by
    unfold stepEntry
    have h3 : ¬ i < k := by omega
    simp [h3, hne]
  have hb : fwdStep (stepEntry a k m) b k m i = sb b k m i + mult a k m i * b m := by
    unfold fwdStep sb
    simp only [hne, if_false, hik, if_true, hmk]
  rw [rowSum_congr n (k + 1) _ _ x hA, rowSum_add_mul, hb, rowSum_split n k hk (srow a k m i), rowSum_split n k hk (a m)]
  have hc : srow a k m i k + mult a k m i * a m k = 0 := by
    rw [mult_mul_pivot a k m i hp]
    unfold srow swapped
    simp only [hne, if_false]
    split <;> ring
  linear_combination (-(x k)) * hc


theorem srow_eq (a : Mx K) (b : Vc K) (k m i : Nat) (hik : k < i) :
    srow a k m i = a (if i = m then k else i) ∧ sb b k m i = b (if i = m then k else i) := by
  have hne : i ≠ k := by omega
  constructor
  · funext j; unfold srow swapped; simp only [hne, if_false]; split <;> rfl
  · unfold sb; simp only [hne, if_false]; split <;> rfl

/-- **one elimination step preserves the solution set** (row exchange + adding multiples of the pivot row) -/
theorem step_sys_iff (a : Mx K) (b : Vc K) (n k m : Nat) (hk : k < n) (hkm : k ≤ m) (hmn : m < n) (hp : a m k ≠ 0) (x : Vc K) :
    Sys n k a b x ↔ Sys n (k + 1) (stepEntry a k m) (fwdStep (stepEntry a k m) b k m) x := by
  constructor
  · intro H i hi
    rcases lt_trichotomy i k with hlt | heq | hgt
    · have hmin : min i (k + 1) = i := by omega
      have hmin' : min i k = i := by omega
      obtain ⟨e1, e2⟩ := step_row_lt a b n k m i hlt hkm x
      rw [hmin, e1, e2]
      have := H i hi; rw [hmin'] at this; exact this
    · subst heq
      have hmin : min i (i + 1) = i := by omega
      obtain ⟨e1, e2⟩ := step_row_k a b n i m x
      rw [hmin, e1, e2]
      have := H m hmn
      have hmin' : min m i = i := by omega
      rw [hmin'] at this; exact this
    · have hmin : min i (k + 1) = k + 1 := by omega
      rw [hmin]
      have key := step_row_gt a b n k m i hk hgt hp x
      obtain ⟨es, eb⟩ := srow_eq a b k m i hgt
      have hσ : (if i = m then k else i) < n := by split <;> omega
      have hσk : min (if i = m then k else i) k = k := by split <;> omega
      have h1 := H _ hσ
      rw [hσk] at h1
      have h2 := H m hmn
      have hmin' : min m k = k := by omega
      rw [hmin'] at h2
      rw [es, eb, h1, h2] at key
      have : rowSum n (k + 1) (stepEntry a k m i) x - fwdStep (stepEntry a k m) b k m i = 0 := by rw [key]; ring
      exact sub_eq_zero.mp this
  · intro H i hi
    -- the pivot row is the new row k
    have hRm : rowSum n k (a m) x = b m := by
      obtain ⟨e1, e2⟩ := step_row_k a b n k m x
      have := H k hk
      have hmin : min k (k + 1) = k := by omega
      rw [hmin, e1, e2] at this; exact this
    rcases lt_or_ge i k with hlt | hge
    · have hmin : min i (k + 1) = i := by omega
      have hmin' : min i k = i := by omega
      obtain ⟨e1, e2⟩ := step_row_lt a b n k m i hlt hkm x
      have := H i hi
      rw [hmin, e1, e2] at this
      rw [hmin']; exact this
    · have hmin' : min i k = k := by omega
      rw [hmin']
      by_cases him : i = m
      · rw [him]; exact hRm
      · -- where the old row i sits now
        have hi' : k < (if i = k then m else i) := by split <;> omega
        have hi'n : (if i = k then m else i) < n := by split <;> omega
        have key := step_row_gt a b n k m _ hk hi' hp x
        obtain ⟨es, eb⟩ := srow_eq a b k m _ hi'
        have hback : (if (if i = k then m else i) = m then k else (if i = k then m else i)) = i := by
          by_cases hik : i = k
          · simp [hik]
          · simp [hik, him]
        rw [hback] at es eb
        have hnew := H _ hi'n
        have hmin : min (if i = k then m else i) (k + 1) = k + 1 := by omega
        rw [hmin] at hnew
        rw [es, eb, hnew, hRm] at key
        have : rowSum n k (a i) x - b i = 0 := by
          have h0 : fwdStep (stepEntry a k m) b k m (if i = k then m else i) - fwdStep (stepEntry a k m) b k m (if i = k then m else i) = (0 : K) := sub_self _
          rw [h0] at key
          linear_combination -key
        exact sub_eq_zero.mp this


/-! ### the n×n window: everything reads entries with both indices below `n` only -/

def EqOn (n : Nat) (f g : Mx K) : Prop := ∀ i j, i < n → j < n → f i j = g i j
def EqOnV (n : Nat) (b c : Vc K) : Prop := ∀ i, i < n → b i = c i

theorem toFun_ofFun (n : Nat) (f : Mx K) : EqOn n (toFun n (ofFun n f)) f := by
  intro i j hi hj
  have hlt : i * n + j < n * n := by
    calc i * n + j < i * n + n := by omega
      _ = (i + 1) * n := by ring
      _ ≤ n * n := Nat.mul_le_mul_right _ hi
  have hdiv : (i * n + j) / n = i := by
    rw [Nat.add_comm, Nat.add_mul_div_right _ _ (by omega), Nat.div_eq_of_lt hj, Nat.zero_add]
  have hmod : (i * n + j) % n = j := by
    rw [Nat.add_comm, Nat.add_mul_mod_self_right, Nat.mod_eq_of_lt hj]
  unfold toFun ofFun
  rw [Array.getD_eq_getD_getElem?, Array.getElem?_ofFn]
  simp [hlt, hdiv, hmod]

theorem vOf_vTo (n : Nat) (b : Vc K) : EqOnV n (vOf n (vTo n b)) b := by
  intro i hi
  unfold vOf vTo
  rw [Array.getD_eq_getD_getElem?, Array.getElem?_ofFn]
  simp [hi]

theorem rowSum_congr_x (n lo : Nat) (r x x' : Nat → K) (h : ∀ j, lo ≤ j → j < n → x j = x' j) :
    rowSum n lo r x = rowSum n lo r x' := by
  unfold rowSum
  apply Finset.sum_congr rfl
  intro j hj
  rw [Finset.mem_Ico] at hj
  rw [h j hj.1 hj.2]

theorem Sys_congr (n k : Nat) (a a' : Mx K) (b b' : Vc K) (x : Vc K) (ha : EqOn n a a') (hb : EqOnV n b b') :
    Sys n k a b x ↔ Sys n k a' b' x := by
  unfold Sys
  constructor
  · intro H i hi
    rw [← hb i hi, ← H i hi]
    exact (rowSum_congr n _ _ _ x (fun j _ hj => ha i j hi hj)).symm
  · intro H i hi
    rw [hb i hi, ← H i hi]
    exact rowSum_congr n _ _ _ x (fun j _ hj => ha i j hi hj)

theorem pivotGo_congr (n k : Nat) (f g : Mx K) (h : EqOn n f g) (hk : k < n) :
    ∀ cnt i m mx, i + cnt ≤ n → pivotGo f k i cnt m mx = pivotGo g k i cnt m mx := by
  intro cnt
  induction cnt with
  | zero => intro i m mx _; rfl
  | succ cnt ih =>
    intro i m mx hle
    unfold pivotGo
    have : f i k = g i k := h i k (by omega) hk
    simp only [this]
    split
    · exact ih _ _ _ (by omega)
    · exact ih _ _ _ (by omega)

theorem pivot_congr (n k : Nat) (f g : Mx K) (h : EqOn n f g) (hk : k < n) : pivot f n k = pivot g n k := by
  unfold pivot
  rw [h k k hk hk]
  exact pivotGo_congr n k f g h hk _ _ _ _ (by omega)

theorem stepEntry_congr (n k m : Nat) (f g : Mx K) (h : EqOn n f g) (hk : k < n) (hm : m < n) :
    EqOn n (stepEntry f k m) (stepEntry g k m) := by
  intro i j hi hj
  unfold stepEntry mult swapped
  simp only [h i j hi hj, h m k hm hk, h k k hk hk, h i k hi hk, h m j hm hj, h k j hk hj]

/-- the pivot row lies in `[k, n)` and carries a maximal magnitude of column `k` among the rows `k..n−1` -/
theorem pivotGo_spec (a : Mx K) (k : Nat) :
    ∀ cnt i m mx, k ≤ m → m < i → mx = |a m k| → (∀ i', k ≤ i' → i' < i → |a i' k| ≤ mx) →
      k ≤ pivotGo a k i cnt m mx ∧ pivotGo a k i cnt m mx < i + cnt ∧
      ∀ i', k ≤ i' → i' < i + cnt → |a i' k| ≤ |a (pivotGo a k i cnt m mx) k| := by
  intro cnt
  induction cnt with
  | zero =>
    intro i m mx hkm hmi hmx hall
    unfold pivotGo
    exact ⟨hkm, by omega, fun i' h1 h2 => by rw [← hmx]; exact hall i' h1 (by omega)⟩
  | succ cnt ih =>
    intro i m mx hkm hmi hmx hall
    unfold pivotGo
    simp only [num_abs]
    split
    · rename_i hgt
      have := ih (i + 1) i (|a i k|) (by omega) (by omega) rfl (by
        intro i' h1 h2
        by_cases he : i' = i
        · rw [he]
        · exact le_of_lt (lt_of_le_of_lt (hall i' h1 (by omega)) hgt))
      refine ⟨this.1, by omega, fun i' h1 h2 => this.2.2 i' h1 (by omega)⟩
    · rename_i hng
      have := ih (i + 1) m mx hkm (by omega) hmx (by
        intro i' h1 h2
        by_cases he : i' = i
        · rw [he]; exact not_lt.mp hng
        · exact hall i' h1 (by omega))
      refine ⟨this.1, by omega, fun i' h1 h2 => this.2.2 i' h1 (by omega)⟩

theorem pivot_spec (a : Mx K) (n k : Nat) (hk : k < n) :
    k ≤ pivot a n k ∧ pivot a n k < n ∧ ∀ i, k ≤ i → i < n → |a i k| ≤ |a (pivot a n k) k| := by
  unfold pivot
  have := pivotGo_spec a k (n - (k + 1)) (k + 1) k (Num.abs (a k k)) (le_refl _) (by omega) (by simp) (by
    intro i' h1 h2
    have : i' = k := by omega
    rw [this]; simp)
  have e : k + 1 + (n - (k + 1)) = n := by omega
  rw [e] at this
  exact this


/-- an elimination step leaves the finished part alone: columns `< k` (stored multipliers; deferred row swaps) and
    rows `< k` (final rows of `U`) -/
theorem step_frozen (a : Mx K) (k m i j : Nat) (hkm : k ≤ m) (h : j < k ∨ i < k) : stepEntry a k m i j = a i j := by
  unfold stepEntry
  by_cases h1 : j < k
  · simp [h1]
  · have hik : i < k := by rcases h with h | h; exact absurd h h1; exact h
    by_cases h2 : j = k
    · simp [h2, hik]
    · have h3 : i ≤ k := by omega
      have h4 : i ≠ k := by omega
      have h5 : i ≠ m := by omega
      simp [h1, h2, h3, swapped, h4, h5]

theorem step_mult_le (a : Mx K) (n k i : Nat) (hk : k < n) (hki : k < i) (hi : i < n) (hp : a (pivot a n k) k ≠ 0) :
    |stepEntry a k (pivot a n k) i k| ≤ 1 := by
  obtain ⟨h1, h2, h3⟩ := pivot_spec a n k hk
  have : stepEntry a k (pivot a n k) i k = mult a k (pivot a n k) i := by
    unfold stepEntry
    have e1 : ¬ k < k := by omega
    have e2 : ¬ i < k := by omega
    have e3 : i ≠ k := by omega
    simp [e2, e3]
  rw [this]
  unfold mult
  rw [numone, abs_mul, abs_neg, one_div, abs_inv]
  have hpos : 0 < |a (pivot a n k) k| := abs_pos.mpr hp
  rw [← div_eq_mul_inv, div_le_one hpos]
  split
  · exact h3 k (le_refl _) hk
  · exact h3 i (by omega) hi

theorem fwdStep_congr (n k m : Nat) (f g : Mx K) (b c : Vc K) (hk : k < n) (hm : m < n)
    (hf : ∀ i, k < i → i < n → f i k = g i k) (hb : EqOnV n b c) :
    EqOnV n (fwdStep f b k m) (fwdStep g c k m) := by
  intro i hi
  unfold fwdStep
  rw [hb i hi, hb m hm, hb k hk]
  by_cases h : i > k
  · simp only [h, if_true, hf i h hi]
  · simp only [h, if_false]

theorem getD_set_ne (ip : Array Nat) (k m j : Nat) (h : j ≠ k) : (ip.setIfInBounds k m).getD j 0 = ip.getD j 0 := by
  rw [Array.getD_eq_getD_getElem?, Array.getD_eq_getD_getElem?, Array.getElem?_setIfInBounds_ne (Ne.symm h)]
theorem getD_set_eq (ip : Array Nat) (k m : Nat) (h : k < ip.size) : (ip.setIfInBounds k m).getD k 0 = m := by
  rw [Array.getD_eq_getD_getElem?, Array.getElem?_setIfInBounds_self_of_lt h]; rfl

/-- **the factorisation, all sizes.**  If steps `k, …, n−2` and the final pivot test succeed, then: the finished part of the
    input is untouched; every diagonal entry from `k` on is non-zero; every stored multiplier has magnitude ≤ 1; and for
    every right-hand side the system in front of step `k` has the same solutions as the upper-triangular system left at
    the end with the right-hand side transformed by the forward pass of `lin_solve` -/
theorem decompGo_spec (n : Nat) :
    ∀ cnt k (a : Mx K) (ip : Array Nat) (F : Mx K) (ip' : Array Nat), k + cnt + 1 = n → ip.size = n →
      decompGo n k cnt a ip = .ok (F, ip') →
      (∀ i j, i < n → j < n → (j < k ∨ i < k) → F i j = a i j) ∧
      (∀ j, k ≤ j → j < n → F j j ≠ 0) ∧
      (ip'.size = n ∧ (∀ j, j < k → ip'.getD j 0 = ip.getD j 0) ∧ ∀ j, k ≤ j → j < k + cnt → ip'.getD j 0 < n) ∧
      (∀ i j, k ≤ j → j < i → i < n → |F i j| ≤ 1) ∧
      (∀ (b x : Vc K), Sys n k a b x ↔ Sys n (n - 1) F (fwdGo n F ip' k cnt b) x) := by
  intro cnt
  induction cnt with
  | zero =>
    intro k a ip F ip' hkn hsz h
    unfold decompGo at h
    split at h
    · cases h
    · rename_i hne
      injection h with h; injection h with h1 h2
      subst h1; subst h2
      have hk : k = n - 1 := by omega
      refine ⟨fun _ _ _ _ _ => rfl, ?_, ⟨hsz, fun _ _ => rfl, fun j h1 h2 => by omega⟩, ?_, ?_⟩
      · intro j hj1 hj2
        have : j = n - 1 := by omega
        rw [this]
        intro h0
        apply hne
        rw [num_eqb, numzero]; exact h0
      · intro i j h1 h2 h3; omega
      · intro b x; rw [hk]; rfl
  | succ cnt ih =>
    intro k a ip F ip' hkn hsz h
    have hk : k < n := by omega
    unfold decompGo at h
    simp only at h
    split at h
    · cases h
    · rename_i hne
      obtain ⟨hm1, hm2, hm3⟩ := pivot_spec a n k hk
      have hp : a (pivot a n k) k ≠ 0 := by
        intro h0; apply hne; rw [num_eqb, numzero]; exact h0
      generalize hm : pivot a n k = m at *
      have hwin := toFun_ofFun n (stepEntry a k m)
      have hsz1 : (ip.setIfInBounds k m).size = n := by simp [hsz]
      obtain ⟨iA, iB, ⟨iC1, iC2, iC3⟩, iE, iD⟩ := ih (k + 1) _ _ F ip' (by omega) hsz1 h
      -- the finished part
      have hA : ∀ i j, i < n → j < n → (j < k ∨ i < k) → F i j = a i j := by
        intro i j hi hj hor
        rw [iA i j hi hj (by omega), hwin i j hi hj]
        exact step_frozen a k m i j hm1 hor
      -- column k of the factors is the column of step k
      have hcol : ∀ i, i < n → F i k = stepEntry a k m i k := by
        intro i hi
        rw [iA i k hi hk (Or.inl (by omega)), hwin i k hi hk]
      have hipk : ip'.getD k 0 = m := by
        rw [iC2 k (by omega)]
        exact getD_set_eq ip k m (by omega)
      refine ⟨hA, ?_, ⟨iC1, ?_, ?_⟩, ?_, ?_⟩
      · intro j hj1 hj2
        rcases Nat.eq_or_lt_of_le hj1 with he | hlt
        · rw [← he, hcol k hk]
          unfold stepEntry; simp; exact hp
        · exact iB j (by omega) hj2
      · intro j hj
        rw [iC2 j (by omega)]
        exact getD_set_ne ip k m j (by omega)
      · intro j h1 h2
        rcases Nat.eq_or_lt_of_le h1 with he | hlt
        · rw [← he, hipk]; exact hm2
        · exact iC3 j (by omega) (by omega)
      · intro i j h1 h2 h3
        rcases Nat.eq_or_lt_of_le h1 with he | hlt
        · rw [← he, hcol i h3, ← hm]
          exact step_mult_le a n k i hk (by omega) h3 (by rw [hm]; exact hp)
        · exact iE i j (by omega) h2 h3
      · intro b x
        rw [step_sys_iff a b n k m hk hm1 hm2 hp x]
        have hb1 : EqOnV n (vOf n (vTo n (fwdStep F b k (ip'.getD k 0)))) (fwdStep (stepEntry a k m) b k m) := by
          intro i hi
          rw [vOf_vTo n _ i hi, hipk]
          exact fwdStep_congr n k m F (stepEntry a k m) b b hk hm2 (fun i' _ hi' => hcol i' hi') (fun _ _ => rfl) i hi
        rw [Sys_congr n (k + 1) (stepEntry a k m) _ (fwdStep (stepEntry a k m) b k m) _ x
              (fun i j hi hj => (hwin i j hi hj).symm) (fun i hi => (hb1 i hi).symm)]
        have := iD (vOf n (vTo n (fwdStep F b k (ip'.getD k 0)))) x
        rw [this]
        rfl


/-! ### back substitution on the upper-triangular system -/

/-- state of the back substitution before index `k − 1` is processed: rows `≥ k` are solved, the rows above carry the
    right-hand side reduced by the already known unknowns -/
def BackInv (n k : Nat) (U : Mx K) (c v : Vc K) : Prop :=
  (∀ i, k ≤ i → i < n → rowSum n i (U i) v = c i) ∧ (∀ i, i < k → i < n → v i + rowSum n k (U i) v = c i)

theorem rowSum_empty (n : Nat) (r x : Nat → K) : rowSum n n r x = 0 := by
  unfold rowSum; simp

theorem BackInv_congr (n k : Nat) (U : Mx K) (c v v' : Vc K) (h : EqOnV n v v') : BackInv n k U c v → BackInv n k U c v' := by
  intro ⟨h1, h2⟩
  constructor
  · intro i hk hi
    rw [← h1 i hk hi]
    exact (rowSum_congr_x n i (U i) v v' (fun j _ hj => h j hj)).symm
  · intro i hk hi
    rw [← h2 i hk hi, h i hi]
    congr 1
    exact (rowSum_congr_x n k (U i) v v' (fun j _ hj => h j hj)).symm

theorem back_step (n p : Nat) (U : Mx K) (c v : Vc K) (hp : p < n) (hd : U p p ≠ 0) (h : BackInv n (p + 1) U c v) :
    BackInv n p U c (backStep U v p) := by
  obtain ⟨h1, h2⟩ := h
  have hgt : ∀ j, p + 1 ≤ j → j < n → backStep U v p j = v j := by
    intro j hj _
    unfold backStep
    have e1 : j ≠ p := by omega
    have e2 : ¬ j < p := by omega
    simp [e1, e2]
  have hpp : backStep U v p p = v p / U p p := by unfold backStep; simp
  constructor
  · intro i hpi hi
    rcases Nat.eq_or_lt_of_le hpi with he | hlt
    · subst he
      rw [rowSum_split n p hp, hpp, rowSum_congr_x n (p + 1) (U p) _ v hgt]
      have := h2 p (by omega) hp
      rw [← this]; field_simp
    · rw [rowSum_congr_x n i (U i) _ v (fun j hj hjn => hgt j (by omega) hjn)]
      exact h1 i (by omega) hi
  · intro i hip hi
    have e1 : i ≠ p := by omega
    have hi' : backStep U v p i = v i + U i p * (-(v p / U p p)) := by
      unfold backStep; simp [e1, hip]
    rw [rowSum_split n p hp, hpp, rowSum_congr_x n (p + 1) (U i) _ v hgt, hi']
    have := h2 i (by omega) hi
    rw [← this]; ring

theorem backGo_spec (n : Nat) (U : Mx K) (c : Vc K) :
    ∀ cnt v, cnt < n → (∀ j, 1 ≤ j → j ≤ cnt → U j j ≠ 0) → BackInv n (cnt + 1) U c v → BackInv n 1 U c (backGo n U cnt v) := by
  intro cnt
  induction cnt with
  | zero => intro v _ _ h; exact h
  | succ cnt ih =>
    intro v hlt hd h
    unfold backGo
    apply ih _ (by omega) (fun j h1 h2 => hd j h1 (by omega))
    apply BackInv_congr n (cnt + 1) U c (backStep U v (cnt + 1)) _ (fun i hi => (vOf_vTo n _ i hi).symm)
    exact back_step n (cnt + 1) U c v hlt (hd (cnt + 1) (by omega) (le_refl _)) h

theorem fwdGo_congr (n : Nat) (f g : Mx K) (ip : Array Nat) (hfg : EqOn n f g) :
    ∀ cnt k b c, k + cnt < n → (∀ j, k ≤ j → j < k + cnt → ip.getD j 0 < n) → EqOnV n b c →
      EqOnV n (fwdGo n f ip k cnt b) (fwdGo n g ip k cnt c) := by
  intro cnt
  induction cnt with
  | zero => intro k b c _ _ h; exact h
  | succ cnt ih =>
    intro k b c hk hip h
    unfold fwdGo
    apply ih (k + 1) _ _ (by omega) (fun j h1 h2 => hip j (by omega) (by omega))
    intro i hi
    rw [vOf_vTo n _ i hi, vOf_vTo n _ i hi]
    exact fwdStep_congr n k _ f g b c (by omega) (hip k (le_refl _) (by omega)) (fun i' _ hi' => hfg i' k hi' (by omega)) h i hi

theorem backGo_congr (n : Nat) (f g : Mx K) (hfg : EqOn n f g) :
    ∀ cnt b c, cnt < n → EqOnV n b c → EqOnV n (backGo n f cnt b) (backGo n g cnt c) := by
  intro cnt
  induction cnt with
  | zero => intro b c _ h; exact h
  | succ cnt ih =>
    intro b c hlt h
    unfold backGo
    apply ih _ _ (by omega)
    intro i hi
    rw [vOf_vTo n _ i hi, vOf_vTo n _ i hi]
    unfold backStep
    have hk : cnt + 1 < n := hlt
    rw [h i hi, h (cnt + 1) hk, hfg (cnt + 1) (cnt + 1) hk hk, hfg i (cnt + 1) hi hk]


/-! ### the whole routine: `decomp` then `solve` solves the system, for every size -/

/-- the product row `i` of `A·x` -/
def matVec (n : Nat) (a : Mx K) (x : Vc K) (i : Nat) : K := rowSum n 0 (a i) x

theorem solve_getD (n : Nat) (hn : n ≠ 1) (a : Array K) (ip : Array Nat) (b0 : Array K) (hb : b0.size = n) :
    EqOnV n (vOf n (solve n a ip b0))
      (backStep (toFun n a) (backGo n (toFun n a) (n - 1) (fwdGo n (toFun n a) ip 0 (n - 1) (vOf n b0))) 0) := by
  intro i hi
  unfold solve vOf
  simp only [hn, if_false]
  rw [Array.getD_eq_getD_getElem?, Array.getElem?_map]
  have : (Array.range b0.size)[i]? = some i := by
    rw [Array.getElem?_range]; simp [hb, hi]
  rw [this]
  simp only [Option.map_some, Option.getD_some, hi, if_true]
  have := vOf_vTo n (fun i => if i = 0 then
      backGo n (toFun n a) (n - 1) (fwdGo n (toFun n a) ip 0 (n - 1) (vOf n b0)) 0 / toFun n a 0 0
      else backGo n (toFun n a) (n - 1) (fwdGo n (toFun n a) ip 0 (n - 1) (vOf n b0)) i) i hi
  unfold vOf at this
  rw [this]
  unfold backStep
  by_cases h0 : i = 0
  · simp [h0]
  · simp [h0]

/-- **LU correctness for every size.**  If `decomp` accepts an `n × n` matrix, then for every right-hand side the
    vector returned by `solve` satisfies `A·x = b` exactly (over an ordered field), every stored multiplier is at
    most 1 in magnitude (partial pivoting), and every diagonal entry of `U` is non-zero. -/
theorem decomp_solve_spec (n : Nat) (hn : 2 ≤ n) (a0 : Array K) (F : Array K) (ip : Array Nat)
    (h : decomp n n n a0 = .ok (F, ip)) :
    (∀ (b0 : Array K), b0.size = n → ∀ i, i < n → matVec n (toFun n a0) (vOf n (solve n F ip b0)) i = b0.getD i 0) ∧
    (∀ i j, j < i → i < n → |toFun n F i j| ≤ 1) ∧
    (∀ j, j < n → toFun n F j j ≠ 0) := by
  unfold decomp at h
  have hn1 : n ≠ 1 := by omega
  simp only [ne_eq, not_true_eq_false, if_false, hn1] at h
  generalize hgo : decompGo n 0 (n - 1) (toFun n a0) (Array.replicate n 0) = r at h
  cases r with
  | error e => simp at h
  | ok p =>
    obtain ⟨f, ip1⟩ := p
    simp only [Except.ok.injEq, Prod.mk.injEq] at h
    obtain ⟨hF, hip⟩ := h
    subst hF; subst hip
    obtain ⟨_, hB, ⟨_, _, hC3⟩, hE, hD⟩ :=
      decompGo_spec n (n - 1) 0 (toFun n a0) (Array.replicate n 0) f ip1 (by omega) (by simp) hgo
    have hff : EqOn n (toFun n (ofFun n f)) f := toFun_ofFun n f
    refine ⟨?_, ?_, ?_⟩
    · intro b0 hb
      set f' := toFun n (ofFun n f) with hf'
      set c := fwdGo n f ip1 0 (n - 1) (vOf n b0) with hc
      have h1 : EqOnV n (fwdGo n f' ip1 0 (n - 1) (vOf n b0)) c :=
        fwdGo_congr n f' f ip1 hff (n - 1) 0 _ _ (by omega) (fun j h1 h2 => hC3 j h1 h2) (fun _ _ => rfl)
      have h2 : EqOnV n (backGo n f' (n - 1) (fwdGo n f' ip1 0 (n - 1) (vOf n b0))) (backGo n f (n - 1) c) :=
        backGo_congr n f' f hff (n - 1) _ _ (by omega) h1
      have hx : EqOnV n (vOf n (solve n (ofFun n f) ip1 b0)) (backStep f (backGo n f (n - 1) c) 0) := by
        intro i hi
        rw [solve_getD n hn1 (ofFun n f) ip1 b0 hb i hi]
        unfold backStep
        rw [h2 i hi, h2 0 (by omega)]
        have e1 := hff 0 0 (by omega) (by omega)
        have e2 := hff i 0 hi (by omega)
        simp only [hf'] at e1 e2 ⊢
        rw [e1, e2]
      have hinit : BackInv n (n - 1 + 1) f c c := by
        have e : n - 1 + 1 = n := by omega
        rw [e]
        exact ⟨fun i h1 h2 => by omega, fun i _ _ => by rw [rowSum_empty]; ring⟩
      have hb1 := backGo_spec n f c (n - 1) c (by omega) (fun j h1 h2 => hB j (by omega) (by omega)) hinit
      have hb0 := back_step n 0 f c _ (by omega) (hB 0 (by omega) (by omega)) hb1
      have hsys : Sys n (n - 1) f c (vOf n (solve n (ofFun n f) ip1 b0)) := by
        intro i hi
        have e : min i (n - 1) = i := by omega
        rw [e, rowSum_congr_x n i (f i) _ _ (fun j _ hj => hx j hj)]
        exact hb0.1 i (by omega) hi
      have := (hD (vOf n b0) _).mpr hsys
      intro i hi
      have := this i hi
      simpa [matVec, vOf, numzero] using this
    · intro i j hji hi
      rw [hff i j hi (by omega)]
      exact hE i j (by omega) hji hi
    · intro j hj
      rw [hff j j hj hj]
      exact hB j (by omega) hj

/-- the 1 × 1 case, which the routine treats separately -/
theorem decomp_solve_one (a0 F : Array K) (ip : Array Nat) (h : decomp 1 1 1 a0 = .ok (F, ip)) (b0 : Array K) (hb : b0.size = 1) :
    toFun 1 a0 0 0 * (solve 1 F ip b0).getD 0 0 = b0.getD 0 0 ∧ toFun 1 F 0 0 ≠ 0 := by
  unfold decomp at h
  simp only [ne_eq, not_true_eq_false, if_false, if_true] at h
  by_cases hz : Num.eqb (toFun 1 a0 0 0) (Num.zero : K) = true
  · simp [hz] at h
  · simp only [hz] at h
    simp only [Bool.false_eq_true, if_false, Except.ok.injEq, Prod.mk.injEq] at h
    obtain ⟨hF, _⟩ := h
    subst hF
    have hne : toFun 1 a0 0 0 ≠ 0 := by
      intro h0; apply hz; rw [h0]; simp [Num.eqb, Num.zero]
    refine ⟨?_, hne⟩
    unfold solve
    simp only [if_true]
    rw [Array.getD_eq_getD_getElem?, Array.getElem?_setIfInBounds_self_of_lt (by omega)]
    simp only [Option.getD_some]
    rw [numzero]
    field_simp

end
end LUF
