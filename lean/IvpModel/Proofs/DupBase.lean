import IvpModel.Proofs.ScaleBase
set_option linter.unusedSectionVars false
set_option linter.unusedSimpArgs false
set_option linter.unusedTactic false
set_option linter.unnecessarySeqFocus false
set_option linter.unusedVariables false

/-!
  C13, duplicating the system into `m` independent identical copies.  Base layer: the stacked vector, what it means for a
  right-hand side / observer of dimension `m·n` to be the duplicate of one of dimension `n` (stated on stacked arguments only,
  so the genuine block-diagonal system qualifies), and how the meter helpers and the callback handling commute with stacking.
-/
namespace Ctl
noncomputable section
variable {K : Type} [Field K] [LinearOrder K] [IsStrictOrderedRing K] [SqrtPow K] {n : Nat}

/-- `m` stacked copies of `v` -/
def dupV (m : Nat) (hn : 0 < n) (v : Vector K n) : Vector K (m * n) := Vector.ofFn fun i => v[i.val % n]'(Nat.mod_lt _ hn)

theorem dupV_get (m : Nat) (hn : 0 < n) (v : Vector K n) (i : Fin (m * n)) : (dupV m hn v)[i] = v[i.val % n]'(Nat.mod_lt _ hn) := by
  simp [dupV]

theorem dupV_inj (m : Nat) (hm : 0 < m) (hn : 0 < n) (v w : Vector K n) (h : dupV m hn v = dupV m hn w) : v = w := by
  ext i hi
  have hlt : i < m * n := lt_of_lt_of_le hi (Nat.le_mul_of_pos_left n hm)
  have := congrArg (fun z : Vector K (m * n) => z[i]'hlt) h
  simp only [dupV, Vector.getElem_ofFn, Nat.mod_eq_of_lt hi] at this
  exact this

variable (m : Nat) (hn : 0 < n)

def DupRhs (F : Rhs K (m * n)) (f : Rhs K n) : Prop := ∀ j t y, F j t (dupV m hn y) = dupV m hn (f j t y)
def dIp (ip : Option (K → Vec K n)) : Option (K → Vec K (m * n)) := ip.map fun e t => dupV m hn (e t)
def DupObs {σ : Type} (Ob : Obs σ K (m * n)) (ob : Obs σ K n) : Prop :=
  ∀ s xold x y ip, Ob s xold x (dupV m hn y) (dIp m hn ip) = ((ob s xold x y ip).1, (ob s xold x y ip).2.1, dupV m hn (ob s xold x y ip).2.2)
def dcl (p : K × Vec K n) : K × Vec K (m * n) := (p.1, dupV m hn p.2)
def dEv : Ev K n → Ev K (m * n)
  | .ode i t y => .ode i t (dupV m hn y)
  | .cb xo x y s => .cb xo x (dupV m hn y) (s.map (dupV m hn))
def dMeter (M : Meter K n) : Meter K (m * n) := { log := M.log.map (dEv m hn), ncalls := M.ncalls, cnt := M.cnt }
def dResult {σ : Type} (r : Result σ K n) : Result σ K (m * n) :=
  { status := r.status, h := r.h, x := r.x, y := dupV m hn r.y, m := dMeter m hn r.m, obs := r.obs }

theorem DupRhs.shift {F : Rhs K (m * n)} {f : Rhs K n} (h : DupRhs m hn F f) (c0 : Nat) : DupRhs m hn (fun j => F (c0 + j)) (fun j => f (c0 + j)) :=
  fun j t y => h (c0 + j) t y

theorem dMeter_ncalls (M : Meter K n) : (dMeter m hn M).ncalls = M.ncalls := rfl
theorem dMeter_cnt (M : Meter K n) : (dMeter m hn M).cnt = M.cnt := rfl

theorem logCalls_dmap (log : Array (Ev K n)) (base : Nat) (calls : Array (K × Vec K n)) :
    (logCalls log base calls).map (dEv m hn) = logCalls (log.map (dEv m hn)) base (calls.map (dcl m hn)) := by
  unfold logCalls
  rw [← Array.foldl_toList, ← Array.foldl_toList]
  have hz : (calls.map (dcl m hn)).zipIdx.toList = calls.zipIdx.toList.map (fun p => (dcl m hn p.1, p.2)) := by
    rw [Array.toList_zipIdx, Array.toList_zipIdx, Array.toList_map, List.zipIdx_map]
    rfl
  rw [hz]
  generalize calls.zipIdx.toList = xs
  induction xs generalizing log with
  | nil => simp
  | cons a xs ih =>
    simp only [List.foldl_cons, List.map_cons]
    rw [ih]
    congr 1
    simp [dEv, dcl]

theorem dMeter_bump (M : Meter K n) (calls : Array (K × Vec K n)) (lit : Nat) :
    dMeter m hn (M.bump calls lit) = (dMeter m hn M).bump (calls.map (dcl m hn)) lit := by
  unfold Meter.bump dMeter
  simp [logCalls_dmap]

theorem dMeter_cb (M : Meter K n) (xold x : K) (y : Vec K n) (smp : Array (Vec K n)) :
    dMeter m hn (M.cb xold x y smp) = (dMeter m hn M).cb xold x (dupV m hn y) (smp.map (dupV m hn)) := by
  unfold Meter.cb dMeter; simp [dEv]

theorem dMeter_incTotal (M : Meter K n) : dMeter m hn M.incTotal = (dMeter m hn M).incTotal := rfl
theorem dMeter_incAccepted (M : Meter K n) : dMeter m hn M.incAccepted = (dMeter m hn M).incAccepted := rfl
theorem dMeter_decAccepted (M : Meter K n) : dMeter m hn M.decAccepted = (dMeter m hn M).decAccepted := rfl
theorem dMeter_incRejected (M : Meter K n) : dMeter m hn M.incRejected = (dMeter m hn M).incRejected := rfl
theorem dMeter_refresh (M : Meter K n) (x : K) (y : Vec K n) : dMeter m hn (M.refresh x y) = (dMeter m hn M).refresh x (dupV m hn y) := by
  unfold Meter.refresh dMeter; simp [dEv]

theorem sampleInterp_dup (ip : Option (K → Vec K n)) (xold x q hf t : K) :
    sampleInterp (dIp m hn ip) xold x q hf t = (sampleInterp ip xold x q hf t).map (dupV m hn) := by
  cases ip with
  | none => simp [sampleInterp, dIp]
  | some e => simp [sampleInterp, dIp, Option.map]

def dAfter {σ : Type} : AfterCb σ K n → AfterCb σ K (m * n)
  | .stop o y => .stop o (dupV m hn y)
  | .go o y k1 M => .go o (dupV m hn y) (dupV m hn k1) (dMeter m hn M)

theorem afterCb_dup {σ : Type} (F : Rhs K (m * n)) (f : Rhs K n) (hF : DupRhs m hn F f) (Ob : Obs σ K (m * n)) (ob : Obs σ K n)
    (hOb : DupObs m hn Ob ob) (obs : σ) (M : Meter K n) (xold x : K) (y : Vec K n) (ip : Option (K → Vec K n)) (kNext : Vec K n) :
    afterCb F Ob obs (dMeter m hn M) xold x (dupV m hn y) (dIp m hn ip) (dupV m hn kNext)
      = dAfter m hn (afterCb f ob obs M xold x y ip kNext) := by
  unfold afterCb
  rw [hOb]
  generalize ob obs xold x y ip = r
  obtain ⟨r1, r2, r3⟩ := r
  cases r2 <;> simp [dAfter, hF _ _ _, dMeter_refresh, dMeter_ncalls]

end
end Ctl
