import IvpModel.Proofs.ScaleRk23
import IvpModel.Proofs.ReflectRk4
set_option linter.unusedSectionVars false
set_option linter.unusedSimpArgs false
set_option linter.unusedTactic false
set_option linter.unnecessarySeqFocus false
set_option linter.unusedVariables false

/-!
  C13, whole runs of RK4 (fixed step) under a scaling of the state by `c ≠ 0`: the run of `z' = c·f(t, z/c)` from `c·y0` is the
  scaled image of the run of `y' = f(t, y)` from `y0` — the same step points, statuses and counters.
-/
namespace Ctl
noncomputable section
variable {K : Type} [Field K] [LinearOrder K] [IsStrictOrderedRing K] [SqrtPow K] {n : Nat}

def sS4 {σ : Type} (c : K) (s : R4State σ K n) : R4State σ K n := { s with y := vsmul c s.y, k1 := vsmul c s.k1, m := sMeter c s.m }
def sOut4 {σ : Type} (c : K) : Sum (R4State σ K n) (Result σ K n) → Sum (R4State σ K n) (Result σ K n)
  | .inl s => .inl (sS4 c s)
  | .inr r => .inr (sResult c r)

section stages
open Gen.Rk4
theorem r4l1_scale (c : K) (y k1 : Vector K n) (h : K) : stages_loop1 (y := vsmul c y) (h := h) (k1 := vsmul c k1) = vsmul c (stages_loop1 (y := y) (h := h) (k1 := k1)) := by
  ext i hi; simp [stages_loop1, vsmul]; ring
theorem r4l2_scale (c : K) (y k2 : Vector K n) (h : K) : stages_loop2 (y := vsmul c y) (h := h) (k2 := vsmul c k2) = vsmul c (stages_loop2 (y := y) (h := h) (k2 := k2)) := by
  ext i hi; simp [stages_loop2, vsmul]; ring
theorem r4l3_scale (c : K) (y k3 : Vector K n) (h : K) : stages_loop3 (y := vsmul c y) (h := h) (k3 := vsmul c k3) = vsmul c (stages_loop3 (y := y) (h := h) (k3 := k3)) := by
  ext i hi; simp [stages_loop3, vsmul]; ring

def sStages4 (c : K) (o : StagesOut K n) : StagesOut K n :=
  { yt := vsmul c o.yt, k2 := vsmul c o.k2, calls := o.calls.map (scl c), k3 := vsmul c o.k3, xph := o.xph, k4 := vsmul c o.k4 }

theorem stages4_scale_off (c : K) (hc : c ≠ 0) (F : Rhs K n) (c0 : Nat) (y k1 : Vector K n) (x h : K) (last : Bool) (xend : K) :
    stages (f := fun j => sRhs c F (c0 + j)) (y := vsmul c y) (h := h) (k1 := vsmul c k1) (x := x) (last := last) (xend := xend)
      = sStages4 c (stages (f := fun j => F (c0 + j)) (y := y) (h := h) (k1 := k1) (x := x) (last := last) (xend := xend)) := by
  simp only [stages, sStages4, sRhs, r4l1_scale, r4l2_scale, r4l3_scale, vsmul_inv c hc]
  simp [scl]

theorem update_loop_scale (c : K) (y k1 k2 k3 k4 : Vector K n) (h : K) :
    update_loop1 (h := h) (k1 := vsmul c k1) (k2 := vsmul c k2) (k3 := vsmul c k3) (k4 := vsmul c k4) (y := vsmul c y)
      = vsmul c (update_loop1 (h := h) (k1 := k1) (k2 := k2) (k3 := k3) (k4 := k4) (y := y)) := by
  ext i hi; simp [update_loop1, vsmul]; ring

def sUpdate (c : K) (u : UpdateOut K n) : UpdateOut K n :=
  { x := u.x, y := vsmul c u.y, k2 := vsmul c u.k2, k1 := vsmul c u.k1, calls := u.calls.map (scl c) }

theorem update_scale_off (c : K) (hc : c ≠ 0) (F : Rhs K n) (c0 : Nat) (y k1 k2 k3 k4 : Vector K n) (xph h : K) :
    update (f := fun j => sRhs c F (c0 + j)) (xph := xph) (h := h) (k1 := vsmul c k1) (k2 := vsmul c k2) (k3 := vsmul c k3) (k4 := vsmul c k4) (y := vsmul c y)
      = sUpdate c (update (f := fun j => F (c0 + j)) (xph := xph) (h := h) (k1 := k1) (k2 := k2) (k3 := k3) (k4 := k4) (y := y)) := by
  simp only [update, sUpdate, sRhs, update_loop_scale, vsmul_inv c hc]
  simp [scl]

theorem interp4_scale (c : K) (c0 c1 c2 c3 : Vector K n) (xold h xi : K) :
    interpolate (xi := xi) (xold := xold) (h := h) (cont0 := vsmul c c0) (cont1 := vsmul c c1) (cont2 := vsmul c c2) (cont3 := vsmul c c3)
      = vsmul c (interpolate (xi := xi) (xold := xold) (h := h) (cont0 := c0) (cont1 := c1) (cont2 := c2) (cont3 := c3)) := by
  simp only [interpolate, interpolate_loop1]
  generalize (xi - xold) / h = t
  ext i hi
  simp [vsmul]
  ring

theorem dense4_scale (c : K) (yt k2 k1 y : Vector K n) :
    let d := dense (yt := yt) (k2 := k2) (k1 := k1) (y := y)
    let d' := dense (yt := vsmul c yt) (k2 := vsmul c k2) (k1 := vsmul c k1) (y := vsmul c y)
    d'.cont0 = vsmul c d.cont0 ∧ d'.cont1 = vsmul c d.cont1 ∧ d'.cont2 = vsmul c d.cont2 ∧ d'.cont3 = vsmul c d.cont3 := by
  intro d d'
  refine ⟨rfl, ?_, ?_, rfl⟩ <;> (ext i hi; simp [d, d', dense, dense_loop1, vsmul])
end stages

theorem ip4_scale (c : K) (dn : Bool) (y uk2 uk1 uy : Vec K n) (x h : K) :
    (if dn = true then
        some fun xi => Gen.Rk4.interpolate (xi := xi) (xold := x) (h := h) (cont0 := (Gen.Rk4.dense (yt := vsmul c y) (k2 := vsmul c uk2) (k1 := vsmul c uk1) (y := vsmul c uy)).cont0)
          (cont1 := (Gen.Rk4.dense (yt := vsmul c y) (k2 := vsmul c uk2) (k1 := vsmul c uk1) (y := vsmul c uy)).cont1)
          (cont2 := (Gen.Rk4.dense (yt := vsmul c y) (k2 := vsmul c uk2) (k1 := vsmul c uk1) (y := vsmul c uy)).cont2)
          (cont3 := (Gen.Rk4.dense (yt := vsmul c y) (k2 := vsmul c uk2) (k1 := vsmul c uk1) (y := vsmul c uy)).cont3)
      else none)
    = sIp c (if dn = true then
        some fun xi => Gen.Rk4.interpolate (xi := xi) (xold := x) (h := h) (cont0 := (Gen.Rk4.dense (yt := y) (k2 := uk2) (k1 := uk1) (y := uy)).cont0)
          (cont1 := (Gen.Rk4.dense (yt := y) (k2 := uk2) (k1 := uk1) (y := uy)).cont1)
          (cont2 := (Gen.Rk4.dense (yt := y) (k2 := uk2) (k1 := uk1) (y := uy)).cont2)
          (cont3 := (Gen.Rk4.dense (yt := y) (k2 := uk2) (k1 := uk1) (y := uy)).cont3)
      else none) := by
  obtain ⟨d0, d1, d2, d3⟩ := dense4_scale c y uk2 uk1 uy
  cases dn with
  | false => rfl
  | true =>
    simp only [if_true, sIp, Option.map]
    congr 1
    funext xi
    rw [d0, d1, d2, d3]
    exact interp4_scale c _ _ _ _ x h xi

/-- **C13, the body of an RK4 pass under a scaling of the state.** -/
theorem rk4Body_scale {σ : Type} (c : K) (hc : c ≠ 0) (P : R4Params K) (f : Rhs K n) (ob : Obs σ K n) (x hs : K) (y k1 : Vec K n) (m : Meter K n)
    (obs : σ) (h : K) (L : Bool) :
    rk4Body P (sRhs c f) (sObs c ob) (sS4 c { x := x, h := hs, y := y, k1 := k1, m := m, obs := obs }) h L
      = sOut4 c (rk4Body P f ob { x := x, h := hs, y := y, k1 := k1, m := m, obs := obs } h L) := by
  obtain ⟨xend, nmax, dns, q1, q2, q3⟩ := P
  unfold rk4Body
  dsimp (config := { instances := true }) only [sS4]
  simp only [sMeter_ncalls, stages4_scale_off c hc]
  generalize Gen.Rk4.stages (f := fun j => f (m.ncalls + j)) (y := y) (h := h) (k1 := k1) (x := x) (last := L) (xend := xend) = O
  obtain ⟨oyt, ok2, ocalls, ok3, oxph, ok4⟩ := O
  dsimp only [sStages4]
  have hn : ((sMeter c m).bump (Array.map (scl c) ocalls) 3).ncalls = (m.bump ocalls 3).ncalls := by
    simp [Meter.bump, sMeter]
  rw [hn, update_scale_off c hc]
  generalize Gen.Rk4.update (f := fun j => f ((m.bump ocalls 3).ncalls + j)) (xph := oxph) (h := h) (k1 := k1) (k2 := ok2) (k3 := ok3) (k4 := ok4) (y := y) = U
  obtain ⟨ux, uy, uk2, uk1, ucalls⟩ := U
  dsimp only [sUpdate]
  rw [ip4_scale]
  generalize (if dns = true then
        some fun xi => Gen.Rk4.interpolate (xi := xi) (xold := x) (h := h) (cont0 := (Gen.Rk4.dense (yt := y) (k2 := uk2) (k1 := uk1) (y := uy)).cont0)
          (cont1 := (Gen.Rk4.dense (yt := y) (k2 := uk2) (k1 := uk1) (y := uy)).cont1)
          (cont2 := (Gen.Rk4.dense (yt := y) (k2 := uk2) (k1 := uk1) (y := uy)).cont2)
          (cont3 := (Gen.Rk4.dense (yt := y) (k2 := uk2) (k1 := uk1) (y := uy)).cont3)
      else none) = IP
  rw [sampleInterp_scale, ← sMeter_bump, ← sMeter_bump, ← sMeter_incTotal, ← sMeter_incAccepted, ← sMeter_cb, afterCb_scale c hc]
  cases afterCb f ob obs (((m.bump ocalls 3).bump ucalls 1).incTotal.incAccepted.cb x ux uy (sampleInterp IP x ux q1 q2 q3)) x ux uy IP uk1 with
  | stop o yy => rfl
  | go o yy kk mm =>
    cases L <;> rfl

theorem rk4Iter_scale {σ : Type} (c : K) (hc : c ≠ 0) (P : R4Params K) (f : Rhs K n) (ob : Obs σ K n) (s : R4State σ K n) :
    rk4Iter P (sRhs c f) (sObs c ob) (sS4 c s) = sOut4 c (rk4Iter P f ob s) := by
  rw [rk4Iter_eq_body, rk4Iter_eq_body]
  have hA : rk4Adjust P (sS4 c s) = rk4Adjust P s := rfl
  by_cases hb : s.m.cnt.total ≥ P.nmax
  · have hb' : (sS4 c s).m.cnt.total ≥ P.nmax := hb
    rw [if_pos hb, if_pos hb']
    rfl
  · have hb' : ¬ (sS4 c s).m.cnt.total ≥ P.nmax := hb
    rw [if_neg hb, if_neg hb', hA]
    have hx : (sS4 c s).x = s.x := rfl
    rw [hx]
    by_cases hz : Num.eqb (s.x + (rk4Adjust P s).1) s.x = true
    · rw [if_pos hz, if_pos hz]; rfl
    · rw [if_neg hz, if_neg hz]
      obtain ⟨x, hs, y, k1, m, obs⟩ := s
      exact rk4Body_scale c hc P f ob x hs y k1 m obs _ _

theorem rk4Loop_scale {σ : Type} (c : K) (hc : c ≠ 0) (P : R4Params K) (f : Rhs K n) (ob : Obs σ K n) :
    ∀ (fuel : Nat) (s : R4State σ K n),
      rk4Loop P (sRhs c f) (sObs c ob) fuel (sS4 c s) = (rk4Loop P f ob fuel s).map (sResult c) := by
  intro fuel
  induction fuel with
  | zero => intro s; rfl
  | succ fuel ih =>
    intro s
    unfold rk4Loop
    rw [rk4Iter_scale c hc P f ob s]
    cases hq : rk4Iter P f ob s with
    | inr r => rfl
    | inl s' => exact ih s'

theorem rk4Start_scale {σ : Type} (c : K) (hc : c ≠ 0) (f : Rhs K n) (ob : Obs σ K n) (obs0 : σ) (x0 : K) (y0 : Vec K n) (h : K) :
    rk4Start (sRhs c f) (sObs c ob) obs0 x0 (vsmul c y0) h = sOut4 c (rk4Start f ob obs0 x0 y0 h) := by
  unfold rk4Start
  have hm : ((({} : Meter K n).bump #[(x0, vsmul c y0)] 1).cb x0 x0 (vsmul c y0) #[]) = sMeter c ((({} : Meter K n).bump #[(x0, y0)] 1).cb x0 x0 y0 #[]) := by
    rw [sMeter_cb, sMeter_bump]
    simp [sMeter, scl]
  have hk : sRhs c f 0 x0 (vsmul c y0) = vsmul c (f 0 x0 y0) := by simp [sRhs, vsmul_inv c hc]
  have ha := afterCb_scale c hc f ob obs0 ((({} : Meter K n).bump #[(x0, y0)] 1).cb x0 x0 y0 #[]) x0 x0 y0 none (f 0 x0 y0)
  rw [show sIp c (none : Option (K → Vec K n)) = none from rfl] at ha
  dsimp only
  rw [hm, hk, ha]
  cases afterCb f ob obs0 ((({} : Meter K n).bump #[(x0, y0)] 1).cb x0 x0 y0 #[]) x0 x0 y0 none (f 0 x0 y0) with
  | stop o yy => rfl
  | go o yy kk mm => rfl

/-- **C13 (RK4, whole run under a scaling of the state by `c ≠ 0`).** -/
theorem rk4Solve_scale {σ : Type} (c : K) (hc : c ≠ 0) (P : R4Params K) (f : Rhs K n) (ob : Obs σ K n) (obs0 : σ) (x0 : K) (y0 : Vec K n) (h : K)
    (fuel : Nat) :
    rk4Solve P (sRhs c f) (sObs c ob) obs0 x0 (vsmul c y0) h fuel = (rk4Solve P f ob obs0 x0 y0 h fuel).map (sResult c) := by
  unfold rk4Solve
  rw [rk4Start_scale c hc]
  cases hq : rk4Start f ob obs0 x0 y0 h with
  | inr r => rfl
  | inl s => exact rk4Loop_scale c hc P f ob fuel s

end
end Ctl
