import IvpModel.Proofs.ScaleHairer
import IvpModel.Proofs.NormLemmas
set_option linter.unusedSectionVars false
set_option linter.unusedSimpArgs false
set_option linter.unusedTactic false
set_option linter.unnecessarySeqFocus false
set_option linter.unusedVariables false

/-!
  C13, whole runs of DOPRI5 under a scaling of state and absolute tolerance by `c > 0` (a power of two in the property; any
  positive factor in exact arithmetic): the translated regions of dopri5.rs and the shared `hinit` obey the scaling laws of
  `Proofs/ScaleHairer.lean` between the kernels with tolerances `atol` and `c·atol`.
-/
namespace Ctl
noncomputable section
variable {K : Type} [Field K] [LinearOrder K] [IsStrictOrderedRing K] [SqrtPow K] {n : Nat}

theorem vsmul_get (c : K) (v : Vector K n) (i : Fin n) : (vsmul c v)[i] = c * v[i] := by simp [vsmul]

/-- `(c·e) / (c·atol + rtol·|c·y|) = e / (atol + rtol·|y|)` for `c > 0` -/
theorem ratio_scale (c : K) (hc : 0 < c) (e a r yy : K) : (c * e) / (c * a + r * |c * yy|) = e / (a + r * |yy|) := by
  rw [abs_mul, abs_of_pos hc, show c * a + r * (c * |yy|) = c * (a + r * |yy|) by ring, mul_div_mul_left _ _ hc.ne']
theorem ratio_scale_sub (c : K) (hc : 0 < c) (e1 e2 a r yy : K) : (c * e1 - c * e2) / (c * a + r * |c * yy|) = (e1 - e2) / (a + r * |yy|) := by
  rw [← mul_sub]; exact ratio_scale c hc _ a r yy

section hinit
theorem hinit_loop1_scale (c : K) (hc : 0 < c) (dnf dny : K) (atol rtol y f0 : Vector K n) :
    Gen.Common.hinit_loop1 (dnf := dnf) (dny := dny) (atol := vsmul c atol) (rtol := rtol) (y := vsmul c y) (f0 := vsmul c f0)
      = Gen.Common.hinit_loop1 (dnf := dnf) (dny := dny) (atol := atol) (rtol := rtol) (y := y) (f0 := f0) := by
  unfold Gen.Common.hinit_loop1
  simp only [vsmul_get, num_abs, ratio_scale c hc]

theorem hinit_loop2_scale (c : K) (h : K) (y f0 : Vector K n) :
    Gen.Common.hinit_loop2 (y := vsmul c y) (h := h) (f0 := vsmul c f0) = vsmul c (Gen.Common.hinit_loop2 (y := y) (h := h) (f0 := f0)) := by
  ext i hi; simp [Gen.Common.hinit_loop2, vsmul]; ring

theorem hinit_loop3_scale (c : K) (hc : 0 < c) (der2 : K) (atol rtol y f1 f0 : Vector K n) :
    Gen.Common.hinit_loop3 (der2 := der2) (atol := vsmul c atol) (rtol := rtol) (y := vsmul c y) (f1 := vsmul c f1) (f0 := vsmul c f0)
      = Gen.Common.hinit_loop3 (der2 := der2) (atol := atol) (rtol := rtol) (y := y) (f1 := f1) (f0 := f0) := by
  unfold Gen.Common.hinit_loop3
  simp only [vsmul_get, num_abs, ratio_scale_sub c hc]

/-- **C13, the automatic first step under a scaling of state and atol by `c > 0`**: same step, scaled probe point -/
theorem hinit_scale_gen (c : K) (hc : 0 < c) (F : Rhs K n) (atol rtol y f0 : Vector K n) (hmax posneg x : K) (iord : Nat) :
    (Gen.Common.hinit (f := sRhs c F) (atol := vsmul c atol) (rtol := rtol) (y := vsmul c y) (f0 := vsmul c f0) (hmax := hmax) (posneg := posneg) (x := x) (iord := iord)).1
      = (Gen.Common.hinit (f := F) (atol := atol) (rtol := rtol) (y := y) (f0 := f0) (hmax := hmax) (posneg := posneg) (x := x) (iord := iord)).1
    ∧ (Gen.Common.hinit (f := sRhs c F) (atol := vsmul c atol) (rtol := rtol) (y := vsmul c y) (f0 := vsmul c f0) (hmax := hmax) (posneg := posneg) (x := x) (iord := iord)).2
      = (Gen.Common.hinit (f := F) (atol := atol) (rtol := rtol) (y := y) (f0 := f0) (hmax := hmax) (posneg := posneg) (x := x) (iord := iord)).2.map (scl c) := by
  unfold Gen.Common.hinit
  simp only [hinit_loop1_scale c hc, hinit_loop2_scale, sRhs, vsmul_inv c hc.ne', hinit_loop3_scale c hc]
  refine ⟨trivial, ?_⟩
  simp only [Array.map_push, Array.map_empty, scl]

theorem hinitCall_scale (c : K) (hc : 0 < c) (atol rtol : Vec K n) (x0 : K) (y0 : Vec K n) (posneg hmaxArg : K) (iord : Nat) :
    HinitScale c (hinitCall atol rtol x0 y0 posneg hmaxArg iord) (hinitCall (vsmul c atol) rtol x0 (vsmul c y0) posneg hmaxArg iord) := by
  intro F k1
  exact hinit_scale_gen c hc (fun j => F (1 + j)) atol rtol y0 k1 hmaxArg posneg x0 iord
end hinit

theorem foldl_pair_scale (q : K) : ∀ (n : Nat) (g1 g2 : Fin n → K) (a b : K),
    Fin.foldl n (fun (st : K × K) i => (st.1 + q * g1 i, st.2 + q * g2 i)) (q * a, q * b)
      = (q * (Fin.foldl n (fun (st : K × K) i => (st.1 + g1 i, st.2 + g2 i)) (a, b)).1,
         q * (Fin.foldl n (fun (st : K × K) i => (st.1 + g1 i, st.2 + g2 i)) (a, b)).2) := by
  intro n
  induction n with
  | zero => intro g1 g2 a b; simp [Fin.foldl_zero]
  | succ n ih =>
    intro g1 g2 a b
    rw [Fin.foldl_succ_last, Fin.foldl_succ_last]
    have := ih (fun i => g1 i.castSucc) (fun i => g2 i.castSucc) a b
    simp only [] at this ⊢
    rw [this]
    simp only [mul_add]


theorem stiff5_scale (c : K) (hc : c ≠ 0) (k2 k6 y1 ysti : Vector K n) (h hl : K) :
    (Gen.Dopri5.stiff (k2 := vsmul c k2) (k6 := vsmul c k6) (y1 := vsmul c y1) (ysti := vsmul c ysti) (h := h) (hlamb := hl)).hlamb
      = (Gen.Dopri5.stiff (k2 := k2) (k6 := k6) (y1 := y1) (ysti := ysti) (h := h) (hlamb := hl)).hlamb := by
  have e : ∀ a b : K, (c * a - c * b) * (c * a - c * b) = (c * c) * ((a - b) * (a - b)) := fun a b => by ring
  have hq : 0 < c * c := mul_self_pos.mpr hc
  have vg : ∀ (v : Vector K n) (i : Fin n), (vsmul c v)[i] = c * v[i] := fun v i => by simp [vsmul]
  simp only [Gen.Dopri5.stiff, Gen.Dopri5.stiff_loop1, vg, e, num_lit, Int.cast_zero, zero_div]
  have key := foldl_pair_scale (c * c) n (fun i => (k2[i] - k6[i]) * (k2[i] - k6[i])) (fun i => (y1[i] - ysti[i]) * (y1[i] - ysti[i])) 0 0
  rw [mul_zero] at key
  rw [key]
  generalize Fin.foldl n (fun (st : K × K) i => (st.1 + (k2[i] - k6[i]) * (k2[i] - k6[i]), st.2 + (y1[i] - ysti[i]) * (y1[i] - ysti[i]))) (0, 0) = AB
  obtain ⟨A, B⟩ := AB
  dsimp only
  rw [mul_div_mul_left _ _ hq.ne']
  by_cases hB : B > 0
  · rw [if_pos hB, if_pos (mul_pos hq hB)]
  · have hB' : ¬ (c * c * B > 0) := fun h' => hB ((mul_pos_iff_of_pos_left hq).mp h')
    rw [if_neg hB, if_neg hB']

section regions
open Gen.Dopri5

theorem d5l1_scale (c : K) (y k1 : Vector K n) (h : K) :
    stages_loop1 (y := vsmul c y) (h := h) (k1 := vsmul c k1) = vsmul c (stages_loop1 (y := y) (h := h) (k1 := k1)) := by
  ext i hi; simp [stages_loop1, vsmul]; ring
theorem d5l2_scale (c : K) (y k1 k2 : Vector K n) (h : K) :
    stages_loop2 (y := vsmul c y) (h := h) (k1 := vsmul c k1) (k2 := vsmul c k2) = vsmul c (stages_loop2 (y := y) (h := h) (k1 := k1) (k2 := k2)) := by
  ext i hi; simp [stages_loop2, vsmul]; ring
theorem d5l3_scale (c : K) (y k1 k2 k3 : Vector K n) (h : K) :
    stages_loop3 (y := vsmul c y) (h := h) (k1 := vsmul c k1) (k2 := vsmul c k2) (k3 := vsmul c k3)
      = vsmul c (stages_loop3 (y := y) (h := h) (k1 := k1) (k2 := k2) (k3 := k3)) := by
  ext i hi; simp [stages_loop3, vsmul]; ring
theorem d5l4_scale (c : K) (y k1 k2 k3 k4 : Vector K n) (h : K) :
    stages_loop4 (y := vsmul c y) (h := h) (k1 := vsmul c k1) (k2 := vsmul c k2) (k3 := vsmul c k3) (k4 := vsmul c k4)
      = vsmul c (stages_loop4 (y := y) (h := h) (k1 := k1) (k2 := k2) (k3 := k3) (k4 := k4)) := by
  ext i hi; simp [stages_loop4, vsmul]; ring
theorem d5l5_scale (c : K) (y k1 k2 k3 k4 k5 : Vector K n) (h : K) :
    stages_loop5 (y := vsmul c y) (h := h) (k1 := vsmul c k1) (k2 := vsmul c k2) (k3 := vsmul c k3) (k4 := vsmul c k4) (k5 := vsmul c k5)
      = vsmul c (stages_loop5 (y := y) (h := h) (k1 := k1) (k2 := k2) (k3 := k3) (k4 := k4) (k5 := k5)) := by
  ext i hi; simp [stages_loop5, vsmul]; ring
theorem d5l6_scale (c : K) (y k1 k3 k4 k5 k6 : Vector K n) (h : K) :
    stages_loop6 (y := vsmul c y) (h := h) (k1 := vsmul c k1) (k3 := vsmul c k3) (k4 := vsmul c k4) (k5 := vsmul c k5) (k6 := vsmul c k6)
      = vsmul c (stages_loop6 (y := y) (h := h) (k1 := k1) (k3 := k3) (k4 := k4) (k5 := k5) (k6 := k6)) := by
  ext i hi; simp [stages_loop6, vsmul]; ring

/-- scaled image of DOPRI5's stage data -/
def sStages5 (c : K) (o : StagesOut K n) : StagesOut K n :=
  { y1 := vsmul c o.y1, k2 := vsmul c o.k2, calls := o.calls.map (scl c), k3 := vsmul c o.k3, k4 := vsmul c o.k4, k5 := vsmul c o.k5,
    ysti := vsmul c o.ysti, xph := o.xph, k6 := vsmul c o.k6 }

theorem stages5_scale_off (c : K) (hc : c ≠ 0) (F : Rhs K n) (c0 : Nat) (y k1 : Vector K n) (x h : K) (last : Bool) (xend : K) :
    stages (f := fun j => sRhs c F (c0 + j)) (y := vsmul c y) (h := h) (k1 := vsmul c k1) (x := x) (last := last) (xend := xend)
      = sStages5 c (stages (f := fun j => F (c0 + j)) (y := y) (h := h) (k1 := k1) (x := x) (last := last) (xend := xend)) := by
  simp only [stages, sStages5, sRhs, d5l1_scale, d5l2_scale, d5l3_scale, d5l4_scale, d5l5_scale, d5l6_scale, vsmul_inv c hc]
  simp [scl]

theorem errk4_scale (c : K) (k1 k2 k3 k4 k5 k6 : Vector K n) (h : K) :
    (errk4 (k1 := vsmul c k1) (k3 := vsmul c k3) (k4 := vsmul c k4) (k5 := vsmul c k5) (k6 := vsmul c k6) (k2 := vsmul c k2) (h := h)).k4
      = vsmul c (errk4 (k1 := k1) (k3 := k3) (k4 := k4) (k5 := k5) (k6 := k6) (k2 := k2) (h := h)).k4 := by
  ext i hi; simp [errk4, errk4_loop1, vsmul]; ring

theorem dense5_scale (c : K) (y1 y k1 k2 : Vector K n) (h : K) :
    let d := dense (y1 := y1) (y := y) (h := h) (k1 := k1) (k2 := k2)
    let d' := dense (y1 := vsmul c y1) (y := vsmul c y) (h := h) (k1 := vsmul c k1) (k2 := vsmul c k2)
    d'.cont0 = vsmul c d.cont0 ∧ d'.cont1 = vsmul c d.cont1 ∧ d'.cont2 = vsmul c d.cont2 ∧ d'.cont3 = vsmul c d.cont3 := by
  intro d d'
  refine ⟨?_, ?_, ?_, ?_⟩ <;> (ext i hi; simp [d, d', dense, dense_loop1, vsmul]; try ring)

theorem dense45_scale (c : K) (k1 k2 k3 k4 k5 k6 : Vector K n) (h : K) :
    (dense4 (h := h) (k1 := vsmul c k1) (k3 := vsmul c k3) (k4 := vsmul c k4) (k5 := vsmul c k5) (k6 := vsmul c k6) (k2 := vsmul c k2)).cont4
      = vsmul c (dense4 (h := h) (k1 := k1) (k3 := k3) (k4 := k4) (k5 := k5) (k6 := k6) (k2 := k2)).cont4 := by
  ext i hi; simp [dense4, dense4_loop1, vsmul]; ring

theorem interp5_scale (c : K) (c0 c1 c2 c3 c4 : Vector K n) (xold h xi : K) :
    interpolate (xi := xi) (xold := xold) (h := h) (cont0 := vsmul c c0) (cont1 := vsmul c c1) (cont2 := vsmul c c2) (cont3 := vsmul c c3) (cont4 := vsmul c c4)
      = vsmul c (interpolate (xi := xi) (xold := xold) (h := h) (cont0 := c0) (cont1 := c1) (cont2 := c2) (cont3 := c3) (cont4 := c4)) := by
  simp only [interpolate, interpolate_loop1]
  generalize (xi - xold) / h = t
  ext i hi
  simp [vsmul]
  ring
end regions


/-- scaled image of DOPRI5's stage data -/
def sD5S (c : K) (S : D5S K n) : D5S K n :=
  { y1 := vsmul c S.y1, k2 := vsmul c S.k2, k3 := vsmul c S.k3, k4 := vsmul c S.k4, k5 := vsmul c S.k5, k6 := vsmul c S.k6,
    ek4 := vsmul c S.ek4, ysti := vsmul c S.ysti }

theorem vecFinite_field (v : Vec K n) : vecFinite v = true := by
  unfold vecFinite
  rw [Array.all_eq_true]
  intro i hi
  simp [Num.isNaN]

/-- **DOPRI5's numeric kernels with tolerances `atol` and `c·atol` are related by the scaling laws.** -/
def dopri5KScale (c : K) (hc : 0 < c) (atol rtol : Vec K n) : KScale c (dopri5Kernel (α := K) atol rtol) (dopri5Kernel (α := K) (vsmul c atol) rtol) where
  sS := sD5S c
  sSA := sD5S c
  trial := by
    intro F c0 x h last xend y k1
    simp only [dopri5Kernel, sD5S, stages5_scale_off c hc.ne', sStages5, errk4_scale]
  err := by
    intro s y h
    simp only [dopri5Kernel, sD5S, finiteGuard, vecFinite_field, if_true, dopri5_errnorm_scale c hc]
  acceptA := by
    intro F c0 s x h y k1
    simp [dopri5Kernel]
  hlamb := by
    intro a h y k1 old
    exact stiff5_scale c hc.ne' a.k2 a.k6 a.y1 a.ysti h old
  acceptB := by
    intro F c0 d a x h y k1
    obtain ⟨d0, d1, d2, d3⟩ := dense5_scale c a.y1 y k1 a.k2 h
    cases d <;> simp [dopri5Kernel, sD5S, d0, d1, d2, d3, dense45_scale]
  interp := by
    intro F c0 a x h y k1 xold hh t
    simp [dopri5Kernel, interp5_scale]

/-- for a right-hand side that is homogeneous of degree one in the state (in particular a linear homogeneous system) the
    scaled problem has the same right-hand side -/
theorem sRhs_of_homogeneous (c : K) (hc : c ≠ 0) (f : Rhs K n) (hf : ∀ j t y, f j t (vsmul c y) = vsmul c (f j t y)) : sRhs c f = f := by
  funext j t y
  unfold sRhs
  rw [← hf, vsmul_inv' c hc]

/-- **Whole runs of DOPRI5 under a scaling of state and atol by `c > 0`**: same step points, step sizes, error estimates,
    statuses and counters; states, derivatives, call arguments and interpolant samples scaled by `c`. -/
theorem dopri5Solve_scale {σ : Type} (c : K) (hc : 0 < c) (L : HLits K) (xend posneg uround safety scaleMin scaleMax beta hmax : K)
    (nmax nstiff : Nat) (dense : Bool) (atol rtol : Vec K n) (f : Rhs K n) (ob : Obs σ K n) (obs0 : σ) (x0 : K) (y0 : Vec K n)
    (firstStep : Option K) (hmaxArg : K) (iord : Nat) (fo hl : K) (fuel : Nat) :
    hSolve (dopri5Params L xend posneg uround safety scaleMin scaleMax beta hmax nmax nstiff dense) (dopri5Kernel (vsmul c atol) rtol)
        (sRhs c f) (sObs c ob) obs0 x0 (vsmul c y0) firstStep (hinitCall (vsmul c atol) rtol x0 (vsmul c y0) posneg hmaxArg iord) fo hl fuel
      = (hSolve (dopri5Params L xend posneg uround safety scaleMin scaleMax beta hmax nmax nstiff dense) (dopri5Kernel atol rtol)
        f ob obs0 x0 y0 firstStep (hinitCall atol rtol x0 y0 posneg hmaxArg iord) fo hl fuel).map (sResult c) :=
  hSolve_scale c hc.ne' _ _ _ (dopri5KScale c hc atol rtol) f ob obs0 x0 y0 firstStep _ _ (hinitCall_scale c hc atol rtol x0 y0 posneg hmaxArg iord) fo hl fuel

end
end Ctl
