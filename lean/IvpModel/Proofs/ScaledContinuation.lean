import IvpModel.Proofs.ScaleDop853
import IvpModel.Proofs.ScaleRk23
import IvpModel.Proofs.ScaleRk4
set_option linter.unusedSectionVars false
set_option linter.unusedVariables false

/-!
  C19, the doubling law behind `ModifiedSolution`: when a callback rewrites the state to `c·y` (c > 0) on a problem that is
  homogeneous of degree one in the state, under pure relative error control (atol = 0), the rest of the run is the `c`-scaled image of
  what the rest of the run would have been — the same step points, step sizes, error estimates, statuses and counters.  These are
  the whole-run scaling theorems of C13 read from an arbitrary state of the loop, with `c·0 = 0` for the absolute tolerance.
-/
namespace Ctl
noncomputable section
variable {K : Type} [Field K] [LinearOrder K] [IsStrictOrderedRing K] [SqrtPow K] {n : Nat}

def zeroVec : Vec K n := Vector.ofFn fun _ => 0

theorem vsmul_zeroVec (c : K) : vsmul c (zeroVec : Vec K n) = zeroVec := by
  ext i hi; simp [vsmul, zeroVec]

/-- DOPRI5: the continuation from the scaled state is the scaled continuation (pure relative tolerance) -/
theorem dopri5_scaled_continuation {σ : Type} (c : K) (hc : 0 < c) (P : HParams K n) (rtol : Vec K n) (f : Rhs K n)
    (hf : ∀ j t y, f j t (vsmul c y) = vsmul c (f j t y)) (ob : Obs σ K n) (fuel : Nat) (s : HState σ K n) :
    hLoop P (dopri5Kernel zeroVec rtol) f (sObs c ob) fuel (sHS c s) = (hLoop P (dopri5Kernel zeroVec rtol) f ob fuel s).map (sResult c) := by
  have h := hLoop_scale c hc.ne' P _ _ (dopri5KScale c hc (zeroVec : Vec K n) rtol) f ob fuel s
  rw [vsmul_zeroVec, sRhs_of_homogeneous c hc.ne' f hf] at h
  exact h

/-- DOP853: the continuation from the scaled state is the scaled continuation (pure relative tolerance) -/
theorem dop853_scaled_continuation {σ : Type} (c : K) (hc : 0 < c) (P : HParams K n) (rtol : Vec K n) (f : Rhs K n)
    (hf : ∀ j t y, f j t (vsmul c y) = vsmul c (f j t y)) (ob : Obs σ K n) (fuel : Nat) (s : HState σ K n) :
    hLoop P (dop853Kernel zeroVec rtol) f (sObs c ob) fuel (sHS c s) = (hLoop P (dop853Kernel zeroVec rtol) f ob fuel s).map (sResult c) := by
  have h := hLoop_scale c hc.ne' P _ _ (dop853KScale c hc (zeroVec : Vec K n) rtol) f ob fuel s
  rw [vsmul_zeroVec, sRhs_of_homogeneous c hc.ne' f hf] at h
  exact h

/-- RK23: the continuation from the scaled state is the scaled continuation (pure relative tolerance) -/
theorem rk23_scaled_continuation {σ : Type} (c : K) (hc : 0 < c) (P : R23Params K n) (hP : P.atol = zeroVec) (f : Rhs K n)
    (hf : ∀ j t y, f j t (vsmul c y) = vsmul c (f j t y)) (ob : Obs σ K n) (fuel : Nat) (s : R23State σ K n) :
    rk23Loop P f (sObs c ob) fuel (sS23 c s) = (rk23Loop P f ob fuel s).map (sResult c) := by
  have h := rk23Loop_scale c hc P f ob fuel s
  have hp : sP23 c P = P := by
    unfold sP23; rw [hP, vsmul_zeroVec, ← hP]
  rw [hp, sRhs_of_homogeneous c hc.ne' f hf] at h
  exact h

/-- RK4 (no error control): the continuation from the scaled state is the scaled continuation, for any `c ≠ 0` -/
theorem rk4_scaled_continuation {σ : Type} (c : K) (hc : c ≠ 0) (P : R4Params K) (f : Rhs K n)
    (hf : ∀ j t y, f j t (vsmul c y) = vsmul c (f j t y)) (ob : Obs σ K n) (fuel : Nat) (s : R4State σ K n) :
    rk4Loop P f (sObs c ob) fuel (sS4 c s) = (rk4Loop P f ob fuel s).map (sResult c) := by
  have h := rk4Loop_scale c hc P f ob fuel s
  rw [sRhs_of_homogeneous c hc f hf] at h
  exact h

end
end Ctl
