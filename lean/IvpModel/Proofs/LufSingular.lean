/-
  The converse direction of C16 for every size: a matrix the factorisation refuses is singular, an accepted one is
  injective, hence `decomp` accepts exactly the nonsingular matrices (`decomp_accept_iff_nonsingular`).
-/
import IvpModel.Proofs.LufLemmas

namespace LUF
open Finset
noncomputable section
variable {K : Type} [Field K] [LinearOrder K] [IsStrictOrderedRing K] [SqrtPow K]

/-- solution of the upper-triangular `k × k` block: for `i < k`, `Σ_{j=i}^{k-1} U i j · v j = c i` -/
theorem tri_solve (k : Nat) (U : Mx K) (c : Vc K) (hd : ∀ i, i < k → U i i ≠ 0) :
    ∃ v : Vc K, ∀ i, i < k → rowSum k i (U i) v = c i := by
  cases k with
  | zero => exact ⟨c, fun i hi => by omega⟩
  | succ k' =>
    have hinit : BackInv (k' + 1) (k' + 1) U c c :=
      ⟨fun i h1 h2 => by omega, fun i _ _ => by rw [rowSum_empty]; ring⟩
    have h1 := backGo_spec (k' + 1) U c k' c (by omega) (fun j _ h2 => hd j (by omega)) hinit
    have h0 := back_step (k' + 1) 0 U c _ (by omega) (hd 0 (by omega)) h1
    exact ⟨_, fun i hi => h0.1 i (by omega) hi⟩

theorem rowSum_zero_right (n lo : Nat) (r x : Nat → K) (h : ∀ j, lo ≤ j → j < n → x j = 0) : rowSum n lo r x = 0 := by
  unfold rowSum
  apply Finset.sum_eq_zero
  intro j hj
  rw [Finset.mem_Ico] at hj
  rw [h j hj.1 hj.2]; ring

/-- splitting a row sum at `k`: the part below `k` only sees the entries below `k` -/
theorem rowSum_split_at (n i k : Nat) (hik : i ≤ k) (hk : k ≤ n) (r x : Nat → K) :
    rowSum n i r x = rowSum k i r x + rowSum n k r x := by
  unfold rowSum
  rw [← Finset.sum_Ico_consecutive _ hik hk]

/-- a partially triangular system whose column `k` vanishes from the diagonal down has a non-trivial kernel vector -/
theorem kernel_exists (n k : Nat) (a : Mx K) (hk : k < n) (hd : ∀ i, i < k → a i i ≠ 0)
    (hz : ∀ i, k ≤ i → i < n → a i k = 0) :
    ∃ x : Vc K, x k = 1 ∧ Sys n k a (fun _ => 0) x := by
  obtain ⟨v, hv⟩ := tri_solve k a (fun i => -(a i k)) hd
  refine ⟨fun j => if j < k then v j else if j = k then 1 else 0, by simp, ?_⟩
  intro i hi
  set x : Vc K := fun j => if j < k then v j else if j = k then 1 else 0 with hx
  have htail : rowSum n (k + 1) (a i) x = 0 := by
    apply rowSum_zero_right
    intro j h1 _
    have e1 : ¬ j < k := by omega
    have e2 : j ≠ k := by omega
    simp [hx, e1, e2]
  have hxk : x k = 1 := by simp [hx]
  by_cases hik : i < k
  · have e : min i k = i := by omega
    rw [e, rowSum_split_at n i k (by omega) (by omega), rowSum_split n k hk, htail, hxk]
    have : rowSum k i (a i) x = rowSum k i (a i) v := by
      apply rowSum_congr_x
      intro j _ hj
      simp [hx, hj]
    rw [this, hv i hik]; ring
  · have e : min i k = k := by omega
    rw [e, rowSum_split n k hk, htail, hxk, hz i (by omega) hi]; ring

theorem fwdStep_zero (a : Mx K) (k m : Nat) : fwdStep a (fun _ => (0 : K)) k m = fun _ => 0 := by
  funext i
  unfold fwdStep
  simp

/-- **a refused matrix is singular**: if elimination stops with `singular` at or after step `k`, the partially triangular
    system `Sys n k a · ·` has a non-trivial solution of the homogeneous equation -/
theorem decompGo_singular (n : Nat) :
    ∀ cnt k (a : Mx K) (ip : Array Nat), k + cnt + 1 = n → (∀ i, i < k → a i i ≠ 0) →
      decompGo n k cnt a ip = .error .singular → ∃ x : Vc K, (∃ j, j < n ∧ x j ≠ 0) ∧ Sys n k a (fun _ => 0) x := by
  intro cnt
  induction cnt with
  | zero =>
    intro k a ip hkn hd h
    unfold decompGo at h
    have hk : k = n - 1 := by omega
    by_cases hz : Num.eqb (a (n - 1) (n - 1)) (Num.zero : K) = true
    · have h0 : a (n - 1) (n - 1) = 0 := by simpa [Num.eqb, Num.zero] using hz
      obtain ⟨x, hx1, hx2⟩ := kernel_exists n k a (by omega) hd (fun i h1 h2 => by
        have : i = n - 1 := by omega
        rw [this, hk]; exact h0)
      exact ⟨x, ⟨k, by omega, by rw [hx1]; exact one_ne_zero⟩, hx2⟩
    · simp [hz] at h
  | succ cnt ih =>
    intro k a ip hkn hd h
    have hk : k < n := by omega
    unfold decompGo at h
    obtain ⟨hm1, hm2, hmax⟩ := pivot_spec a n k hk
    set m := pivot a n k with hm
    by_cases hz : Num.eqb (a m k) (Num.zero : K) = true
    · have h0 : a m k = 0 := by simpa [Num.eqb, Num.zero] using hz
      obtain ⟨x, hx1, hx2⟩ := kernel_exists n k a hk hd (fun i h1 h2 => by
        have := hmax i h1 h2
        rw [h0, abs_zero] at this
        exact abs_eq_zero.mp (le_antisymm this (abs_nonneg _)))
      exact ⟨x, ⟨k, hk, by rw [hx1]; exact one_ne_zero⟩, hx2⟩
    · have hp : a m k ≠ 0 := by
        intro h0; apply hz; rw [h0]; simp [Num.eqb, Num.zero]
      simp only [hz] at h
      have hff := toFun_ofFun n (stepEntry a k m)
      have hd' : ∀ i, i < k + 1 → toFun n (ofFun n (stepEntry a k m)) i i ≠ 0 := by
        intro i hi
        rw [hff i i (by omega) (by omega)]
        rcases Nat.lt_or_ge i k with h1 | h1
        · rw [step_frozen a k m i i hm1 (Or.inl h1)]; exact hd i h1
        · have : i = k := by omega
          subst this
          unfold stepEntry; simp; exact hp
      obtain ⟨x, hx1, hx2⟩ := ih (k + 1) _ _ (by omega) hd' h
      refine ⟨x, hx1, ?_⟩
      rw [step_sys_iff a _ n k m hk hm1 hm2 hp x, fwdStep_zero]
      exact (Sys_congr n (k + 1) _ _ _ _ x hff (fun _ _ => rfl)).mp hx2

/-- the whole routine: a matrix refused as singular has a non-trivial kernel -/
theorem decomp_singular_spec (n : Nat) (hn : 2 ≤ n) (a0 : Array K) (h : decomp n n n a0 = .error .singular) :
    ∃ x : Vc K, (∃ j, j < n ∧ x j ≠ 0) ∧ ∀ i, i < n → matVec n (toFun n a0) x i = 0 := by
  unfold decomp at h
  have hn1 : n ≠ 1 := by omega
  simp only [ne_eq, not_true_eq_false, if_false, hn1] at h
  generalize hgo : decompGo n 0 (n - 1) (toFun n a0) (Array.replicate n 0) = r at h
  cases r with
  | ok p => simp at h
  | error e =>
    simp only [Except.error.injEq] at h
    subst h
    obtain ⟨x, hx1, hx2⟩ := decompGo_singular n (n - 1) 0 (toFun n a0) _ (by omega) (fun i hi => by omega) hgo
    refine ⟨x, hx1, fun i hi => ?_⟩
    have := hx2 i hi
    simpa [matVec] using this


/-- elimination fails only with `singular` -/
theorem decompGo_error_kind (n : Nat) : ∀ cnt k (a : Mx K) (ip : Array Nat) e, decompGo n k cnt a ip = .error e → e = .singular := by
  intro cnt
  induction cnt with
  | zero =>
    intro k a ip e h
    unfold decompGo at h
    split at h
    · injection h with h; exact h.symm
    · cases h
  | succ cnt ih =>
    intro k a ip e h
    unfold decompGo at h
    dsimp only at h
    split at h
    · injection h with h; exact h.symm
    · exact ih _ _ _ e h

/-- a square matrix with a pivot slice of the right length is either factorised or refused as singular -/
theorem decomp_total (n : Nat) (hn : 2 ≤ n) (a0 : Array K) :
    (∃ F ip, decomp n n n a0 = .ok (F, ip)) ∨ decomp n n n a0 = .error .singular := by
  unfold decomp
  have hn1 : n ≠ 1 := by omega
  simp only [ne_eq, not_true_eq_false, if_false, hn1]
  generalize hgo : decompGo n 0 (n - 1) (toFun n a0) (Array.replicate n 0) = r
  cases r with
  | ok p => exact Or.inl ⟨_, _, rfl⟩
  | error e => rw [decompGo_error_kind n _ _ _ _ e hgo]; exact Or.inr rfl


/-- an upper-triangular homogeneous system with a non-zero diagonal has only the trivial solution -/
theorem tri_unique (n : Nat) (U : Mx K) (hd : ∀ j, j < n → U j j ≠ 0) (x : Vc K)
    (h : ∀ i, i < n → rowSum n i (U i) x = 0) : ∀ j, j < n → x j = 0 := by
  have key : ∀ d j, j + d + 1 = n → x j = 0 := by
    intro d
    induction d using Nat.strong_induction_on with
    | _ d ih =>
      intro j hj
      have hjn : j < n := by omega
      have htail : rowSum n (j + 1) (U j) x = 0 := by
        apply rowSum_zero_right
        intro j' h1 h2
        exact ih (n - 1 - j') (by omega) j' (by omega)
      have := h j hjn
      rw [rowSum_split n j hjn, htail, add_zero] at this
      rcases mul_eq_zero.mp this with h0 | h0
      · exact absurd h0 (hd j hjn)
      · exact h0
  intro j hj
  exact key (n - 1 - j) j (by omega)

theorem fwdGo_zero (n : Nat) (f : Mx K) (ip : Array Nat) :
    ∀ cnt k (b : Vc K), k + cnt < n → (∀ j, k ≤ j → j < k + cnt → ip.getD j 0 < n) → EqOnV n b (fun _ => 0) →
      EqOnV n (fwdGo n f ip k cnt b) (fun _ => 0) := by
  intro cnt
  induction cnt with
  | zero => intro k b _ _ h; exact h
  | succ cnt ih =>
    intro k b hk hip h
    unfold fwdGo
    apply ih (k + 1) _ (by omega) (fun j h1 h2 => hip j (by omega) (by omega))
    intro i hi
    rw [vOf_vTo n _ i hi]
    have hm := hip k (le_refl _) (by omega)
    unfold fwdStep
    simp only [h i hi, h k (by omega), h _ hm]
    split <;> split <;> simp

/-- an accepted matrix is injective: `A·x = 0` forces `x = 0` (on the indices `< n`) -/
theorem decomp_accept_injective (n : Nat) (hn : 2 ≤ n) (a0 F : Array K) (ip : Array Nat)
    (h : decomp n n n a0 = .ok (F, ip)) (x : Vc K) (hx : ∀ i, i < n → matVec n (toFun n a0) x i = 0) :
    ∀ j, j < n → x j = 0 := by
  unfold decomp at h
  have hn1 : n ≠ 1 := by omega
  simp only [ne_eq, not_true_eq_false, if_false, hn1] at h
  generalize hgo : decompGo n 0 (n - 1) (toFun n a0) (Array.replicate n 0) = r at h
  cases r with
  | error e => simp at h
  | ok p =>
    obtain ⟨f, ip1⟩ := p
    obtain ⟨_, hB, ⟨_, _, hC3⟩, _, hD⟩ :=
      decompGo_spec n (n - 1) 0 (toFun n a0) (Array.replicate n 0) f ip1 (by omega) (by simp) hgo
    have hsys : Sys n 0 (toFun n a0) (fun _ => 0) x := by
      intro i hi
      have := hx i hi
      simpa [matVec] using this
    have h1 := (hD (fun _ => 0) x).mp hsys
    have hz := fwdGo_zero n f ip1 (n - 1) 0 (fun _ => (0 : K)) (by omega) (fun j a b => hC3 j a b) (fun _ _ => rfl)
    have h2 := (Sys_congr n (n - 1) f f _ (fun _ => 0) x (fun _ _ _ _ => rfl) hz).mp h1
    apply tri_unique n f (fun j hj => hB j (by omega) hj) x
    intro i hi
    have := h2 i hi
    have e : min i (n - 1) = i := by omega
    rw [e] at this
    exact this


/-- **accepted ⇔ nonsingular**, every size: the factorisation is accepted exactly when `A·x = 0` has only the trivial
    solution -/
theorem decomp_accept_iff_nonsingular (n : Nat) (hn : 2 ≤ n) (a0 : Array K) :
    (∃ F ip, decomp n n n a0 = .ok (F, ip)) ↔
      (∀ x : Vc K, (∀ i, i < n → matVec n (toFun n a0) x i = 0) → ∀ j, j < n → x j = 0) := by
  constructor
  · rintro ⟨F, ip, h⟩ x hx
    exact decomp_accept_injective n hn a0 F ip h x hx
  · intro hinj
    rcases decomp_total n hn a0 with h | h
    · exact h
    · obtain ⟨x, ⟨j, hj, hxj⟩, hker⟩ := decomp_singular_spec n hn a0 h
      exact absurd (hinj x hker j hj) hxj

end
end LUF
