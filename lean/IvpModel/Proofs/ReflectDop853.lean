import IvpModel.Proofs.ReflectDopri5
set_option linter.unusedSectionVars false
set_option linter.unusedSimpArgs false
set_option linter.unusedTactic false
set_option linter.unnecessarySeqFocus false
set_option linter.unusedVariables false

/-!
  C13, whole runs of DOP853 under time reflection: the translated regions of dop853.rs (twelve stages, the combination, the
  two-estimator error norm, the FSAL evaluation, the stiffness quotient, both dense-output passes with their three extra
  stages, the interpolant) obey the mirror laws of `Proofs/ReflectHairer.lean`.
-/
namespace Ctl
noncomputable section
variable {K : Type} [Field K] [LinearOrder K] [IsStrictOrderedRing K] [SqrtPow K] {n : Nat}

section regions
open Gen.Dop853

theorem d8l1_reflect (y k1 : Vector K n) (h : K) :
    stages_loop1 (y := y) (h := -h) (k1 := vneg k1) = stages_loop1 (y := y) (h := h) (k1 := k1) := by
  ext i hi; simp [stages_loop1, vneg]; try ring

theorem d8l2_reflect (y k1 k2 : Vector K n) (h : K) :
    stages_loop2 (y := y) (h := -h) (k1 := vneg k1) (k2 := vneg k2) = stages_loop2 (y := y) (h := h) (k1 := k1) (k2 := k2) := by
  ext i hi; simp [stages_loop2, vneg]; try ring

theorem d8l3_reflect (y k1 k3 : Vector K n) (h : K) :
    stages_loop3 (y := y) (h := -h) (k1 := vneg k1) (k3 := vneg k3) = stages_loop3 (y := y) (h := h) (k1 := k1) (k3 := k3) := by
  ext i hi; simp [stages_loop3, vneg]; try ring

theorem d8l4_reflect (y k1 k3 k4 : Vector K n) (h : K) :
    stages_loop4 (y := y) (h := -h) (k1 := vneg k1) (k3 := vneg k3) (k4 := vneg k4) = stages_loop4 (y := y) (h := h) (k1 := k1) (k3 := k3) (k4 := k4) := by
  ext i hi; simp [stages_loop4, vneg]; try ring

theorem d8l5_reflect (y k1 k4 k5 : Vector K n) (h : K) :
    stages_loop5 (y := y) (h := -h) (k1 := vneg k1) (k4 := vneg k4) (k5 := vneg k5) = stages_loop5 (y := y) (h := h) (k1 := k1) (k4 := k4) (k5 := k5) := by
  ext i hi; simp [stages_loop5, vneg]; try ring

theorem d8l6_reflect (y k1 k4 k5 k6 : Vector K n) (h : K) :
    stages_loop6 (y := y) (h := -h) (k1 := vneg k1) (k4 := vneg k4) (k5 := vneg k5) (k6 := vneg k6) = stages_loop6 (y := y) (h := h) (k1 := k1) (k4 := k4) (k5 := k5) (k6 := k6) := by
  ext i hi; simp [stages_loop6, vneg]; try ring

theorem d8l7_reflect (y k1 k4 k5 k6 k7 : Vector K n) (h : K) :
    stages_loop7 (y := y) (h := -h) (k1 := vneg k1) (k4 := vneg k4) (k5 := vneg k5) (k6 := vneg k6) (k7 := vneg k7) = stages_loop7 (y := y) (h := h) (k1 := k1) (k4 := k4) (k5 := k5) (k6 := k6) (k7 := k7) := by
  ext i hi; simp [stages_loop7, vneg]; try ring

theorem d8l8_reflect (y k1 k4 k5 k6 k7 k8 : Vector K n) (h : K) :
    stages_loop8 (y := y) (h := -h) (k1 := vneg k1) (k4 := vneg k4) (k5 := vneg k5) (k6 := vneg k6) (k7 := vneg k7) (k8 := vneg k8) = stages_loop8 (y := y) (h := h) (k1 := k1) (k4 := k4) (k5 := k5) (k6 := k6) (k7 := k7) (k8 := k8) := by
  ext i hi; simp [stages_loop8, vneg]; try ring

theorem d8l9_reflect (y k1 k4 k5 k6 k7 k8 k9 : Vector K n) (h : K) :
    stages_loop9 (y := y) (h := -h) (k1 := vneg k1) (k4 := vneg k4) (k5 := vneg k5) (k6 := vneg k6) (k7 := vneg k7) (k8 := vneg k8) (k9 := vneg k9) = stages_loop9 (y := y) (h := h) (k1 := k1) (k4 := k4) (k5 := k5) (k6 := k6) (k7 := k7) (k8 := k8) (k9 := k9) := by
  ext i hi; simp [stages_loop9, vneg]; try ring

theorem d8l10_reflect (y k1 k4 k5 k6 k7 k8 k9 k10 : Vector K n) (h : K) :
    stages_loop10 (y := y) (h := -h) (k1 := vneg k1) (k4 := vneg k4) (k5 := vneg k5) (k6 := vneg k6) (k7 := vneg k7) (k8 := vneg k8) (k9 := vneg k9) (k10 := vneg k10) = stages_loop10 (y := y) (h := h) (k1 := k1) (k4 := k4) (k5 := k5) (k6 := k6) (k7 := k7) (k8 := k8) (k9 := k9) (k10 := k10) := by
  ext i hi; simp [stages_loop10, vneg]; try ring

theorem d8l11_reflect (y k1 k4 k5 k6 k7 k8 k9 k10 k2 : Vector K n) (h : K) :
    stages_loop11 (y := y) (h := -h) (k1 := vneg k1) (k4 := vneg k4) (k5 := vneg k5) (k6 := vneg k6) (k7 := vneg k7) (k8 := vneg k8) (k9 := vneg k9) (k10 := vneg k10) (k2 := vneg k2) = stages_loop11 (y := y) (h := h) (k1 := k1) (k4 := k4) (k5 := k5) (k6 := k6) (k7 := k7) (k8 := k8) (k9 := k9) (k10 := k10) (k2 := k2) := by
  ext i hi; simp [stages_loop11, vneg]; try ring

theorem d8x1_reflect (y k1 k7 k8 k9 k10 k2 k3 k4 : Vector K n) (h : K) :
    extraStages_loop1 (y := y) (h := -h) (k1 := vneg k1) (k7 := vneg k7) (k8 := vneg k8) (k9 := vneg k9) (k10 := vneg k10) (k2 := vneg k2) (k3 := vneg k3) (k4 := vneg k4) = extraStages_loop1 (y := y) (h := h) (k1 := k1) (k7 := k7) (k8 := k8) (k9 := k9) (k10 := k10) (k2 := k2) (k3 := k3) (k4 := k4) := by
  ext i hi; simp [extraStages_loop1, vneg]; try ring

theorem d8x2_reflect (y k1 k6 k7 k8 k2 k3 k4 k10 : Vector K n) (h : K) :
    extraStages_loop2 (y := y) (h := -h) (k1 := vneg k1) (k6 := vneg k6) (k7 := vneg k7) (k8 := vneg k8) (k2 := vneg k2) (k3 := vneg k3) (k4 := vneg k4) (k10 := vneg k10) = extraStages_loop2 (y := y) (h := h) (k1 := k1) (k6 := k6) (k7 := k7) (k8 := k8) (k2 := k2) (k3 := k3) (k4 := k4) (k10 := k10) := by
  ext i hi; simp [extraStages_loop2, vneg]; try ring

theorem d8x3_reflect (y k1 k6 k7 k8 k9 k4 k10 k2 : Vector K n) (h : K) :
    extraStages_loop3 (y := y) (h := -h) (k1 := vneg k1) (k6 := vneg k6) (k7 := vneg k7) (k8 := vneg k8) (k9 := vneg k9) (k4 := vneg k4) (k10 := vneg k10) (k2 := vneg k2) = extraStages_loop3 (y := y) (h := h) (k1 := k1) (k6 := k6) (k7 := k7) (k8 := k8) (k9 := k9) (k4 := k4) (k10 := k10) (k2 := k2) := by
  ext i hi; simp [extraStages_loop3, vneg]; try ring

/-- mirror image of the stage data -/
def rStages8 (o : StagesOut K n) : StagesOut K n :=
  { y1 := o.y1, k2 := vneg o.k2, calls := o.calls.map mirror, k3 := vneg o.k3, k4 := vneg o.k4, k5 := vneg o.k5, k6 := vneg o.k6,
    k7 := vneg o.k7, k8 := vneg o.k8, k9 := vneg o.k9, k10 := vneg o.k10, xph := -o.xph }

theorem stages8_reflect_off (F : Rhs K n) (c : Nat) (y k1 : Vector K n) (x h : K) (last : Bool) (xend : K) :
    stages (f := fun j => rRhs F (c + j)) (y := y) (h := -h) (k1 := vneg k1) (x := -x) (last := last) (xend := -xend)
      = rStages8 (stages (f := fun j => F (c + j)) (y := y) (h := h) (k1 := k1) (x := x) (last := last) (xend := xend)) := by
  have t : ∀ C : K, -(-x + C * -h) = x + C * h := fun C => by ring
  have t5 : (if last = true then -xend else -x + -h) = -(if last = true then xend else x + h) := by
    cases last <;> simp; ring
  simp only [stages, rStages8, rRhs, d8l1_reflect, d8l2_reflect, d8l3_reflect, d8l4_reflect, d8l5_reflect, d8l6_reflect, d8l7_reflect,
    d8l8_reflect, d8l9_reflect, d8l10_reflect, d8l11_reflect, t, t5, neg_neg]
  simp [mirror]
  refine ⟨?_, ?_, ?_, ?_, ?_, ?_, ?_, ?_, ?_, ?_⟩ <;> ring

theorem combine8_reflect (k1 k6 k7 k8 k9 k10 k2 k3 y k4 : Vector K n) (h : K) :
    combine (k1 := vneg k1) (k6 := vneg k6) (k7 := vneg k7) (k8 := vneg k8) (k9 := vneg k9) (k10 := vneg k10) (k2 := vneg k2)
        (k3 := vneg k3) (y := y) (h := -h) (k4 := vneg k4)
      = { k4 := vneg (combine (k1 := k1) (k6 := k6) (k7 := k7) (k8 := k8) (k9 := k9) (k10 := k10) (k2 := k2) (k3 := k3) (y := y) (h := h) (k4 := k4)).k4,
          k5 := (combine (k1 := k1) (k6 := k6) (k7 := k7) (k8 := k8) (k9 := k9) (k10 := k10) (k2 := k2) (k3 := k3) (y := y) (h := h) (k4 := k4)).k5 } := by
  simp only [combine, combine_loop1]
  congr 1
  · ext i hi; simp [vneg]; ring
  · ext i hi; simp [vneg]; ring

theorem sq_div_neg (a s : K) : (-a / s) * (-a / s) = (a / s) * (a / s) := by ring

theorem errnorm8_reflect (atol rtol y k5 k4 k1 k9 k3 k6 k7 k8 k10 k2 : Vector K n) (h : K) :
    errnorm (atol := atol) (rtol := rtol) (y := y) (k5 := k5) (k4 := vneg k4) (k1 := vneg k1) (k9 := vneg k9) (k3 := vneg k3) (k6 := vneg k6)
        (k7 := vneg k7) (k8 := vneg k8) (k10 := vneg k10) (k2 := vneg k2) (h := -h)
      = errnorm (atol := atol) (rtol := rtol) (y := y) (k5 := k5) (k4 := k4) (k1 := k1) (k9 := k9) (k3 := k3) (k6 := k6)
        (k7 := k7) (k8 := k8) (k10 := k10) (k2 := k2) (h := h) := by
  have e1 : ∀ (a b c d B1 B2 B3 : K), -a - B1 * -b - B2 * -c - B3 * -d = -(a - B1 * b - B2 * c - B3 * d) := fun _ _ _ _ _ _ _ => by ring
  have e2 : ∀ (a b c d e f g i A B C D E F G I : K),
      A * -a + B * -b + C * -c + D * -d + E * -e + F * -f + G * -g + I * -i = -(A * a + B * b + C * c + D * d + E * e + F * f + G * g + I * i) :=
    fun _ _ _ _ _ _ _ _ _ _ _ _ _ _ _ _ => by ring
  simp only [errnorm, errnorm_loop1, vneg, Vector.getElem_ofFn, Fin.getElem_fin, e1, e2, sq_div_neg, num_abs, abs_neg]
  rfl

theorem dense18_reflect (y k5 k1 k4 k6 k7 k8 k9 k10 k2 k3 : Vector K n) (h : K) :
    let d := dense1 (y := y) (k5 := k5) (h := h) (k1 := k1) (k4 := k4) (k6 := k6) (k7 := k7) (k8 := k8) (k9 := k9) (k10 := k10) (k2 := k2) (k3 := k3)
    let d' := dense1 (y := y) (k5 := k5) (h := -h) (k1 := vneg k1) (k4 := vneg k4) (k6 := vneg k6) (k7 := vneg k7) (k8 := vneg k8)
      (k9 := vneg k9) (k10 := vneg k10) (k2 := vneg k2) (k3 := vneg k3)
    d'.cont0 = d.cont0 ∧ d'.cont1 = d.cont1 ∧ d'.cont2 = d.cont2 ∧ d'.cont3 = d.cont3 ∧ d'.cont4 = vneg d.cont4 ∧ d'.cont5 = vneg d.cont5
      ∧ d'.cont6 = vneg d.cont6 ∧ d'.cont7 = vneg d.cont7 := by
  intro d d'
  refine ⟨?_, ?_, ?_, ?_, ?_, ?_, ?_, ?_⟩ <;> (ext i hi; simp [d, d', dense1, dense1_loop1, vneg]; try ring)

theorem dense28_reflect (c4 k4 k10 k2 k3 c5 c6 c7 : Vector K n) (h : K) :
    dense2 (h := -h) (cont4 := vneg c4) (k4 := vneg k4) (k10 := vneg k10) (k2 := vneg k2) (k3 := vneg k3) (cont5 := vneg c5) (cont6 := vneg c6) (cont7 := vneg c7)
      = dense2 (h := h) (cont4 := c4) (k4 := k4) (k10 := k10) (k2 := k2) (k3 := k3) (cont5 := c5) (cont6 := c6) (cont7 := c7) := by
  have e : ∀ (a b c d e A B C D : K), -h * (-a + A * -b + B * -c + C * -d + D * -e) = h * (a + A * b + B * c + C * d + D * e) :=
    fun _ _ _ _ _ _ _ _ _ => by ring
  simp only [dense2, dense2_loop1, vneg, Vector.getElem_ofFn, Fin.getElem_fin, e]

theorem extra8_reflect (F : Rhs K n) (c : Nat) (y k1 k7 k8 k9 k10 k2 k3 k4 k6 : Vector K n) (x h : K) :
    let e := extraStages (f := fun j => F (c + j)) (y := y) (h := h) (k1 := k1) (k7 := k7) (k8 := k8) (k9 := k9) (k10 := k10) (k2 := k2) (k3 := k3) (k4 := k4) (x := x) (k6 := k6)
    let e' := extraStages (f := fun j => rRhs F (c + j)) (y := y) (h := -h) (k1 := vneg k1) (k7 := vneg k7) (k8 := vneg k8) (k9 := vneg k9)
      (k10 := vneg k10) (k2 := vneg k2) (k3 := vneg k3) (k4 := vneg k4) (x := -x) (k6 := vneg k6)
    e'.k10 = vneg e.k10 ∧ e'.k2 = vneg e.k2 ∧ e'.k3 = vneg e.k3 ∧ e'.calls = e.calls.map mirror := by
  intro e e'
  have t : ∀ C : K, -(-x + C * -h) = x + C * h := fun C => by ring
  simp only [e, e', extraStages, rRhs, d8x1_reflect, d8x2_reflect, d8x3_reflect, t, neg_neg]
  simp [mirror]
  refine ⟨?_, ?_, ?_⟩ <;> ring

theorem interp8_reflect (c4 c5 c6 c7 c0 c1 c2 c3 : Vector K n) (xold h xi : K) :
    interpolate (xi := -xi) (xold := -xold) (h := -h) (cont4 := c4) (cont5 := c5) (cont6 := c6) (cont7 := c7) (cont0 := c0) (cont1 := c1) (cont2 := c2) (cont3 := c3)
      = interpolate (xi := xi) (xold := xold) (h := h) (cont4 := c4) (cont5 := c5) (cont6 := c6) (cont7 := c7) (cont0 := c0) (cont1 := c1) (cont2 := c2) (cont3 := c3) := by
  have ht : (-xi - -xold) / -h = (xi - xold) / h := by
    rw [show -xi - -xold = -(xi - xold) by ring, neg_div_neg_eq]
  simp only [interpolate, ht]
end regions

def rD8S (S : D8S K n) : D8S K n :=
  { k1 := vneg S.k1, o := rStages8 S.o, c := { k4 := vneg S.c.k4, k5 := S.c.k5 } }
def rD8SA (a : D8SA K n) : D8SA K n := { s := rD8S a.s, k4 := vneg a.k4 }

/-- **DOP853's numeric kernel obeys the mirror laws.** -/
def dop853KRefl (atol rtol : Vec K n) : KRefl (dop853Kernel (α := K) atol rtol) where
  rS := rD8S
  rSA := rD8SA
  rC := id
  trial := by
    intro F c x h last xend y k1
    simp only [dop853Kernel, rD8S, stages8_reflect_off]
    simp only [rStages8, combine8_reflect]
  err := by
    intro s y h
    simp only [dop853Kernel, rD8S, rStages8, errnorm8_reflect]
  acceptA := by
    intro F c s x h y k1
    simp [dop853Kernel, rD8S, rD8SA, rStages8, Gen.Dop853.fsal, rRhs, mirror]
  hlamb := by
    intro a h y k1 old
    exact dop853_stiff_reflect a.k4 a.s.o.k3 a.s.c.k5 a.s.o.y1 h old
  acceptB := by
    intro F c d a x h y k1
    cases d
    · simp [dop853Kernel, rD8SA, rD8S]
    · obtain ⟨d0, d1, d2, d3, d4, d5, d6, d7⟩ := dense18_reflect y a.s.c.k5 k1 a.k4 a.s.o.k6 a.s.o.k7 a.s.o.k8 a.s.o.k9 a.s.o.k10 a.s.o.k2 a.s.o.k3 h
      obtain ⟨x1, x2, x3, x4⟩ := extra8_reflect F c y k1 a.s.o.k7 a.s.o.k8 a.s.o.k9 a.s.o.k10 a.s.o.k2 a.s.o.k3 a.k4 a.s.o.k6 x h
      simp only [dop853Kernel, rD8SA, rD8S, rStages8, if_true, d0, d1, d2, d3, d4, d5, d6, d7, x1, x2, x3, x4, dense28_reflect, id]
  interp := by
    intro c xold h t
    exact interp8_reflect _ _ _ _ _ _ _ _ xold h t

/-- **Whole runs of DOP853 under time reflection** (given or automatic first step, accepted and rejected trials, the FSAL
    evaluation, stiffness detection, dense output with its three extra stages, observer replies): the run of the mirrored
    problem is the mirror image of the run. -/
theorem dop853Solve_reflect {σ : Type} (L : HLits K) (xend posneg uround safety scaleMin scaleMax beta hmax : K) (nmax nstiff : Nat)
    (dense : Bool) (atol rtol : Vec K n) (f : Rhs K n) (ob : Obs σ K n) (obs0 : σ) (x0 : K) (y0 : Vec K n) (firstStep : Option K)
    (hmaxArg : K) (iord : Nat) (fo hl : K) (hp : posneg ≠ 0) (fuel : Nat) :
    hSolve (dop853Params L (-xend) (-posneg) uround safety scaleMin scaleMax beta hmax nmax nstiff dense) (dop853Kernel atol rtol)
        (rRhs f) (rObs ob) obs0 (-x0) y0 firstStep (hinitCall atol rtol (-x0) y0 (-posneg) hmaxArg iord) fo hl fuel
      = (hSolve (dop853Params L xend posneg uround safety scaleMin scaleMax beta hmax nmax nstiff dense) (dop853Kernel atol rtol)
        f ob obs0 x0 y0 firstStep (hinitCall atol rtol x0 y0 posneg hmaxArg iord) fo hl fuel).map rResult := by
  rw [← dop853Params_mirror]
  exact hSolve_reflect _ (dop853Params_refl L xend posneg uround safety scaleMin scaleMax beta hmax nmax nstiff dense) _
    (dop853KRefl atol rtol) f ob obs0 x0 y0 firstStep _ _ (hinitCall_refl atol rtol x0 y0 posneg hmaxArg iord hp) fo hl fuel

end
end Ctl
