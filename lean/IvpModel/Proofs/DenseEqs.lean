/-
  The translated dense-output code (`dense*` regions composed with `interpolate`) is the formula
  u(θ) = y + h Σ_i w_i(θ) K_i with the weights of `Model/DenseOrder.lean`, and it reproduces the
  stored states at both ends of the step.  Exact arithmetic, every n, every h ≠ 0 (either sign).
-/
import IvpModel.Proofs.StageEqs
import IvpModel.Model.DenseOrder

noncomputable section
variable {K : Type} [Field K] [LinearOrder K] [IsStrictOrderedRing K] [SqrtPow K]

def polyEval (p : List Int) (θ : K) : K := (p.zipIdx.map fun ck => (ck.1 : K) * θ ^ ck.2).sum

/-- `w_i(θ)` -/
def denseW (D : DenseSpec) (θ : K) (i : Nat) : K :=
  (List.zipWith (fun (row : List QQ) (p : List Int) => qval (row.getD i z) * polyEval p θ) D.W D.basis).sum

/-- `y + h Σ_{l<s} w_l(θ) K_l` -/
def denseVal {n : Nat} (D : DenseSpec) (s : Nat) (h θ : K) (y : Vector K n) (Kv : Nat → Vector K n) : Vector K n :=
  Vector.ofFn fun i => y[i] + h * ((List.range s).map fun l => denseW D θ l * (Kv l)[i]).sum

theorem theta_cancel (xold h θ : K) (hh : h ≠ 0) : (xold + θ * h - xold) / h = θ := by
  field_simp; ring

macro "dense_finish" : tactic =>
  `(tactic| all_goals ((try ext i hi) <;> (simp [List.range, List.range.loop, List.zipIdx, polyEval, denseW, QQ.sub, QQ.smul,
      unitRow, padRow, z, one_q, qval, num_lit, *]) <;> (try ring)))

theorem theta_one (xold h : K) (hh : h ≠ 0) : (xold + h - xold) / h = 1 := by
  field_simp; ring
theorem theta_zero (xold h : K) : (xold - xold) / h = 0 := by simp

/-- componentwise finish for the endpoint identities -/
macro "ends_finish" : tactic =>
  `(tactic| all_goals ((try (repeat' apply And.intro)) <;> (try ext i hi) <;> (try simp [num_lit, *]) <;> (try ring)))

section rk4
open Gen.Rk4
/-- Kv 0 = f(xold,yold) (left slope, kept in `k2`), Kv 1..3 = stages 2..4, Kv 4 = f(x+h, y_new) -/
theorem rk4_dense_weights {n : Nat} (y Ka Kb Kc Kd Ke : Vector K n) (xold h θ : K) (hh : h ≠ 0) (xph : K) :
    let ynew := (update (f := fun _ _ _ => Ke) (xph := xph) (h := h) (k1 := Ka) (k2 := Kb) (k3 := Kc) (k4 := Kd) (y := y)).y
    let d := dense (yt := y) (k2 := Ka) (k1 := Ke) (y := ynew)
    interpolate (xi := xold + θ * h) (xold := xold) (h := h) (cont0 := d.cont0) (cont1 := d.cont1) (cont2 := d.cont2) (cont3 := d.cont3)
      = denseVal rk4Dense 5 h θ y (fun l => if l = 0 then Ka else if l = 1 then Kb else if l = 2 then Kc else if l = 3 then Kd else Ke) := by
  simp only [interpolate, interpolate_loop1, dense, dense_loop1, update, update_loop1, denseVal, rk4Dense, rk4Tab, theta_cancel _ _ _ hh]
  dense_finish

theorem rk4_interp_left {n : Nat} (c0 c1 c2 c3 : Vector K n) (xold h : K) :
    interpolate (xi := xold) (xold := xold) (h := h) (cont0 := c0) (cont1 := c1) (cont2 := c2) (cont3 := c3) = c0 := by
  simp only [interpolate, interpolate_loop1, theta_zero]
  ends_finish

theorem rk4_interp_right {n : Nat} (c0 c1 c2 c3 : Vector K n) (xold h : K) (hh : h ≠ 0) :
    interpolate (xi := xold + h) (xold := xold) (h := h) (cont0 := c0) (cont1 := c1) (cont2 := c2) (cont3 := c3) = c3 := by
  simp only [interpolate, interpolate_loop1, theta_one _ _ hh]
  ends_finish

/-- the dense block stores the old state in block 0 and the new state in block 3 -/
theorem rk4_dense_ends {n : Nat} (yt k2 k1 y : Vector K n) :
    (dense (yt := yt) (k2 := k2) (k1 := k1) (y := y)).cont0 = yt ∧ (dense (yt := yt) (k2 := k2) (k1 := k1) (y := y)).cont3 = y := by
  simp [dense]
end rk4

section rk23
open Gen.Rk23
theorem rk23_dense_weights {n : Nat} (y Ka Kb Kc Kd : Vector K n) (xold h θ : K) (hh : h ≠ 0) :
    let d := dense (ye := y) (k1 := Ka) (k2 := Kb) (k3 := Kc) (k4 := Kd)
    interpolate (xi := xold + θ * h) (xold := xold) (h := h) (cont0 := d.cont0) (cont1 := d.cont1) (cont2 := d.cont2) (cont3 := d.cont3)
      = denseVal rk23Dense 4 h θ y (fun l => if l = 0 then Ka else if l = 1 then Kb else if l = 2 then Kc else Kd) := by
  simp only [interpolate, interpolate_loop1, dense, dense_loop1, denseVal, rk23Dense, rk23Tab, theta_cancel _ _ _ hh]
  dense_finish

theorem rk23_interp_left {n : Nat} (y Ka Kb Kc Kd : Vector K n) (xold h : K) :
    let d := dense (ye := y) (k1 := Ka) (k2 := Kb) (k3 := Kc) (k4 := Kd)
    interpolate (xi := xold) (xold := xold) (h := h) (cont0 := d.cont0) (cont1 := d.cont1) (cont2 := d.cont2) (cont3 := d.cont3) = y := by
  simp only [interpolate, interpolate_loop1, dense, theta_zero]
  ends_finish

/-- at the right end the interpolant equals the accepted state `yt` computed by the stage code -/
theorem rk23_interp_right {n : Nat} (y Ka Kb Kc Kd : Vector K n) (xold h : K) (hh : h ≠ 0) :
    let d := dense (ye := y) (k1 := Ka) (k2 := Kb) (k3 := Kc) (k4 := Kd)
    interpolate (xi := xold + h) (xold := xold) (h := h) (cont0 := d.cont0) (cont1 := d.cont1) (cont2 := d.cont2) (cont3 := d.cont3)
      = stages_loop3 (y := y) (h := h) (k1 := Ka) (k2 := Kb) (k3 := Kc) := by
  simp only [interpolate, interpolate_loop1, dense, dense_loop1, stages_loop3, theta_one _ _ hh]
  ends_finish
end rk23

section dopri5
open Gen.Dopri5
/-- Kv 0..5 = K1..K6, Kv 6 = K7 = f(x+h, y_new) (held in `k2`); y1 = accepted state -/
theorem dopri5_dense_weights {n : Nat} (y K1 K2 K3 K4 K5 K6 K7 : Vector K n) (xold h θ : K) (hh : h ≠ 0) :
    let y1 := stages_loop6 (y := y) (h := h) (k1 := K1) (k3 := K3) (k4 := K4) (k5 := K5) (k6 := K6)
    let d := dense (y1 := y1) (y := y) (h := h) (k1 := K1) (k2 := K7)
    let d4 := dense4 (h := h) (k1 := K1) (k3 := K3) (k4 := K4) (k5 := K5) (k6 := K6) (k2 := K7)
    interpolate (xi := xold + θ * h) (xold := xold) (h := h) (cont0 := d.cont0) (cont1 := d.cont1) (cont2 := d.cont2)
        (cont3 := d.cont3) (cont4 := d4.cont4)
      = denseVal dopri5Dense 7 h θ y (fun l => if l = 0 then K1 else if l = 1 then K2 else if l = 2 then K3
          else if l = 3 then K4 else if l = 4 then K5 else if l = 5 then K6 else K7) := by
  simp only [interpolate, interpolate_loop1, dense, dense_loop1, dense4, dense4_loop1, stages_loop6, denseVal, dopri5Dense,
    dopri5Tab, theta_cancel _ _ _ hh]
  dense_finish

theorem dopri5_interp_left {n : Nat} (c0 c1 c2 c3 c4 : Vector K n) (xold h : K) :
    interpolate (xi := xold) (xold := xold) (h := h) (cont0 := c0) (cont1 := c1) (cont2 := c2) (cont3 := c3) (cont4 := c4) = c0 := by
  simp only [interpolate, interpolate_loop1, theta_zero]
  ends_finish

theorem dopri5_interp_right {n : Nat} (y1 y k1 k2 c4 : Vector K n) (xold h : K) (hh : h ≠ 0) :
    let d := dense (y1 := y1) (y := y) (h := h) (k1 := k1) (k2 := k2)
    interpolate (xi := xold + h) (xold := xold) (h := h) (cont0 := d.cont0) (cont1 := d.cont1) (cont2 := d.cont2)
        (cont3 := d.cont3) (cont4 := c4) = y1 ∧ d.cont0 = y := by
  simp only [interpolate, interpolate_loop1, dense, dense_loop1, theta_one _ _ hh]
  ends_finish
end dopri5
end
