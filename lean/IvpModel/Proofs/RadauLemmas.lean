/-
  Facts about the control model of Radau (Model/RadauCtl.lean) that hold for every oracle, i.e. for every outcome of the
  factorisations, every sequence of Newton increments, every error estimate and every callback flag:
  evaluation accounting (C18), the failure counter and `SingularMatrix` (C14), landing on `xend` and `Success` only there
  (C03, exact arithmetic).
-/
import IvpModel.Model.RadauCtl
import IvpModel.Proofs.FieldNum

namespace RadauCtl

section any
variable {α : Type} [Num α]

/-- the evaluation count after the Newton loop accounts for three evaluations per iteration started -/
def OdeOK (ode newt : Nat) : Newton α → Prop
  | .done newt' _ _ _ _ _ _ _ _ ode' => ode' + 3 * newt = ode + 3 * newt' ∧ newt ≤ newt'
  | .failed newt' _ _ _ _ ode' => ode' + 3 * newt = ode + 3 * newt' ∧ newt ≤ newt'
  | .slow newt' _ _ _ _ _ _ _ ode' => ode' + 3 * newt = ode + 3 * newt' ∧ newt ≤ newt'
  | .starved => True

theorem OdeOK.step {ode newt : Nat} {r : Newton α} (h : OdeOK (ode + 3) (newt + 1) r) : OdeOK ode newt r := by
  cases r with
  | done a b c d e f g i j k => exact ⟨by have := h.1; omega, by have := h.2; omega⟩
  | failed a b c d e k => exact ⟨by have := h.1; omega, by have := h.2; omega⟩
  | slow a b c d e f g i k => exact ⟨by have := h.1; omega, by have := h.2; omega⟩
  | starved => trivial

/-- **C18 (Radau).**  Every Newton iteration that was started is counted with its three right-hand-side evaluations,
    whether the iteration converges, is abandoned as too slow, diverges or hits the iteration limit. -/
theorem newtonLoop_ode (L : Lits α) (P : Params α) : ∀ (fuel : Nat) (dynos : List α) (newt : Nat) (th tq dy fc h hh : α)
    (rej : Nat) (last : Bool) (ode : Nat), OdeOK ode newt (newtonLoop L P fuel dynos newt th tq dy fc h hh rej last ode) := by
  intro fuel
  induction fuel with
  | zero => intros; simp [newtonLoop, OdeOK]
  | succ fuel ih =>
    intro dynos newt th tq dy fc h hh rej last ode
    unfold newtonLoop
    split
    · exact ⟨rfl, Nat.le_refl _⟩
    · cases dynos with
      | nil => trivial
      | cons dyno rest =>
        dsimp only
        repeat' split
        all_goals first
          | exact OdeOK.step (ih _ _ _ _ _ _ _ _ _ _ _)
          | exact ⟨by omega, by omega⟩

theorem failure_cases (L : Lits α) (s : State α) (cnt : Counters) (d : Bool) :
    (∃ r, failure L s cnt d = .inr r ∧ r.status = .singularMatrix ∧ 5 ≤ s.singular ∧ r.x = s.x ∧ r.cnt = cnt)
    ∨ (∃ s', failure L s cnt d = .inl s' ∧ s'.singular = s.singular + 1 ∧ s'.last = false ∧ s'.reject = true ∧ s'.x = s.x ∧ s'.cnt = cnt
          ∧ s.singular < 5) := by
  unfold failure
  split
  · exact Or.inl ⟨_, rfl, rfl, by omega, rfl, rfl⟩
  · exact Or.inr ⟨_, rfl, rfl, rfl, rfl, rfl, rfl, by omega⟩

/-- what a pass can do to the failure counter and when it may report `SingularMatrix` -/
def SingOK (s : State α) : Sum (State α) (Result α) → Prop
  | .inl s' => s'.singular = 0 ∨ s'.singular = s.singular ∨ (s'.singular = s.singular + 1 ∧ s'.last = false)
  | .inr r => r.status = .singularMatrix → 5 ≤ s.singular

theorem SingOK_failure (L : Lits α) (s s0 : State α) (cnt : Counters) (d : Bool) (h : s.singular = s0.singular) :
    SingOK s0 (failure L s cnt d) := by
  rcases failure_cases L s cnt d with ⟨r, h1, h2, h3, _⟩ | ⟨s', h1, h2, h3, _⟩
  · rw [h1]; intro _; omega
  · rw [h1]; exact Or.inr (Or.inr ⟨by omega, h3⟩)

theorem SingOK_accepted (L : Lits α) (P : Params α) (s : State α) (o : PassOracle α) (h hhfac theta thqold dynold faccon err : α)
    (newt : Nat) (quot hnew : α) (cnt : Counters) (last : Bool) (xph : α) :
    SingOK s (accepted L P s o h hhfac theta thqold dynold faccon err newt quot hnew cnt last xph) := by
  unfold accepted
  dsimp only
  repeat' split
  all_goals first
    | (intro h; cases h)
    | exact Or.inl rfl

theorem SingOK_finishStep (L : Lits α) (P : Params α) (s : State α) (o : PassOracle α) (newt : Nat) (theta thqold dynold faccon h hhfac : α)
    (last : Bool) (cnt : Counters) (xph : α) :
    SingOK s (finishStep L P s o newt theta thqold dynold faccon h hhfac last cnt xph) := by
  unfold finishStep
  dsimp only
  repeat' split
  all_goals first
    | exact SingOK_accepted ..
    | exact Or.inr (Or.inl rfl)

theorem SingOK_decompose (L : Lits α) (s : State α) (o : PassOracle α) (r : Sum (State α) (Result α))
    (h : decompose L s o = .inl r) : SingOK s r := by
  unfold decompose at h
  dsimp only at h
  split at h
  · split at h
    · injection h with h; rw [← h]; exact SingOK_failure L s s _ _ rfl
    · split at h
      · injection h with h; rw [← h]; exact SingOK_failure L s s _ _ rfl
      · cases h
  · cases h

/-- **C14 (Radau).**  `SingularMatrix` is reported only by the sixth failure in a row: an accepted step resets the
    counter, a rejected step keeps it, each failure (singular factorisation, diverging or exhausted Newton iteration)
    adds one. -/
theorem pass_singular (L : Lits α) (P : Params α) (s : State α) (o : PassOracle α) : SingOK s (pass L P s o) := by
  unfold pass
  cases hd : decompose L s o with
  | inl r => exact SingOK_decompose L s o r hd
  | inr cnt =>
    dsimp only
    split
    · intro h; cases h
    · split
      · intro h; cases h
      · split
        · intro h; cases h
        · exact SingOK_failure L _ s _ _ rfl
        · exact Or.inr (Or.inl rfl)
        · exact SingOK_finishStep ..

/-- the landing flag leaves the Newton loop unchanged or cleared, never raised -/
def LastOK (last : Bool) : Newton α → Prop
  | .done _ _ _ _ _ _ _ _ last' _ => last' = true → last = true
  | _ => True

theorem newtonLoop_last (L : Lits α) (P : Params α) : ∀ (fuel : Nat) (dynos : List α) (newt : Nat) (th tq dy fc h hh : α)
    (rej : Nat) (last : Bool) (ode : Nat), LastOK last (newtonLoop L P fuel dynos newt th tq dy fc h hh rej last ode) := by
  intro fuel
  induction fuel with
  | zero => intros; simp [newtonLoop, LastOK]
  | succ fuel ih =>
    intro dynos newt th tq dy fc h hh rej last ode
    unfold newtonLoop
    split
    · trivial
    · cases dynos with
      | nil => trivial
      | cons dyno rest =>
        dsimp only
        repeat' split
        all_goals first
          | exact ih _ _ _ _ _ _ _ _ _ _ _
          | trivial
          | (intro h; exact h)
          | (intro h; cases h)


/-! ### evaluation accounting of a whole pass (C18) -/

def cntOf : Sum (State α) (Result α) → Counters
  | .inl s => s.cnt
  | .inr r => r.cnt

theorem accepted_ode (L : Lits α) (P : Params α) (s : State α) (o : PassOracle α) (h hhfac theta thqold dynold faccon err : α)
    (newt : Nat) (quot hnew : α) (cnt : Counters) (last : Bool) (xph : α) :
    let c := cntOf (accepted L P s o h hhfac theta thqold dynold faccon err newt quot hnew cnt last xph)
    (c.ode = cnt.ode + 1 ∨ c.ode = cnt.ode + 2) ∧ c.accepted = cnt.accepted + 1 ∧ c.total = cnt.total ∧ c.jac = cnt.jac ∧ c.lu = cnt.lu := by
  unfold accepted
  dsimp only
  repeat' split
  all_goals simp [cntOf]

/-- counters after the second half of a pass, relative to the counters `cnt` it started from -/
def FinOK (cnt : Counters) (r : Sum (State α) (Result α)) : Prop :=
  (∃ j, j ≤ 3 ∧ (cntOf r).ode = cnt.ode + j) ∧ (cntOf r).lu = cnt.lu + 1 ∧ (cntOf r).total = cnt.total ∧ (cntOf r).jac = cnt.jac

theorem finishStep_ode (L : Lits α) (P : Params α) (s : State α) (o : PassOracle α) (newt : Nat) (theta thqold dynold faccon h hhfac : α)
    (last : Bool) (cnt : Counters) (xph : α) :
    FinOK cnt (finishStep L P s o newt theta thqold dynold faccon h hhfac last cnt xph) := by
  have key : ∀ (err quot hnew : α) (cnt' : Counters), (cnt'.ode = cnt.ode ∨ cnt'.ode = cnt.ode + 1) → cnt'.lu = cnt.lu + 1 →
      cnt'.total = cnt.total → cnt'.jac = cnt.jac →
      FinOK cnt (accepted L P s o h hhfac theta thqold dynold faccon err newt quot hnew cnt' last xph) := by
    intro err quot hnew cnt' ho hl ht hj
    have ha := accepted_ode L P s o h hhfac theta thqold dynold faccon err newt quot hnew cnt' last xph
    dsimp only at ha
    obtain ⟨h1, _, h3, h4, h5⟩ := ha
    refine ⟨⟨(cntOf (accepted L P s o h hhfac theta thqold dynold faccon err newt quot hnew cnt' last xph)).ode - cnt.ode, ?_, ?_⟩,
      by omega, by omega, by omega⟩ <;> omega
  unfold finishStep
  dsimp only
  repeat' split
  all_goals first
    | exact key _ _ _ _ (Or.inl rfl) rfl rfl rfl
    | exact key _ _ _ _ (Or.inr rfl) rfl rfl rfl
    | exact ⟨⟨1, by omega, rfl⟩, rfl, rfl, rfl⟩
    | exact ⟨⟨0, by omega, rfl⟩, rfl, rfl, rfl⟩

theorem failure_cnt (L : Lits α) (s : State α) (cnt : Counters) (d : Bool) : cntOf (failure L s cnt d) = cnt := by
  unfold failure; split <;> rfl

theorem decompose_cnt (L : Lits α) (s : State α) (o : PassOracle α) :
    match decompose L s o with
    | .inl r => (cntOf r).ode = s.cnt.ode ∧ (cntOf r).total = s.cnt.total
    | .inr c => c.ode = s.cnt.ode ∧ c.total = s.cnt.total ∧ c.rejected = s.cnt.rejected := by
  unfold decompose
  dsimp only
  by_cases hcd : s.callDecomp = true
  · rw [if_pos hcd]
    by_cases h1 : o.dec = 1
    · rw [if_pos h1]; dsimp only; rw [failure_cnt]; split <;> exact ⟨rfl, rfl⟩
    · rw [if_neg h1]
      by_cases h2 : o.dec = 2
      · rw [if_pos h2]; dsimp only; rw [failure_cnt]; split <;> exact ⟨rfl, rfl⟩
      · rw [if_neg h2]; dsimp only; split <;> exact ⟨rfl, rfl, rfl⟩
  · rw [if_neg hcd]; dsimp only; split <;> exact ⟨rfl, rfl, rfl⟩

/-- **C18 (Radau).**  Over one pass the evaluation counter grows by three per Newton iteration started plus at most
    three single evaluations (refinement of the error estimate, the derivative at the new point, the re-evaluation after
    `ModifiedSolution`); the attempt counter grows by at most one. -/
theorem pass_ode (L : Lits α) (P : Params α) (s : State α) (o : PassOracle α) :
    ∃ k j, j ≤ 3 ∧ (cntOf (pass L P s o)).ode = s.cnt.ode + 3 * k + j ∧ (cntOf (pass L P s o)).total ≤ s.cnt.total + 1 := by
  unfold pass
  have hd := decompose_cnt L s o
  cases hdc : decompose L s o with
  | inl r =>
    rw [hdc] at hd
    dsimp only at hd ⊢
    exact ⟨0, 0, by omega, by simpa using hd.1, by omega⟩
  | inr cnt =>
    rw [hdc] at hd
    dsimp only at hd
    obtain ⟨h1, h2, h3⟩ := hd
    dsimp only
    split
    · exact ⟨0, 0, by omega, by simp [cntOf, h1], by simp [cntOf, h2]⟩
    · split
      · exact ⟨0, 0, by omega, by simp [cntOf, h1], by simp [cntOf, h2]⟩
      · have hN := newtonLoop_ode L P (P.maxNewton + 1) o.dynos 0 (Num.abs L.thet) s.thqold s.dynold
          (Num.pow (Num.fmax s.faccon P.uround) L.p8) s.h s.hhfac cnt.rejected s.last cnt.ode
        split
        · exact ⟨0, 0, by omega, by simp [cntOf, h1], by simp [cntOf, h2]⟩
        · rename_i heq
          rw [heq] at hN
          rw [failure_cnt]
          rename_i nn _ _ _ _ oo
          exact ⟨nn, 0, by omega, by have := hN.1; simp only [cntOf] at *; omega, by simp [h2]⟩
        · rename_i heq
          rw [heq] at hN
          rename_i nn _ _ _ _ _ _ _ oo
          exact ⟨nn, 0, by omega, by have := hN.1; simp only [cntOf] at *; omega, by simp [cntOf, h2]⟩
        · rename_i heq
          rw [heq] at hN
          rename_i nn th tq dy fc hh2 hf rj ls oo
          have hf := finishStep_ode L P s o nn th tq dy fc hh2 hf ls { total := cnt.total + 1, accepted := cnt.accepted, rejected := rj, ode := oo, jac := cnt.jac, lu := cnt.lu } (if s.last then P.xend else s.x + s.h)
          unfold FinOK at hf
          dsimp only at hf
          obtain ⟨⟨j, hj, hj2⟩, _, ht, _⟩ := hf
          exact ⟨nn, j, hj, by have := hN.1; omega, by omega⟩

/-! ### `Success` only at `xend`, in every arithmetic (the landing step ends at `xend` itself) -/

def SuccOK (P : Params α) : Sum (State α) (Result α) → Prop
  | .inl _ => True
  | .inr r => r.status = .success → r.x = P.xend

theorem SuccOK_failure (L : Lits α) (P : Params α) (s : State α) (cnt : Counters) (d : Bool) : SuccOK P (failure L s cnt d) := by
  unfold failure
  split
  · intro h; cases h
  · trivial

theorem SuccOK_accepted (L : Lits α) (P : Params α) (s : State α) (o : PassOracle α) (h hhfac theta thqold dynold faccon err : α)
    (newt : Nat) (quot hnew : α) (cnt : Counters) (last : Bool) (xph : α) (hl : last = true → xph = P.xend) :
    SuccOK P (accepted L P s o h hhfac theta thqold dynold faccon err newt quot hnew cnt last xph) := by
  unfold accepted
  dsimp only
  split
  · intro h; cases h
  · split
    · rename_i hlast
      intro _; exact hl hlast
    · repeat' split
      all_goals first
        | trivial
        | (intro h; cases h)

theorem SuccOK_finishStep (L : Lits α) (P : Params α) (s : State α) (o : PassOracle α) (newt : Nat) (theta thqold dynold faccon h hhfac : α)
    (last : Bool) (cnt : Counters) (xph : α) (hl : last = true → xph = P.xend) :
    SuccOK P (finishStep L P s o newt theta thqold dynold faccon h hhfac last cnt xph) := by
  unfold finishStep
  dsimp only
  repeat' split
  all_goals first
    | exact SuccOK_accepted _ _ _ _ _ _ _ _ _ _ _ _ _ _ _ _ _ hl
    | trivial
    | (intro h; cases h)

theorem SuccOK_decompose (L : Lits α) (P : Params α) (s : State α) (o : PassOracle α) (r : Sum (State α) (Result α))
    (h : decompose L s o = .inl r) : SuccOK P r := by
  unfold decompose at h
  dsimp only at h
  split at h
  · split at h
    · injection h with h; rw [← h]; exact SuccOK_failure ..
    · split at h
      · injection h with h; rw [← h]; exact SuccOK_failure ..
      · cases h
  · cases h

/-- one pass: whatever the factorisations, the Newton iteration, the error estimates and the callback answer, a pass that
    reports `Success` ends at `xend` itself — no arithmetic is used, so this holds at `Float` too -/
theorem pass_success_exact (L : Lits α) (P : Params α) (s : State α) (o : PassOracle α) : SuccOK P (pass L P s o) := by
  unfold pass
  cases hd : decompose L s o with
  | inl r => exact SuccOK_decompose L P s o r hd
  | inr cnt =>
    dsimp only
    split
    · intro h; cases h
    · split
      · intro h; cases h
      · have hN := newtonLoop_last L P (P.maxNewton + 1) o.dynos 0 (Num.abs L.thet) s.thqold s.dynold
          (Num.pow (Num.fmax s.faccon P.uround) L.p8) s.h s.hhfac cnt.rejected s.last cnt.ode
        split
        · intro h; cases h
        · exact SuccOK_failure ..
        · trivial
        · rename_i heq
          rw [heq] at hN
          exact SuccOK_finishStep _ _ _ _ _ _ _ _ _ _ _ _ _ _ (fun hl => by simp [hN hl])

/-- **C03 (Radau), every arithmetic.**  A run of the control model that reports `Success` ends at `xend` bit for bit. -/
theorem run_success_exact (L : Lits α) (P : Params α) : ∀ (os : List (PassOracle α)) (s : State α),
    ∀ r, run L P os s = some r → r.status = .success → r.x = P.xend := by
  intro os
  induction os with
  | nil => intro s r h; simp [run] at h
  | cons o os ih =>
    intro s r h hs
    unfold run at h
    have hp := pass_success_exact L P s o
    split at h
    · rename_i r' heq
      injection h with h
      rw [heq] at hp
      rw [← h]; exact hp (by rw [h]; exact hs)
    · rename_i s' heq
      exact ih s' r h hs

end any

noncomputable section
variable {K : Type} [Field K] [LinearOrder K] [IsStrictOrderedRing K] [SqrtPow K]

/-- the landing flag is raised only on a step that ends at `xend` -/
def LandInv (P : Params K) (s : State K) : Prop := s.last = true → s.x + s.h = P.xend

def LandOK (P : Params K) : Sum (State K) (Result K) → Prop
  | .inl s' => LandInv P s'
  | .inr r => r.status = .success → r.x = P.xend

theorem LandOK_failure (L : Lits K) (P : Params K) (s : State K) (cnt : Counters) (d : Bool) : LandOK P (failure L s cnt d) := by
  unfold failure
  split
  · intro h; cases h
  · intro h; cases h

theorem LandOK_accepted (L : Lits K) (P : Params K) (s : State K) (o : PassOracle K) (h hhfac theta thqold dynold faccon err : K)
    (newt : Nat) (quot hnew : K) (cnt : Counters) (last : Bool) (xph : K) (hl : last = true → xph = P.xend) :
    LandOK P (accepted L P s o h hhfac theta thqold dynold faccon err newt quot hnew cnt last xph) := by
  unfold accepted
  dsimp only
  split
  · intro h; cases h
  · split
    · rename_i hlast
      intro _; exact hl hlast
    · rename_i hlast
      have hf : last = false := by cases last <;> simp_all
      repeat' split
      all_goals first
        | (intro _; show xph + (P.xend - xph) = P.xend; ring)
        | (intro hh; simp [hf] at hh)

theorem LandOK_finishStep (L : Lits K) (P : Params K) (s : State K) (o : PassOracle K) (newt : Nat) (theta thqold dynold faccon h hhfac : K)
    (last : Bool) (cnt : Counters) (xph : K) (hl : last = true → xph = P.xend) :
    LandOK P (finishStep L P s o newt theta thqold dynold faccon h hhfac last cnt xph) := by
  unfold finishStep
  dsimp only
  repeat' split
  all_goals first
    | exact LandOK_accepted _ _ _ _ _ _ _ _ _ _ _ _ _ _ _ _ _ hl
    | (intro h; cases h)

theorem LandOK_decompose (L : Lits K) (P : Params K) (s : State K) (o : PassOracle K) (r : Sum (State K) (Result K))
    (h : decompose L s o = .inl r) : LandOK P r := by
  unfold decompose at h
  dsimp only at h
  split at h
  · split at h
    · injection h with h; rw [← h]; exact LandOK_failure ..
    · split at h
      · injection h with h; rw [← h]; exact LandOK_failure ..
      · cases h
  · cases h

/-- **C03 (Radau), one pass.**  If the landing flag is only ever raised on a step that ends at `xend`, it stays so, and a
    pass that reports `Success` ends at `xend` (exact arithmetic) — for every outcome of the factorisations, the
    Newton iteration, the error estimates and the callback. -/
theorem pass_land (L : Lits K) (P : Params K) (s : State K) (o : PassOracle K) (hinv : LandInv P s) : LandOK P (pass L P s o) := by
  unfold pass
  cases hd : decompose L s o with
  | inl r => exact LandOK_decompose L P s o r hd
  | inr cnt =>
    dsimp only
    split
    · intro h; cases h
    · split
      · intro h; cases h
      · have hN := newtonLoop_last L P (P.maxNewton + 1) o.dynos 0 (Num.abs L.thet) s.thqold s.dynold
          (Num.pow (Num.fmax s.faccon P.uround) L.p8) s.h s.hhfac cnt.rejected s.last cnt.ode
        split
        · intro h; cases h
        · exact LandOK_failure ..
        · intro h; cases h
        · rename_i heq
          rw [heq] at hN
          exact LandOK_finishStep _ _ _ _ _ _ _ _ _ _ _ _ _ _ (fun hl => by simp [hN hl])

/-- **C03 (Radau).**  Whatever the numeric kernel and the callback answer over a whole run, `Success` is reported only at `xend`. -/
theorem run_success_at_xend (L : Lits K) (P : Params K) : ∀ (os : List (PassOracle K)) (s : State K), LandInv P s →
    ∀ r, run L P os s = some r → r.status = .success → r.x = P.xend := by
  intro os
  induction os with
  | nil => intro s _ r h; simp [run] at h
  | cons o os ih =>
    intro s hinv r h hs
    unfold run at h
    have hp := pass_land L P s o hinv
    split at h
    · rename_i r' heq
      injection h with h
      rw [heq] at hp
      rw [← h]; exact hp (by rw [h]; exact hs)
    · rename_i s' heq
      rw [heq] at hp
      exact ih s' hp r h hs

/-- the initial state satisfies the landing invariant -/
theorem start_land (L : Lits K) (S : Setup K) (s : State K) (h : start L S = .inl s) : LandInv (params L S) s := by
  unfold start at h
  dsimp only at h
  split at h
  · cases h
  · injection h with h
    rw [← h]
    intro hl
    simp only [decide_eq_true_eq] at hl
    show S.x0 + (if _ then S.xend - S.x0 else _) = _
    rw [if_pos (by simpa using hl)]
    show S.x0 + (S.xend - S.x0) = S.xend
    ring
end
end RadauCtl
