import IvpModel.Proofs.BdfLemmas
import IvpModel.Proofs.SymLemmas
set_option linter.unusedSectionVars false
set_option linter.unusedVariables false
set_option linter.unusedSimpArgs false
set_option linter.unusedTactic false
set_option linter.unnecessarySeqFocus false

/-!
  C13 for BDF's control logic: for every answer of the numeric kernel (factorisation flag, Newton increment norms, the three
  error norms) and of the callback, the control decisions of the time-reflected run (mirrored x and xend, opposite direction,
  the same answers) are those of the run: same statuses, counters, orders and step magnitudes, mirrored step points.
-/
namespace BdfCtl
noncomputable section
variable {K : Type} [Field K] [LinearOrder K] [IsStrictOrderedRing K] [SqrtPow K]

def rP (P : Params K) : Params K := { P with xend := -P.xend, direction := -P.direction }
def rSt (s : State K) : State K := { s with x := -s.x, currentC := -s.currentC }
def rRes (r : Result K) : Result K := { r with x := -r.x, h := -r.h }
def rOut : Sum (State K) (Result K) → Sum (State K) (Result K)
  | .inl s => .inl (rSt s)
  | .inr r => .inr (rRes r)

theorem result_mir (P : Params K) (s : State K) (st : Status) (cnt : Counters) :
    result (rP P) (rSt s) st cnt = rRes (result P s st cnt) := by
  simp [result, rP, rSt, rRes]

theorem newton_mir (L : Lits K) (P : Params K) (fuel : Nat) (dys : List K) (iters : Nat) (prev : Option K) (ode : Nat) :
    newtonLoop L (rP P) fuel dys iters prev ode = newtonLoop L P fuel dys iters prev ode := by
  induction fuel generalizing dys iters prev ode with
  | zero => rfl
  | succ fuel ih =>
    unfold newtonLoop
    have e1 : (rP P).maxit = P.maxit := rfl
    have e2 : (rP P).newtonTol = P.newtonTol := rfl
    simp only [e1, e2, ih]

theorem retry_mir (s : State K) (factor : K) (cnt : Counters) (b : Bool) : retry (rSt s) factor cnt b = rSt (retry s factor cnt b) := rfl

theorem adapt_mir (L : Lits K) (s : State K) (o : PassOracle K) (safety e : K) : adapt L (rSt s) o safety e = rSt (adapt L s o safety e) := by
  unfold adapt
  have e1 : (rSt s).nEqual = s.nEqual := rfl
  have e2 : (rSt s).order = s.order := rfl
  simp only [e1, e2]
  by_cases h : s.nEqual ≥ s.order + 1
  · simp only [h, if_true]; rfl
  · simp only [h, if_false]

def lim1 (P : Params K) (s : State K) : State K := if s.h > P.hmax then { s with h := P.hmax, nEqual := 0, luCurrent := false } else s
def lim2 (L : Lits K) (P : Params K) (s1 : State K) : State K :=
  if s1.h < P.hmin ∧ P.hmin > L.zero then { s1 with h := P.hmin, nEqual := 0, luCurrent := false } else s1
def limTail (L : Lits K) (P : Params K) (s2 : State K) : Sum (State K × K × K) (Result K) :=
  let hSigned := P.direction * s2.h
  let xNew := s2.x + hSigned
  if P.direction * (s2.x + L.stretch * hSigned - P.xend) > L.zero then
    let stepToEnd := Num.abs (P.xend - s2.x)
    if Num.eqb stepToEnd L.zero then .inr (result P s2 .success s2.cnt)
    else
      let factor := stepToEnd / s2.h
      let s3 := { s2 with h := s2.h * factor, nEqual := 0, luCurrent := false }
      .inl (s3, P.direction * s3.h, P.xend)
  else .inl (s2, hSigned, xNew)

theorem limits_eq (L : Lits K) (P : Params K) (s : State K) :
    limits L P s = (if (lim1 P s).h < P.hmin ∧ P.hmin > L.zero ∧ (lim1 P s).retrying = true then .inr (result P (lim1 P s) .stepSizeTooSmall (lim1 P s).cnt)
      else limTail L P (lim2 L P (lim1 P s))) := rfl

def rLim : Sum (State K × K × K) (Result K) → Sum (State K × K × K) (Result K)
  | .inl (s', hs, xn) => .inl (rSt s', -hs, -xn)
  | .inr r => .inr (rRes r)

theorem lim1_mir (P : Params K) (s : State K) : lim1 (rP P) (rSt s) = rSt (lim1 P s) := by
  unfold lim1
  have e1 : (rSt s).h = s.h := rfl
  have e2 : (rP P).hmax = P.hmax := rfl
  rw [e1, e2]
  by_cases h : s.h > P.hmax
  · rw [if_pos h, if_pos h]; rfl
  · rw [if_neg h, if_neg h]

theorem lim2_mir (L : Lits K) (P : Params K) (s : State K) : lim2 L (rP P) (rSt s) = rSt (lim2 L P s) := by
  unfold lim2
  have e1 : (rSt s).h = s.h := rfl
  have e2 : (rP P).hmin = P.hmin := rfl
  rw [e1, e2]
  by_cases h : s.h < P.hmin ∧ P.hmin > L.zero
  · rw [if_pos h, if_pos h]; rfl
  · rw [if_neg h, if_neg h]

theorem limTail_mir (L : Lits K) (P : Params K) (s2 : State K) : limTail L (rP P) (rSt s2) = rLim (limTail L P s2) := by
  unfold limTail
  have g1 : (rSt s2).h = s2.h := rfl
  have g2 : (rSt s2).x = -s2.x := rfl
  have g3 : (rSt s2).cnt = s2.cnt := rfl
  have g4 : (rP P).direction = -P.direction := rfl
  have g5 : (rP P).xend = -P.xend := rfl
  simp only [g1, g2, g3, g4, g5]
  have hc : -P.direction * (-s2.x + L.stretch * (-P.direction * s2.h) - -P.xend) = P.direction * (s2.x + L.stretch * (P.direction * s2.h) - P.xend) := by ring
  have ha : Num.abs (-P.xend - -s2.x) = Num.abs (P.xend - s2.x) := by
    rw [show -P.xend - -s2.x = -(P.xend - s2.x) by ring, num_abs, num_abs, abs_neg]
  rw [hc, ha]
  by_cases hl : P.direction * (s2.x + L.stretch * (P.direction * s2.h) - P.xend) > L.zero
  · rw [if_pos hl, if_pos hl]
    by_cases hz : Num.eqb (Num.abs (P.xend - s2.x)) L.zero = true
    · rw [if_pos hz, if_pos hz]; simp only [rLim]; exact congrArg Sum.inr (result_mir P s2 _ _)
    · rw [if_neg hz, if_neg hz]
      simp only [rLim, rSt]
      congr 2
      simp only [Prod.mk.injEq]
      exact ⟨by ring, trivial⟩
  · rw [if_neg hl, if_neg hl]
    simp only [rLim]
    congr 2
    simp only [Prod.mk.injEq]
    exact ⟨by ring, by ring⟩

theorem limits_mir (L : Lits K) (P : Params K) (s : State K) : limits L (rP P) (rSt s) = rLim (limits L P s) := by
  rw [limits_eq, limits_eq, lim1_mir]
  have e1 : (rSt (lim1 P s)).h = (lim1 P s).h := rfl
  have e2 : (rP P).hmin = P.hmin := rfl
  have e3 : (rSt (lim1 P s)).retrying = (lim1 P s).retrying := rfl
  have e4 : (rSt (lim1 P s)).cnt = (lim1 P s).cnt := rfl
  rw [e1, e2, e3, e4]
  by_cases hsm : (lim1 P s).h < P.hmin ∧ P.hmin > L.zero ∧ (lim1 P s).retrying = true
  · rw [if_pos hsm, if_pos hsm]; simp only [rLim]; exact congrArg Sum.inr (result_mir P _ _ _)
  · rw [if_neg hsm, if_neg hsm, lim2_mir, limTail_mir]

theorem afterCallback_mir (s : State K) (fl : Flag) : afterCallback (rSt s) fl = rSt (afterCallback s fl) := by
  unfold afterCallback
  by_cases h : fl = .modified <;> simp [h, rSt]

theorem tail_mir (L : Lits K) (P : Params K) (s : State K) (o : PassOracle K) (safety : K) :
    tail L (rP P) (rSt s) o safety = rOut (tail L P s o safety) := by
  unfold tail
  have hc : (rP P).direction * ((rSt s).x - (rP P).xend) = P.direction * (s.x - P.xend) := by
    show -P.direction * (-s.x - -P.xend) = _; ring
  rw [hc]
  by_cases h : P.direction * (s.x - P.xend) ≥ L.zero
  · simp only [h, if_true, rOut]; exact congrArg Sum.inr (result_mir P s _ _)
  · simp only [h, if_false, rOut, adapt_mir]

theorem afterNewton_mir (L : Lits K) (P : Params K) (s : State K) (o : PassOracle K) (xNew : K) (iters : Nat) (cnt : Counters) :
    afterNewton L (rP P) (rSt s) o (-xNew) iters cnt = rOut (afterNewton L P s o xNew iters cnt) := by
  unfold afterNewton
  have e1 : (rP P).maxit = P.maxit := rfl
  have e2 : (rSt s).order = s.order := rfl
  have e3 : (rSt s).luCurrent = s.luCurrent := rfl
  simp only [e1, e2, e3]
  by_cases he : o.errorNorm > L.one
  · simp only [he, if_true, rOut, retry_mir]
  · simp only [he, if_false]
    by_cases hi : o.cb = .interrupt
    · simp only [hi, if_true, rOut]
      exact congrArg Sum.inr (result_mir P { s with x := xNew, nEqual := s.nEqual + 1, cnt := { cnt with accepted := cnt.accepted + 1 }, retrying := false } _ _)
    · simp only [hi, if_false]
      have := tail_mir L P (afterCallback { s with x := xNew, nEqual := s.nEqual + 1, cnt := { cnt with accepted := cnt.accepted + 1 }, retrying := false } o.cb) o
        (L.safety * (L.two * Num.ofNat P.maxit + L.one) / (L.two * Num.ofNat P.maxit + Num.ofNat (iters + 1)))
      rw [← afterCallback_mir] at this
      exact this

/-- the corrector and what follows it -/
def afterLU (L : Lits K) (P : Params K) (s : State K) (o : PassOracle K) (xNew : K) (cnt : Counters) : Sum (State K) (Result K) :=
  match newtonLoop L P (P.maxit + 1) o.dyNorms 0 none cnt.ode with
  | .starved => .inr (result P s .oracleExhausted cnt)
  | .failed ode => .inl (retry s L.half { cnt with ode := ode, jac := cnt.jac + 1 } false)
  | .converged iters ode => afterNewton L P s o xNew iters { cnt with ode := ode }

/-- a pass after the limits -/
def passBody (L : Lits K) (P : Params K) (s : State K) (hSigned xNew : K) (o : PassOracle K) : Sum (State K) (Result K) :=
  if Num.eqb (s.x + L.tenth * hSigned) s.x then .inr (result P s .stepSizeTooSmall s.cnt)
  else
    let cnt := { s.cnt with total := s.cnt.total + 1 }
    let c := hSigned / alpha L s.order
    let rebuild := (!s.luCurrent) || decide (Num.abs (c - s.currentC) / Num.fmax (Num.abs c) L.one > L.tenth)
    let cnt := if rebuild then { cnt with lu := cnt.lu + 1 } else cnt
    if rebuild && !o.luOk then .inl (retry s L.half cnt false)
    else afterLU L P (if rebuild then { s with luCurrent := true, currentC := c } else s) o xNew cnt

theorem pass_eq (L : Lits K) (P : Params K) (s : State K) (o : PassOracle K) :
    pass L P s o = (if s.cnt.total ≥ P.nmax then .inr (result P s .needLargerNMax s.cnt)
      else if s.h < L.minPositive then .inr (result P s .stepSizeTooSmall s.cnt)
      else match limits L P s with
        | .inr r => .inr r
        | .inl (s', hs, xn) => passBody L P s' hs xn o) := rfl

theorem afterLU_mir (L : Lits K) (P : Params K) (s : State K) (o : PassOracle K) (xNew : K) (cnt : Counters) :
    afterLU L (rP P) (rSt s) o (-xNew) cnt = rOut (afterLU L P s o xNew cnt) := by
  unfold afterLU
  have e : (rP P).maxit = P.maxit := rfl
  rw [newton_mir, e]
  generalize newtonLoop L P (P.maxit + 1) o.dyNorms 0 none cnt.ode = N
  cases N with
  | starved => simp only [rOut]; exact congrArg Sum.inr (result_mir P s _ _)
  | failed ode => simp only [rOut, retry_mir]
  | converged iters ode => exact afterNewton_mir L P s o xNew iters _

theorem passBody_mir (L : Lits K) (P : Params K) (s : State K) (hs xn : K) (o : PassOracle K) :
    passBody L (rP P) (rSt s) (-hs) (-xn) o = rOut (passBody L P s hs xn o) := by
  unfold passBody
  have f1 : (rSt s).x = -s.x := rfl
  have f2 : (rSt s).cnt = s.cnt := rfl
  have f3 : (rSt s).order = s.order := rfl
  have f4 : (rSt s).luCurrent = s.luCurrent := rfl
  have f5 : (rSt s).currentC = -s.currentC := rfl
  simp only [f1, f2, f3, f4, f5]
  have hst : Num.eqb (-s.x + L.tenth * -hs) (-s.x) = Num.eqb (s.x + L.tenth * hs) s.x := by
    apply Bool.eq_iff_iff.mpr
    rw [num_eqb, num_eqb]
    constructor <;> intro h <;> linarith
  rw [hst]
  by_cases hz : Num.eqb (s.x + L.tenth * hs) s.x = true
  · rw [if_pos hz, if_pos hz]; simp only [rOut]; exact congrArg Sum.inr (result_mir P s _ _)
  · rw [if_neg hz, if_neg hz]
    have hc : Num.abs (-hs / alpha L s.order - -s.currentC) / Num.fmax (Num.abs (-hs / alpha L s.order)) L.one
        = Num.abs (hs / alpha L s.order - s.currentC) / Num.fmax (Num.abs (hs / alpha L s.order)) L.one := by
      rw [show -hs / alpha L s.order - -s.currentC = -(hs / alpha L s.order - s.currentC) by ring, neg_div]
      simp only [num_abs, abs_neg]
    rw [hc]
    generalize ((!s.luCurrent) || decide (Num.abs (hs / alpha L s.order - s.currentC) / Num.fmax (Num.abs (hs / alpha L s.order)) L.one > L.tenth)) = rebuild
    cases rebuild with
    | true =>
      simp only [if_true, Bool.true_and]
      cases o.luOk with
      | false => simp only [Bool.not_false, if_true, rOut, retry_mir]
      | true =>
        simp only [Bool.not_true, Bool.false_eq_true, if_false]
        have := afterLU_mir L P { s with luCurrent := true, currentC := hs / alpha L s.order } o xn
          { total := s.cnt.total + 1, accepted := s.cnt.accepted, rejected := s.cnt.rejected, ode := s.cnt.ode, jac := s.cnt.jac, lu := s.cnt.lu + 1 }
        simp only [rSt, neg_div] at this ⊢
        exact this
    | false =>
      simp only [Bool.false_eq_true, if_false, Bool.false_and]
      exact afterLU_mir L P s o xn _

/-- **C13, one pass of BDF's control loop under time reflection**, for every answer of the numeric kernel. -/
theorem pass_mir (L : Lits K) (P : Params K) (s : State K) (o : PassOracle K) :
    pass L (rP P) (rSt s) o = rOut (pass L P s o) := by
  rw [pass_eq, pass_eq]
  have e1 : (rSt s).cnt = s.cnt := rfl
  have e2 : (rP P).nmax = P.nmax := rfl
  have e3 : (rSt s).h = s.h := rfl
  rw [e1, e2, e3]
  by_cases hb : s.cnt.total ≥ P.nmax
  · rw [if_pos hb, if_pos hb]; simp only [rOut]; exact congrArg Sum.inr (result_mir P s _ _)
  · rw [if_neg hb, if_neg hb]
    by_cases hm : s.h < L.minPositive
    · rw [if_pos hm, if_pos hm]; simp only [rOut]; exact congrArg Sum.inr (result_mir P s _ _)
    · rw [if_neg hm, if_neg hm, limits_mir]
      cases hq : limits L P s with
      | inr r => simp only [rLim, rOut]
      | inl t =>
        obtain ⟨s', hs, xn⟩ := t
        simp only [rLim]
        exact passBody_mir L P s' hs xn o

/-- **C13, whole runs of BDF's control model under time reflection.** -/
theorem run_mir (L : Lits K) (P : Params K) : ∀ (os : List (PassOracle K)) (s : State K),
    run L (rP P) os (rSt s) = (run L P os s).map rRes := by
  intro os
  induction os with
  | nil => intro s; rfl
  | cons o os ih =>
    intro s
    unfold run
    rw [pass_mir]
    cases hq : pass L P s o with
    | inr r => rfl
    | inl s' => exact ih s'


def rSetup (S : Setup K) : Setup K := { S with x0 := -S.x0, xend := -S.xend }

theorem params_mir (S : Setup K) (hne : S.xend ≠ S.x0) : params (rSetup S) = rP (params S) := by
  unfold params rSetup rP
  have hs : Num.signum (-S.xend - -S.x0) = -Num.signum (S.xend - S.x0) := by
    rw [show -S.xend - -S.x0 = -(S.xend - S.x0) by ring]
    exact signum_neg _ (sub_ne_zero.mpr hne)
  have ha : Num.abs (-S.xend - -S.x0) = Num.abs (S.xend - S.x0) := by
    rw [show -S.xend - -S.x0 = -(S.xend - S.x0) by ring, num_abs, num_abs, abs_neg]
  simp only [hs, ha]

theorem start_mir (L : Lits K) (hz : L.zero = 0) (S : Setup K) (hne : S.xend ≠ S.x0) :
    start L (rSetup S) = rOut (start L S) := by
  unfold start
  rw [params_mir S hne]
  have e1 : (rSetup S).hAbs0 = S.hAbs0 := rfl
  have e2 : (rP (params S)).hmax = (params S).hmax := rfl
  have e3 : (rSetup S).ode0 = S.ode0 := rfl
  have e4 : (rSetup S).x0 = -S.x0 := rfl
  have e5 : (rSetup S).cb0 = S.cb0 := rfl
  simp only [e1, e2, e3, e4, e5]
  cases S.cb0 with
  | interrupt =>
    simp only [rOut]
    have := result_mir (params S) { x := S.x0, h := Num.fmin S.hAbs0 (Num.fmax (params S).hmax L.minPositive), currentC := L.zero, cnt := { ode := S.ode0, jac := 1 } } Status.userInterrupt { ode := S.ode0, jac := 1 }
    simp only [rSt, hz, neg_zero] at this
    simp only [hz]
    exact congrArg Sum.inr this
  | modified => simp [rOut, rSt, hz]
  | cont => simp [rOut, rSt, hz]

/-- **C13, BDF's control model from the start under time reflection**: for every list of answers of the numeric kernel and the
    callback, the run over the mirrored span ends with the same status and counters at the mirrored point. -/
theorem solve_mir (L : Lits K) (hz : L.zero = 0) (S : Setup K) (hne : S.xend ≠ S.x0) (os : List (PassOracle K)) :
    (match start L (rSetup S) with
     | .inr q => some q
     | .inl t => run L (params (rSetup S)) os t)
    = (match start L S with
       | .inr r => some r
       | .inl s => run L (params S) os s).map rRes := by
  rw [start_mir L hz S hne, params_mir S hne]
  cases hq : start L S with
  | inr r => rfl
  | inl s => exact run_mir L (params S) os s

end
end BdfCtl
