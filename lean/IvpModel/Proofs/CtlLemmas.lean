/-
  Bookkeeping invariants of the control skeletons, proved once for the `Meter` helpers and then lifted through the
  phases of each loop.  No arithmetic on floating-point data is involved: these hold for every `Num` instance,
  in particular for the `Float` instance that is co-simulated with the Rust code.
-/
import IvpModel.Model.Kernels
import IvpModel.Model.RkLoops
import Mathlib.Tactic.SplitIfs

namespace Ctl
variable {α : Type} [Num α] {n : Nat}

def isOde : Ev α n → Bool
  | .ode .. => true
  | _ => false

/-- number of right-hand-side calls in the log -/
def nOde (log : Array (Ev α n)) : Nat := (log.toList.filter isOde).length
/-- number of callbacks in the log -/
def nCb (log : Array (Ev α n)) : Nat := (log.toList.filter (fun e => !isOde e)).length

/-- the `(xold, x)` pairs of the callbacks, in order -/
def cbPairs (log : List (Ev α n)) : List (α × α) :=
  log.filterMap fun e => match e with
    | .cb xo x _ _ => some (xo, x)
    | _ => none

theorem logCalls_toList (log : Array (Ev α n)) (base : Nat) (calls : Array (α × Vec α n)) :
    ∃ l : List (Ev α n), (logCalls log base calls).toList = log.toList ++ l ∧ l.length = calls.size ∧ ∀ e ∈ l, isOde e = true := by
  unfold logCalls
  rw [← Array.foldl_toList]
  have key : ∀ (xs : List ((α × Vec α n) × Nat)) (acc : Array (Ev α n)),
      ∃ l : List (Ev α n), (xs.foldl (fun l p => l.push (Ev.ode (base + p.2) p.1.1 p.1.2)) acc).toList = acc.toList ++ l
        ∧ l.length = xs.length ∧ ∀ e ∈ l, isOde e = true := by
    intro xs
    induction xs with
    | nil => intro acc; exact ⟨[], by simp, rfl, by simp⟩
    | cons a xs ih =>
      intro acc
      obtain ⟨l, h1, h2, h3⟩ := ih (acc.push (Ev.ode (base + a.2) a.1.1 a.1.2))
      refine ⟨Ev.ode (base + a.2) a.1.1 a.1.2 :: l, ?_, by simp [h2], ?_⟩
      · rw [List.foldl_cons, h1]; simp
      · intro e he
        rcases List.mem_cons.mp he with rfl | he
        · rfl
        · exact h3 e he
  obtain ⟨l, h1, h2, h3⟩ := key calls.zipIdx.toList log
  exact ⟨l, h1, by simpa using h2, h3⟩

theorem nOde_logCalls (log : Array (Ev α n)) (base : Nat) (calls : Array (α × Vec α n)) :
    nOde (logCalls log base calls) = nOde log + calls.size := by
  obtain ⟨l, h1, h2, h3⟩ := logCalls_toList log base calls
  unfold nOde
  rw [h1, List.filter_append, List.length_append, List.filter_eq_self.mpr h3, h2]

theorem nCb_logCalls (log : Array (Ev α n)) (base : Nat) (calls : Array (α × Vec α n)) :
    nCb (logCalls log base calls) = nCb log := by
  obtain ⟨l, h1, _, h3⟩ := logCalls_toList log base calls
  unfold nCb
  rw [h1, List.filter_append, List.length_append]
  have : l.filter (fun e => !isOde e) = [] := by
    rw [List.filter_eq_nil_iff]; intro e he; simp [h3 e he]
  rw [this]; simp

theorem cbPairs_logCalls (log : Array (Ev α n)) (base : Nat) (calls : Array (α × Vec α n)) :
    cbPairs (logCalls log base calls).toList = cbPairs log.toList := by
  obtain ⟨l, h1, _, h3⟩ := logCalls_toList log base calls
  unfold cbPairs
  rw [h1, List.filterMap_append]
  have : l.filterMap (fun e => match e with | Ev.cb xo x _ _ => some (xo, x) | _ => none) = [] := by
    rw [List.filterMap_eq_nil_iff]
    intro e he
    have := h3 e he
    cases e <;> simp_all [isOde]
  rw [this, List.append_nil]

/-! ### C18: the code's counter is the number of calls made -/

/-- `evals.ode` = calls made = call entries in the log -/
def Meter.Counted (m : Meter α n) : Prop := m.cnt.ode = m.ncalls ∧ nOde m.log = m.ncalls

theorem Meter.counted_init : (({} : Meter α n)).Counted := by
  unfold Meter.Counted nOde; exact ⟨rfl, rfl⟩

theorem Meter.counted_bump {m : Meter α n} (h : m.Counted) (calls : Array (α × Vec α n)) (lit : Nat)
    (hl : calls.size = lit) : (m.bump calls lit).Counted := by
  obtain ⟨h1, h2⟩ := h
  refine ⟨?_, ?_⟩
  · show m.cnt.ode + lit = m.ncalls + calls.size
    omega
  · show nOde (logCalls m.log m.ncalls calls) = m.ncalls + calls.size
    rw [nOde_logCalls, h2]

theorem Meter.counted_incTotal {m : Meter α n} (h : m.Counted) : m.incTotal.Counted := h
theorem Meter.counted_incAccepted {m : Meter α n} (h : m.Counted) : m.incAccepted.Counted := h
theorem Meter.counted_decAccepted {m : Meter α n} (h : m.Counted) : m.decAccepted.Counted := h
theorem Meter.counted_incRejected {m : Meter α n} (h : m.Counted) : m.incRejected.Counted := h

theorem Meter.counted_cb {m : Meter α n} (h : m.Counted) (xo x : α) (y : Vec α n) (smp : Array (Vec α n)) :
    (m.cb xo x y smp).Counted := by
  obtain ⟨h1, h2⟩ := h
  refine ⟨h1, ?_⟩
  show nOde (m.log.push (Ev.cb xo x y smp)) = m.ncalls
  unfold nOde at h2 ⊢
  simp [List.filter_append, isOde, h2]

theorem Meter.counted_refresh {m : Meter α n} (h : m.Counted) (x : α) (y : Vec α n) : (m.refresh x y).Counted := by
  obtain ⟨h1, h2⟩ := h
  refine ⟨?_, ?_⟩
  · show m.cnt.ode + 1 = m.ncalls + 1
    omega
  · show nOde (m.log.push (Ev.ode m.ncalls x y)) = m.ncalls + 1
    unfold nOde at h2 ⊢
    simp [List.filter_append, h2]
    rfl

/-- after a callback: if the run goes on, the meter is still counted -/
theorem afterCb_counted {σ : Type} (f : Rhs α n) (ob : Obs σ α n) (obs : σ) (m : Meter α n) (xo x : α) (y : Vec α n)
    (ip : Option (α → Vec α n)) (k : Vec α n) (hm : m.Counted) :
    ∀ obs' y' k' m', afterCb f ob obs m xo x y ip k = .go obs' y' k' m' → m'.Counted := by
  intro obs' y' k' m' h
  unfold afterCb at h
  dsimp only at h
  split at h
  · cases h
  · injection h with _ _ _ h4; rw [← h4]; exact Meter.counted_refresh hm _ _
  · injection h with _ _ _ h4; rw [← h4]; exact hm

end Ctl

namespace Ctl
variable {α : Type} [Num α] {n : Nat}

/-! ### the Hairer skeleton (DOPRI5, DOP853) -/

/-- kernel contract: each literal added to `evals.ode` equals the number of calls the region makes -/
structure KOK (Kn : HKernel α n) : Prop where
  trial : ∀ f x h l e y k1, (Kn.trial f x h l e y k1).2.1.size = (Kn.trial f x h l e y k1).2.2
  acceptA : ∀ f S x h y k1, (Kn.acceptA f S x h y k1).2.1.size = (Kn.acceptA f S x h y k1).2.2
  acceptB : ∀ f d S x h y k1, (Kn.acceptB f d S x h y k1).2.2.2.1.size = (Kn.acceptB f d S x h y k1).2.2.2.2

def Result.Counted {σ : Type} (r : Result σ α n) : Prop := r.m.Counted

theorem hTrial_counted {σ : Type} (P : HParams α n) (Kn : HKernel α n) (hk : KOK Kn) (f : Rhs α n) (s : HState σ α n) (h : α)
    (l : Bool) (hs : s.m.Counted) : (hTrial P Kn f s h l).m.Counted := by
  unfold hTrial
  exact Meter.counted_bump (Meter.counted_incTotal hs) _ _ (hk.trial ..)

theorem hRejected_counted {σ : Type} (P : HParams α n) (s : HState σ α n) (h : α) (m : Meter α n) (fac11 : α)
    (hm : m.Counted) : (hRejected P s h m fac11).m.Counted := by
  unfold hRejected
  dsimp only
  split
  · exact Meter.counted_incRejected hm
  · exact hm

/-- outcome of a loop pass, as a predicate on whichever side is returned -/
def Both {A B : Type} (P : A → Prop) (Q : B → Prop) : Sum A B → Prop
  | .inl a => P a
  | .inr b => Q b

theorem hFinish_counted {σ : Type} (P : HParams α n) (Kn : HKernel α n) (hk : KOK Kn) (f : Rhs α n) (ob : Obs σ α n)
    (s : HState σ α n) (h : α) (last : Bool) (hnew facold hlamb : α) (ns ia : Nat) (sa : Kn.SA) (m : Meter α n)
    (hm : m.Counted) :
    Both (fun s' : HState σ α n => s'.m.Counted) (fun r : Result σ α n => r.m.Counted)
      (hFinish P Kn f ob s h last hnew facold hlamb ns ia sa m) := by
  unfold hFinish
  dsimp only
  have hC := Meter.counted_cb (Meter.counted_bump hm _ _ (hk.acceptB (fun j => f (m.ncalls + j)) P.dense sa s.x h s.y s.k1))
    s.x (landX last P.xend s.x h) (Kn.acceptB (fun j => f (m.ncalls + j)) P.dense sa s.x h s.y s.k1).1
    (sampleInterp (if P.dense then some (Kn.interp (Kn.acceptB (fun j => f (m.ncalls + j)) P.dense sa s.x h s.y s.k1).2.2.1 s.x h)
      else none) s.x (landX last P.xend s.x h) P.quarter P.half P.threeq)
  split
  · exact hC
  · rename_i obs' y' k' m' heq
    have := afterCb_counted f ob _ _ _ _ _ _ _ hC obs' y' k' m' heq
    split <;> exact this

theorem hAccepted_counted {σ : Type} (P : HParams α n) (Kn : HKernel α n) (hk : KOK Kn) (f : Rhs α n) (ob : Obs σ α n)
    (s : HState σ α n) (h : α) (last : Bool) (T : HTrial α n Kn.S) (hT : T.m.Counted) :
    Both (fun s' : HState σ α n => s'.m.Counted) (fun r : Result σ α n => r.m.Counted) (hAccepted P Kn f ob s h last T) := by
  unfold hAccepted
  dsimp only
  have hA := Meter.counted_bump (Meter.counted_incAccepted hT) _ _
    (hk.acceptA (fun j => f (T.m.incAccepted.ncalls + j)) T.S s.x h s.y s.k1)
  by_cases hst : (hStiffTest P Kn s h (Kn.acceptA (fun j => f (T.m.incAccepted.ncalls + j)) T.S s.x h s.y s.k1).1
      (T.m.incAccepted.bump (Kn.acceptA (fun j => f (T.m.incAccepted.ncalls + j)) T.S s.x h s.y s.k1).2.1
        (Kn.acceptA (fun j => f (T.m.incAccepted.ncalls + j)) T.S s.x h s.y s.k1).2.2).cnt.accepted).2.2.2 = true
  · rw [if_pos hst]; exact hA
  · rw [if_neg hst]; exact hFinish_counted P Kn hk f ob s h last _ _ _ _ _ _ _ hA

theorem hIter_counted {σ : Type} (P : HParams α n) (Kn : HKernel α n) (hk : KOK Kn) (f : Rhs α n) (ob : Obs σ α n)
    (s : HState σ α n) (hs : s.m.Counted) :
    Both (fun s' : HState σ α n => s'.m.Counted) (fun r : Result σ α n => r.m.Counted) (hIter P Kn f ob s) := by
  unfold hIter
  split
  · exact hs
  · dsimp only
    split
    · exact hAccepted_counted P Kn hk f ob s _ _ _ (hTrial_counted P Kn hk f s _ _ hs)
    · exact hRejected_counted P s _ _ _ (hTrial_counted P Kn hk f s _ _ hs)

theorem hLoop_counted {σ : Type} (P : HParams α n) (Kn : HKernel α n) (hk : KOK Kn) (f : Rhs α n) (ob : Obs σ α n) :
    ∀ (fuel : Nat) (s : HState σ α n), s.m.Counted → ∀ r, hLoop P Kn f ob fuel s = some r → r.m.Counted := by
  intro fuel
  induction fuel with
  | zero => intro s _ r h; simp [hLoop] at h
  | succ fuel ih =>
    intro s hs r h
    unfold hLoop at h
    have hi := hIter_counted P Kn hk f ob s hs
    split at h
    · rename_i r' heq
      rw [heq] at hi
      injection h with h; rw [← h]; exact hi
    · rename_i s' heq
      rw [heq] at hi
      exact ih s' hi r h

/-- the initial meter is counted provided the `hinit` probe makes exactly the one call the code adds to `evals.ode` -/
theorem startMeter_counted (f : Rhs α n) (x0 : α) (y0 : Vec α n) (posneg hcap : α) (firstStep : Option α)
    (hinit : Rhs α n → Vec α n → α × Array (α × Vec α n)) (hh : ∀ f' k, (hinit f' k).2.size = 1) :
    (startMeter f x0 y0 posneg hcap firstStep hinit).2.2.Counted := by
  unfold startMeter
  have h0 : (({} : Meter α n).bump #[(x0, y0)] 1).Counted := Meter.counted_bump Meter.counted_init _ _ rfl
  cases firstStep with
  | some h0' => exact h0
  | none => exact Meter.counted_bump h0 _ _ (hh _ _)

/-- **C18 (DOPRI5, DOP853).**  For every right-hand side, every observer (any flags at any step) and every fuel: when
    the run returns, `evals.ode` equals the number of right-hand-side calls actually made, which is the number of
    call entries in the event log. -/
theorem hSolve_counted {σ : Type} (P : HParams α n) (Kn : HKernel α n) (hk : KOK Kn) (f : Rhs α n) (ob : Obs σ α n) (obs0 : σ)
    (x0 : α) (y0 : Vec α n) (firstStep : Option α) (hinit : Rhs α n → Vec α n → α × Array (α × Vec α n))
    (hh : ∀ f' k, (hinit f' k).2.size = 1) (fo hl : α) (fuel : Nat) (r : Result σ α n)
    (h : hSolve P Kn f ob obs0 x0 y0 firstStep hinit fo hl fuel = some r) :
    r.m.cnt.ode = r.m.ncalls ∧ nOde r.m.log = r.m.ncalls := by
  unfold hSolve at h
  have hm := Meter.counted_cb (startMeter_counted f x0 y0 P.posneg P.hmax firstStep hinit hh) x0 x0 y0 #[]
  unfold hStart at h
  dsimp only at h
  split at h
  · rename_i r' heq
    split at heq
    · injection heq with heq; injection h with h; rw [← h, ← heq]; exact hm
    · cases heq
  · rename_i s heq
    split at heq
    · cases heq
    · rename_i obs' y' k' m' hcb
      injection heq with heq
      have := afterCb_counted f ob _ _ _ _ _ _ _ hm obs' y' k' m' hcb
      exact hLoop_counted P Kn hk f ob fuel s (by rw [← heq]; exact this) r h

end Ctl

namespace Ctl
variable {α : Type} [Num α] {n : Nat}

/-! ### the concrete kernels meet the counting contract (the literals 6, 11, 1, 3 of the source are right) -/

theorem dopri5_stages_calls (f : Rhs α n) (y k1 : Vec α n) (x h : α) (l : Bool) (e : α) :
    (Gen.Dopri5.stages (f := f) (y := y) (h := h) (k1 := k1) (x := x) (last := l) (xend := e)).calls.size = 6 := by
  simp [Gen.Dopri5.stages]

theorem dop853_stages_calls (f : Rhs α n) (y k1 : Vec α n) (x h : α) (l : Bool) (e : α) :
    (Gen.Dop853.stages (f := f) (y := y) (h := h) (k1 := k1) (x := x) (last := l) (xend := e)).calls.size = 11 := by
  simp [Gen.Dop853.stages]

theorem dop853_fsal_calls (f : Rhs α n) (xph : α) (k5 : Vec α n) :
    (Gen.Dop853.fsal (f := f) (xph := xph) (k5 := k5)).calls.size = 1 := by
  simp [Gen.Dop853.fsal]

theorem dop853_extra_calls (f : Rhs α n) (y k1 k7 k8 k9 k10 k2 k3 k4 k6 : Vec α n) (x h : α) :
    (Gen.Dop853.extraStages (f := f) (y := y) (h := h) (k1 := k1) (k7 := k7) (k8 := k8) (k9 := k9) (k10 := k10) (k2 := k2)
      (k3 := k3) (k4 := k4) (x := x) (k6 := k6)).calls.size = 3 := by
  simp [Gen.Dop853.extraStages]

theorem hinit_calls (f : Rhs α n) (atol rtol y f0 : Vec α n) (hmax posneg x : α) (iord : Nat) :
    (Gen.Common.hinit (f := f) (atol := atol) (rtol := rtol) (y := y) (f0 := f0) (hmax := hmax) (posneg := posneg) (x := x)
      (iord := iord)).2.size = 1 := by
  simp [Gen.Common.hinit]

theorem dopri5Kernel_ok (atol rtol : Vec α n) : KOK (dopri5Kernel atol rtol) where
  trial f x h l e y k1 := by simp [dopri5Kernel, dopri5_stages_calls]
  acceptA f S x h y k1 := by simp [dopri5Kernel]
  acceptB f d S x h y k1 := by simp [dopri5Kernel]

theorem dop853Kernel_ok (atol rtol : Vec α n) : KOK (dop853Kernel atol rtol) where
  trial f x h l e y k1 := by simp [dop853Kernel, dop853_stages_calls]
  acceptA f S x h y k1 := by simp [dop853Kernel, dop853_fsal_calls]
  acceptB f d S x h y k1 := by
    cases d <;> simp [dop853Kernel, dop853_extra_calls]

end Ctl

namespace Ctl
variable {α : Type} [Num α] {n : Nat}

/-! ### C19: the callbacks form a contiguous chain;  C11: the step budget -/

/-- the callback intervals so far: `(x0,x0)` first, then each `xold` is the previous `x`; ends at `x` -/
inductive ChainTo : List (α × α) → α → Prop
  | init (x : α) : ChainTo [(x, x)] x
  | step {l : List (α × α)} {x : α} (h : ChainTo l x) (x' : α) : ChainTo (l ++ [(x, x')]) x'

def Meter.pairs (m : Meter α n) : List (α × α) := cbPairs m.log.toList

@[simp] theorem Meter.pairs_bump (m : Meter α n) (calls : Array (α × Vec α n)) (lit : Nat) : (m.bump calls lit).pairs = m.pairs := by
  unfold Meter.pairs Meter.bump; exact cbPairs_logCalls ..
@[simp] theorem Meter.pairs_incTotal (m : Meter α n) : m.incTotal.pairs = m.pairs := rfl
@[simp] theorem Meter.pairs_incAccepted (m : Meter α n) : m.incAccepted.pairs = m.pairs := rfl
@[simp] theorem Meter.pairs_decAccepted (m : Meter α n) : m.decAccepted.pairs = m.pairs := rfl
@[simp] theorem Meter.pairs_incRejected (m : Meter α n) : m.incRejected.pairs = m.pairs := rfl
@[simp] theorem Meter.pairs_cb (m : Meter α n) (xo x : α) (y : Vec α n) (smp : Array (Vec α n)) :
    (m.cb xo x y smp).pairs = m.pairs ++ [(xo, x)] := by
  unfold Meter.pairs Meter.cb cbPairs; simp
@[simp] theorem Meter.pairs_refresh (m : Meter α n) (x : α) (y : Vec α n) : (m.refresh x y).pairs = m.pairs := by
  unfold Meter.pairs Meter.refresh cbPairs; simp

@[simp] theorem Meter.total_bump (m : Meter α n) (calls : Array (α × Vec α n)) (lit : Nat) : (m.bump calls lit).cnt.total = m.cnt.total := rfl
@[simp] theorem Meter.total_incTotal (m : Meter α n) : m.incTotal.cnt.total = m.cnt.total + 1 := rfl
@[simp] theorem Meter.total_incAccepted (m : Meter α n) : m.incAccepted.cnt.total = m.cnt.total := rfl
@[simp] theorem Meter.total_decAccepted (m : Meter α n) : m.decAccepted.cnt.total = m.cnt.total := rfl
@[simp] theorem Meter.total_incRejected (m : Meter α n) : m.incRejected.cnt.total = m.cnt.total := rfl
@[simp] theorem Meter.total_cb (m : Meter α n) (xo x : α) (y : Vec α n) (smp : Array (Vec α n)) : (m.cb xo x y smp).cnt.total = m.cnt.total := rfl
@[simp] theorem Meter.total_refresh (m : Meter α n) (x : α) (y : Vec α n) : (m.refresh x y).cnt.total = m.cnt.total := rfl

theorem afterCb_go_meter {σ : Type} (f : Rhs α n) (ob : Obs σ α n) (obs : σ) (m : Meter α n) (xo x : α) (y : Vec α n)
    (ip : Option (α → Vec α n)) (k : Vec α n) :
    ∀ obs' y' k' m', afterCb f ob obs m xo x y ip k = .go obs' y' k' m' → m'.pairs = m.pairs ∧ m'.cnt.total = m.cnt.total := by
  intro obs' y' k' m' h
  unfold afterCb at h
  dsimp only at h
  split at h
  · cases h
  · injection h with _ _ _ h4; rw [← h4]; simp
  · injection h with _ _ _ h4; rw [← h4]; simp

/-- bookkeeping invariant of the Hairer loop: callbacks chain up to the current `x`, at most `nmax + 1` attempts -/
def HInv {σ : Type} (P : HParams α n) (s : HState σ α n) : Prop :=
  ChainTo s.m.pairs s.x ∧ s.m.cnt.total ≤ P.nmax + 1
def RInv {σ : Type} (P : HParams α n) (r : Result σ α n) : Prop :=
  ChainTo r.m.pairs r.x ∧ r.m.cnt.total ≤ P.nmax + 1

theorem hFinish_inv {σ : Type} (P : HParams α n) (Kn : HKernel α n) (f : Rhs α n) (ob : Obs σ α n)
    (s : HState σ α n) (h : α) (last : Bool) (hnew facold hlamb : α) (ns ia : Nat) (sa : Kn.SA) (m : Meter α n)
    (hc : ChainTo m.pairs s.x) (ht : m.cnt.total ≤ P.nmax + 1) :
    Both (HInv P) (RInv P) (hFinish P Kn f ob s h last hnew facold hlamb ns ia sa m) := by
  unfold hFinish
  dsimp only
  split
  · refine ⟨?_, by simpa using ht⟩
    simpa using ChainTo.step hc (landX last P.xend s.x h)
  · rename_i obs' y' k' m' heq
    have hm := afterCb_go_meter f ob _ _ _ _ _ _ _ obs' y' k' m' heq
    have hc' : ChainTo m'.pairs (landX last P.xend s.x h) := by rw [hm.1]; simpa using ChainTo.step hc (landX last P.xend s.x h)
    have ht' : m'.cnt.total ≤ P.nmax + 1 := by rw [hm.2]; simpa using ht
    split <;> exact ⟨hc', ht'⟩

theorem hIter_inv {σ : Type} (P : HParams α n) (Kn : HKernel α n) (f : Rhs α n) (ob : Obs σ α n)
    (s : HState σ α n) (hs : HInv P s) : Both (HInv P) (RInv P) (hIter P Kn f ob s) := by
  unfold hIter
  cases hg : hGuard P s with
  | some st => exact hs
  | none =>
    dsimp only
    have htot : s.m.cnt.total ≤ P.nmax := by
      unfold hGuard at hg
      split at hg
      · cases hg
      · omega
    split
    · -- accepted
      unfold hAccepted
      dsimp only
      split
      · exact ⟨by simpa [hTrial] using hs.1, by simp [hTrial]; omega⟩
      · apply hFinish_inv
        · simpa [hTrial] using hs.1
        · simp [hTrial]; omega
    · -- rejected
      unfold hRejected
      refine ⟨?_, ?_⟩
      · dsimp only; split <;> simpa [hTrial] using hs.1
      · dsimp only; split <;> (simp [hTrial]; omega)

theorem hLoop_inv {σ : Type} (P : HParams α n) (Kn : HKernel α n) (f : Rhs α n) (ob : Obs σ α n) :
    ∀ (fuel : Nat) (s : HState σ α n), HInv P s → ∀ r, hLoop P Kn f ob fuel s = some r → RInv P r := by
  intro fuel
  induction fuel with
  | zero => intro s _ r h; simp [hLoop] at h
  | succ fuel ih =>
    intro s hs r h
    unfold hLoop at h
    have hi := hIter_inv P Kn f ob s hs
    split at h
    · rename_i r' heq
      rw [heq] at hi
      injection h with h; rw [← h]; exact hi
    · rename_i s' heq
      rw [heq] at hi
      exact ih s' hi r h

theorem startMeter_pairs (f : Rhs α n) (x0 : α) (y0 : Vec α n) (posneg hcap : α) (firstStep : Option α)
    (hinit : Rhs α n → Vec α n → α × Array (α × Vec α n)) :
    (startMeter f x0 y0 posneg hcap firstStep hinit).2.2.pairs = [] ∧ (startMeter f x0 y0 posneg hcap firstStep hinit).2.2.cnt.total = 0 := by
  have h0 : (({} : Meter α n)).pairs = [] := rfl
  unfold startMeter
  cases firstStep <;> simp [h0] <;> rfl

/-- **C19 / C11 (DOPRI5, DOP853).**  For every right-hand side, kernel and observer (any flag at any callback): the
    callbacks of a run are `(x0, x0)` followed by contiguous intervals ending at the returned `x`, and the number of
    attempted steps never exceeds `max_steps + 1`. -/
theorem hSolve_protocol {σ : Type} (P : HParams α n) (Kn : HKernel α n) (f : Rhs α n) (ob : Obs σ α n) (obs0 : σ)
    (x0 : α) (y0 : Vec α n) (firstStep : Option α) (hinit : Rhs α n → Vec α n → α × Array (α × Vec α n))
    (fo hl : α) (fuel : Nat) (r : Result σ α n)
    (h : hSolve P Kn f ob obs0 x0 y0 firstStep hinit fo hl fuel = some r) :
    ChainTo r.m.pairs r.x ∧ r.m.cnt.total ≤ P.nmax + 1 := by
  unfold hSolve at h
  have hp := startMeter_pairs f x0 y0 P.posneg P.hmax firstStep hinit
  have hc0 : ChainTo ((startMeter f x0 y0 P.posneg P.hmax firstStep hinit).2.2.cb x0 x0 y0 #[]).pairs x0 := by
    rw [Meter.pairs_cb, hp.1]; exact ChainTo.init x0
  unfold hStart at h
  dsimp only at h
  split at h
  · rename_i r' heq
    split at heq
    · injection heq with heq; injection h with h; rw [← h, ← heq]
      exact ⟨hc0, by simp [hp.2]⟩
    · cases heq
  · rename_i s heq
    split at heq
    · cases heq
    · rename_i obs' y' k' m' hcb
      injection heq with heq
      have hm := afterCb_go_meter f ob _ _ _ _ _ _ _ obs' y' k' m' hcb
      apply hLoop_inv P Kn f ob fuel s _ r h
      rw [← heq]
      exact ⟨by rw [hm.1]; exact hc0, by rw [hm.2]; simp [hp.2]⟩

end Ctl

namespace Ctl
variable {α : Type} [Num α] {n : Nat}

/-! ### C19: what the three flags do -/

/-- `Interrupt`: the run stops at once — the skeleton returns from `afterCb … = .stop` without touching the meter -/
theorem afterCb_interrupt {σ : Type} (f : Rhs α n) (ob : Obs σ α n) (obs : σ) (m : Meter α n) (xo x : α) (y : Vec α n)
    (ip : Option (α → Vec α n)) (k : Vec α n) (h : (ob obs xo x y ip).2.1 = .interrupt) :
    afterCb f ob obs m xo x y ip k = .stop (ob obs xo x y ip).1 (ob obs xo x y ip).2.2 := by
  unfold afterCb; simp only [h]

/-- `ModifiedSolution`: the solver continues from the state the callback wrote, with the derivative re-evaluated
    there by a fresh (counted) call -/
theorem afterCb_modified {σ : Type} (f : Rhs α n) (ob : Obs σ α n) (obs : σ) (m : Meter α n) (xo x : α) (y : Vec α n)
    (ip : Option (α → Vec α n)) (k : Vec α n) (h : (ob obs xo x y ip).2.1 = .modified) :
    afterCb f ob obs m xo x y ip k
      = .go (ob obs xo x y ip).1 (ob obs xo x y ip).2.2 (f m.ncalls x (ob obs xo x y ip).2.2) (m.refresh x (ob obs xo x y ip).2.2) := by
  unfold afterCb; simp only [h]

/-- `Continue`: state and FSAL derivative are kept, no evaluation is made -/
theorem afterCb_cont {σ : Type} (f : Rhs α n) (ob : Obs σ α n) (obs : σ) (m : Meter α n) (xo x : α) (y : Vec α n)
    (ip : Option (α → Vec α n)) (k : Vec α n) (h : (ob obs xo x y ip).2.1 = .cont) :
    afterCb f ob obs m xo x y ip k = .go (ob obs xo x y ip).1 (ob obs xo x y ip).2.2 k m := by
  unfold afterCb; simp only [h]

/-- DOPRI5/DOP853: an `Interrupt` returned by the per-step callback ends the run with `UserInterrupt`, at the accepted
    point, and the event log ends with that callback (no further evaluation, no further callback) -/
theorem hFinish_interrupt {σ : Type} (P : HParams α n) (Kn : HKernel α n) (f : Rhs α n) (ob : Obs σ α n)
    (s : HState σ α n) (h : α) (last : Bool) (hnew facold hlamb : α) (ns ia : Nat) (sa : Kn.SA) (m : Meter α n)
    (hflag : ∀ m' : Meter α n, ∀ y ip k,
      afterCb f ob s.obs m' s.x (landX last P.xend s.x h) y ip k
        = .stop (ob s.obs s.x (landX last P.xend s.x h) y ip).1 (ob s.obs s.x (landX last P.xend s.x h) y ip).2.2) :
    ∃ r, hFinish P Kn f ob s h last hnew facold hlamb ns ia sa m = .inr r ∧ r.status = .userInterrupt
      ∧ r.x = landX last P.xend s.x h
      ∧ ∃ e, r.m.log.back? = some e ∧ isOde e = false := by
  unfold hFinish
  dsimp only
  rw [hflag]
  refine ⟨_, rfl, rfl, rfl, ?_⟩
  simp [Meter.cb, isOde]

end Ctl

namespace Ctl
variable {α : Type} [Num α] {n : Nat}

/-! ### C12: a passive observer does not perturb the integration -/

/-- an observer that always answers `Continue` and leaves the state vector alone (what `DefaultSolOut` does for
    `t_eval`, dense output and non-terminal events: see `SolOutM.step_flag`) -/
def Passive {σ : Type} (ob : Obs σ α n) : Prop := ∀ o xo x y ip, (ob o xo x y ip).2 = (.cont, y)

def trivObs : Obs Unit α n := fun _ _ _ y _ => ((), .cont, y)

def HState.strip {σ : Type} (s : HState σ α n) : HState Unit α n :=
  { x := s.x, h := s.h, y := s.y, k1 := s.k1, facold := s.facold, last := s.last, reject := s.reject, nonstiff := s.nonstiff,
    iasti := s.iasti, hlamb := s.hlamb, m := s.m, obs := () }
def Result.strip {σ : Type} (r : Result σ α n) : Result Unit α n :=
  { status := r.status, h := r.h, x := r.x, y := r.y, m := r.m, obs := () }
def stripSum {σ : Type} : Sum (HState σ α n) (Result σ α n) → Sum (HState Unit α n) (Result Unit α n)
  | .inl s => .inl s.strip
  | .inr r => .inr r.strip

theorem afterCb_passive {σ : Type} (f : Rhs α n) (ob : Obs σ α n) (hp : Passive ob) (obs : σ) (m : Meter α n) (xo x : α)
    (y : Vec α n) (ip : Option (α → Vec α n)) (k : Vec α n) :
    afterCb f ob obs m xo x y ip k = .go (ob obs xo x y ip).1 y k m := by
  have h := hp obs xo x y ip
  unfold afterCb
  dsimp only
  have h1 : (ob obs xo x y ip).2.1 = .cont := by rw [h]
  have h2 : (ob obs xo x y ip).2.2 = y := by rw [h]
  rw [h1, h2]

theorem hFinish_passive {σ : Type} (P : HParams α n) (Kn : HKernel α n) (f : Rhs α n) (ob : Obs σ α n) (hp : Passive ob)
    (s : HState σ α n) (h : α) (last : Bool) (hnew facold hlamb : α) (ns ia : Nat) (sa : Kn.SA) (m : Meter α n) :
    stripSum (hFinish P Kn f ob s h last hnew facold hlamb ns ia sa m)
      = hFinish P Kn f trivObs s.strip h last hnew facold hlamb ns ia sa m := by
  unfold hFinish
  dsimp only
  rw [afterCb_passive f ob hp, afterCb_passive f trivObs (fun _ _ _ _ _ => rfl)]
  dsimp only
  split <;> rfl

theorem hAccepted_passive {σ : Type} (P : HParams α n) (Kn : HKernel α n) (f : Rhs α n) (ob : Obs σ α n) (hp : Passive ob)
    (s : HState σ α n) (h : α) (last : Bool) (T : HTrial α n Kn.S) :
    stripSum (hAccepted P Kn f ob s h last T) = hAccepted P Kn f trivObs s.strip h last T := by
  unfold hAccepted
  have hs : ∀ h sa acc, hStiffTest P Kn s.strip h sa acc = hStiffTest P Kn s h sa acc := fun _ _ _ => rfl
  have hx : s.strip.x = s.x := rfl
  have hy : s.strip.y = s.y := rfl
  have hk : s.strip.k1 = s.k1 := rfl
  dsimp only
  rw [hs, hx, hy, hk]
  by_cases hc : (hStiffTest P Kn s h (Kn.acceptA (fun j => f (T.m.incAccepted.ncalls + j)) T.S s.x h s.y s.k1).1
      (T.m.incAccepted.bump (Kn.acceptA (fun j => f (T.m.incAccepted.ncalls + j)) T.S s.x h s.y s.k1).2.1
        (Kn.acceptA (fun j => f (T.m.incAccepted.ncalls + j)) T.S s.x h s.y s.k1).2.2).cnt.accepted).2.2.2 = true
  · rw [if_pos hc, if_pos hc]; rfl
  · rw [if_neg hc, if_neg hc]; exact hFinish_passive P Kn f ob hp s _ _ _ _ _ _ _ _ _

/-- **C12 (DOPRI5, DOP853).**  With any passive observer the loop does exactly what it does with no observer at all:
    same trial steps, same accepted states, same counters, same status, same event log. -/
theorem hIter_passive {σ : Type} (P : HParams α n) (Kn : HKernel α n) (f : Rhs α n) (ob : Obs σ α n) (hp : Passive ob)
    (s : HState σ α n) : stripSum (hIter P Kn f ob s) = hIter P Kn f trivObs s.strip := by
  unfold hIter
  have hg : hGuard P s.strip = hGuard P s := rfl
  rw [hg]
  cases hGuard P s with
  | some st => rfl
  | none =>
    dsimp only
    have ha : hAdjust P s.strip = hAdjust P s := rfl
    have ht : ∀ h l, hTrial P Kn f s.strip h l = hTrial P Kn f s h l := fun _ _ => rfl
    rw [ha, ht]
    by_cases hc : (hTrial P Kn f s (hAdjust P s).1 (hAdjust P s).2).err ≤ P.one
    · rw [if_pos hc, if_pos hc]; exact hAccepted_passive P Kn f ob hp s _ _ _
    · rw [if_neg hc, if_neg hc]; rfl

theorem hLoop_passive {σ : Type} (P : HParams α n) (Kn : HKernel α n) (f : Rhs α n) (ob : Obs σ α n) (hp : Passive ob) :
    ∀ (fuel : Nat) (s : HState σ α n),
      (hLoop P Kn f ob fuel s).map Result.strip = hLoop P Kn f trivObs fuel s.strip := by
  intro fuel
  induction fuel with
  | zero => intro s; rfl
  | succ fuel ih =>
    intro s
    unfold hLoop
    have := hIter_passive P Kn f ob hp s
    cases h1 : hIter P Kn f ob s with
    | inr r => rw [h1] at this; simp only [stripSum] at this; rw [← this]; rfl
    | inl s' => rw [h1] at this; simp only [stripSum] at this; rw [← this]; exact ih s'

end Ctl
