import IvpModel.Proofs.ScaleDopri5
set_option linter.unusedSectionVars false
set_option linter.unusedSimpArgs false
set_option linter.unusedTactic false
set_option linter.unnecessarySeqFocus false
set_option linter.unusedVariables false

/-!
  C13, whole runs of DOP853 under a scaling of state and absolute tolerance by `c > 0`: the translated regions of dop853.rs obey
  the scaling laws of `Proofs/ScaleHairer.lean` between the kernels with tolerances `atol` and `c·atol`.
-/
namespace Ctl
noncomputable section
variable {K : Type} [Field K] [LinearOrder K] [IsStrictOrderedRing K] [SqrtPow K] {n : Nat}

section regions
open Gen.Dop853

theorem d8l1_scale (c : K) (y k1 : Vector K n) (h : K) :
    stages_loop1 (y := vsmul c y) (h := h) (k1 := vsmul c k1) = vsmul c (stages_loop1 (y := y) (h := h) (k1 := k1)) := by
  ext i hi; simp [stages_loop1, vsmul]; try ring

theorem d8l2_scale (c : K) (y k1 k2 : Vector K n) (h : K) :
    stages_loop2 (y := vsmul c y) (h := h) (k1 := vsmul c k1) (k2 := vsmul c k2) = vsmul c (stages_loop2 (y := y) (h := h) (k1 := k1) (k2 := k2)) := by
  ext i hi; simp [stages_loop2, vsmul]; try ring

theorem d8l3_scale (c : K) (y k1 k3 : Vector K n) (h : K) :
    stages_loop3 (y := vsmul c y) (h := h) (k1 := vsmul c k1) (k3 := vsmul c k3) = vsmul c (stages_loop3 (y := y) (h := h) (k1 := k1) (k3 := k3)) := by
  ext i hi; simp [stages_loop3, vsmul]; try ring

theorem d8l4_scale (c : K) (y k1 k3 k4 : Vector K n) (h : K) :
    stages_loop4 (y := vsmul c y) (h := h) (k1 := vsmul c k1) (k3 := vsmul c k3) (k4 := vsmul c k4) = vsmul c (stages_loop4 (y := y) (h := h) (k1 := k1) (k3 := k3) (k4 := k4)) := by
  ext i hi; simp [stages_loop4, vsmul]; try ring

theorem d8l5_scale (c : K) (y k1 k4 k5 : Vector K n) (h : K) :
    stages_loop5 (y := vsmul c y) (h := h) (k1 := vsmul c k1) (k4 := vsmul c k4) (k5 := vsmul c k5) = vsmul c (stages_loop5 (y := y) (h := h) (k1 := k1) (k4 := k4) (k5 := k5)) := by
  ext i hi; simp [stages_loop5, vsmul]; try ring

theorem d8l6_scale (c : K) (y k1 k4 k5 k6 : Vector K n) (h : K) :
    stages_loop6 (y := vsmul c y) (h := h) (k1 := vsmul c k1) (k4 := vsmul c k4) (k5 := vsmul c k5) (k6 := vsmul c k6) = vsmul c (stages_loop6 (y := y) (h := h) (k1 := k1) (k4 := k4) (k5 := k5) (k6 := k6)) := by
  ext i hi; simp [stages_loop6, vsmul]; try ring

theorem d8l7_scale (c : K) (y k1 k4 k5 k6 k7 : Vector K n) (h : K) :
    stages_loop7 (y := vsmul c y) (h := h) (k1 := vsmul c k1) (k4 := vsmul c k4) (k5 := vsmul c k5) (k6 := vsmul c k6) (k7 := vsmul c k7) = vsmul c (stages_loop7 (y := y) (h := h) (k1 := k1) (k4 := k4) (k5 := k5) (k6 := k6) (k7 := k7)) := by
  ext i hi; simp [stages_loop7, vsmul]; try ring

theorem d8l8_scale (c : K) (y k1 k4 k5 k6 k7 k8 : Vector K n) (h : K) :
    stages_loop8 (y := vsmul c y) (h := h) (k1 := vsmul c k1) (k4 := vsmul c k4) (k5 := vsmul c k5) (k6 := vsmul c k6) (k7 := vsmul c k7) (k8 := vsmul c k8) = vsmul c (stages_loop8 (y := y) (h := h) (k1 := k1) (k4 := k4) (k5 := k5) (k6 := k6) (k7 := k7) (k8 := k8)) := by
  ext i hi; simp [stages_loop8, vsmul]; try ring

theorem d8l9_scale (c : K) (y k1 k4 k5 k6 k7 k8 k9 : Vector K n) (h : K) :
    stages_loop9 (y := vsmul c y) (h := h) (k1 := vsmul c k1) (k4 := vsmul c k4) (k5 := vsmul c k5) (k6 := vsmul c k6) (k7 := vsmul c k7) (k8 := vsmul c k8) (k9 := vsmul c k9) = vsmul c (stages_loop9 (y := y) (h := h) (k1 := k1) (k4 := k4) (k5 := k5) (k6 := k6) (k7 := k7) (k8 := k8) (k9 := k9)) := by
  ext i hi; simp [stages_loop9, vsmul]; try ring

theorem d8l10_scale (c : K) (y k1 k4 k5 k6 k7 k8 k9 k10 : Vector K n) (h : K) :
    stages_loop10 (y := vsmul c y) (h := h) (k1 := vsmul c k1) (k4 := vsmul c k4) (k5 := vsmul c k5) (k6 := vsmul c k6) (k7 := vsmul c k7) (k8 := vsmul c k8) (k9 := vsmul c k9) (k10 := vsmul c k10) = vsmul c (stages_loop10 (y := y) (h := h) (k1 := k1) (k4 := k4) (k5 := k5) (k6 := k6) (k7 := k7) (k8 := k8) (k9 := k9) (k10 := k10)) := by
  ext i hi; simp [stages_loop10, vsmul]; try ring

theorem d8l11_scale (c : K) (y k1 k4 k5 k6 k7 k8 k9 k10 k2 : Vector K n) (h : K) :
    stages_loop11 (y := vsmul c y) (h := h) (k1 := vsmul c k1) (k4 := vsmul c k4) (k5 := vsmul c k5) (k6 := vsmul c k6) (k7 := vsmul c k7) (k8 := vsmul c k8) (k9 := vsmul c k9) (k10 := vsmul c k10) (k2 := vsmul c k2) = vsmul c (stages_loop11 (y := y) (h := h) (k1 := k1) (k4 := k4) (k5 := k5) (k6 := k6) (k7 := k7) (k8 := k8) (k9 := k9) (k10 := k10) (k2 := k2)) := by
  ext i hi; simp [stages_loop11, vsmul]; try ring

theorem d8x1_scale (c : K) (y k1 k7 k8 k9 k10 k2 k3 k4 : Vector K n) (h : K) :
    extraStages_loop1 (y := vsmul c y) (h := h) (k1 := vsmul c k1) (k7 := vsmul c k7) (k8 := vsmul c k8) (k9 := vsmul c k9) (k10 := vsmul c k10) (k2 := vsmul c k2) (k3 := vsmul c k3) (k4 := vsmul c k4) = vsmul c (extraStages_loop1 (y := y) (h := h) (k1 := k1) (k7 := k7) (k8 := k8) (k9 := k9) (k10 := k10) (k2 := k2) (k3 := k3) (k4 := k4)) := by
  ext i hi; simp [extraStages_loop1, vsmul]; try ring

theorem d8x2_scale (c : K) (y k1 k6 k7 k8 k2 k3 k4 k10 : Vector K n) (h : K) :
    extraStages_loop2 (y := vsmul c y) (h := h) (k1 := vsmul c k1) (k6 := vsmul c k6) (k7 := vsmul c k7) (k8 := vsmul c k8) (k2 := vsmul c k2) (k3 := vsmul c k3) (k4 := vsmul c k4) (k10 := vsmul c k10) = vsmul c (extraStages_loop2 (y := y) (h := h) (k1 := k1) (k6 := k6) (k7 := k7) (k8 := k8) (k2 := k2) (k3 := k3) (k4 := k4) (k10 := k10)) := by
  ext i hi; simp [extraStages_loop2, vsmul]; try ring

theorem d8x3_scale (c : K) (y k1 k6 k7 k8 k9 k4 k10 k2 : Vector K n) (h : K) :
    extraStages_loop3 (y := vsmul c y) (h := h) (k1 := vsmul c k1) (k6 := vsmul c k6) (k7 := vsmul c k7) (k8 := vsmul c k8) (k9 := vsmul c k9) (k4 := vsmul c k4) (k10 := vsmul c k10) (k2 := vsmul c k2) = vsmul c (extraStages_loop3 (y := y) (h := h) (k1 := k1) (k6 := k6) (k7 := k7) (k8 := k8) (k9 := k9) (k4 := k4) (k10 := k10) (k2 := k2)) := by
  ext i hi; simp [extraStages_loop3, vsmul]; try ring

def sStages8 (c : K) (o : StagesOut K n) : StagesOut K n :=
  { y1 := vsmul c o.y1, k2 := vsmul c o.k2, calls := o.calls.map (scl c), k3 := vsmul c o.k3, k4 := vsmul c o.k4, k5 := vsmul c o.k5,
    k6 := vsmul c o.k6, k7 := vsmul c o.k7, k8 := vsmul c o.k8, k9 := vsmul c o.k9, k10 := vsmul c o.k10, xph := o.xph }

theorem stages8_scale_off (c : K) (hc : c ≠ 0) (F : Rhs K n) (c0 : Nat) (y k1 : Vector K n) (x h : K) (last : Bool) (xend : K) :
    stages (f := fun j => sRhs c F (c0 + j)) (y := vsmul c y) (h := h) (k1 := vsmul c k1) (x := x) (last := last) (xend := xend)
      = sStages8 c (stages (f := fun j => F (c0 + j)) (y := y) (h := h) (k1 := k1) (x := x) (last := last) (xend := xend)) := by
  simp only [stages, sStages8, sRhs, d8l1_scale, d8l2_scale, d8l3_scale, d8l4_scale, d8l5_scale, d8l6_scale, d8l7_scale,
    d8l8_scale, d8l9_scale, d8l10_scale, d8l11_scale, vsmul_inv c hc]
  simp [scl]

theorem combine8_scale (c : K) (k1 k6 k7 k8 k9 k10 k2 k3 y k4 : Vector K n) (h : K) :
    combine (k1 := vsmul c k1) (k6 := vsmul c k6) (k7 := vsmul c k7) (k8 := vsmul c k8) (k9 := vsmul c k9) (k10 := vsmul c k10) (k2 := vsmul c k2)
        (k3 := vsmul c k3) (y := vsmul c y) (h := h) (k4 := vsmul c k4)
      = { k4 := vsmul c (combine (k1 := k1) (k6 := k6) (k7 := k7) (k8 := k8) (k9 := k9) (k10 := k10) (k2 := k2) (k3 := k3) (y := y) (h := h) (k4 := k4)).k4,
          k5 := vsmul c (combine (k1 := k1) (k6 := k6) (k7 := k7) (k8 := k8) (k9 := k9) (k10 := k10) (k2 := k2) (k3 := k3) (y := y) (h := h) (k4 := k4)).k5 } := by
  simp only [combine, combine_loop1]
  congr 1
  · ext i hi; simp [vsmul]; ring
  · ext i hi; simp [vsmul]; ring

/-- `(c·e) / (c·atol + rtol·max(|c·y|, |c·z|)) = e / (atol + rtol·max(|y|, |z|))` for `c > 0` -/
theorem ratio_max_scale (c : K) (hc : 0 < c) (e a r yy zz : K) :
    (c * e) / (c * a + r * max |c * yy| |c * zz|) = e / (a + r * max |yy| |zz|) := by
  rw [abs_mul, abs_mul, abs_of_pos hc, ← mul_max_of_nonneg _ _ hc.le,
    show c * a + r * (c * max |yy| |zz|) = c * (a + r * max |yy| |zz|) by ring, mul_div_mul_left _ _ hc.ne']

theorem errnorm8_scale (c : K) (hc : 0 < c) (atol rtol y k5 k4 k1 k9 k3 k6 k7 k8 k10 k2 : Vector K n) (h : K) :
    errnorm (atol := vsmul c atol) (rtol := rtol) (y := vsmul c y) (k5 := vsmul c k5) (k4 := vsmul c k4) (k1 := vsmul c k1) (k9 := vsmul c k9)
        (k3 := vsmul c k3) (k6 := vsmul c k6) (k7 := vsmul c k7) (k8 := vsmul c k8) (k10 := vsmul c k10) (k2 := vsmul c k2) (h := h)
      = errnorm (atol := atol) (rtol := rtol) (y := y) (k5 := k5) (k4 := k4) (k1 := k1) (k9 := k9) (k3 := k3) (k6 := k6)
        (k7 := k7) (k8 := k8) (k10 := k10) (k2 := k2) (h := h) := by
  have e1 : ∀ (a b c' d B1 B2 B3 : K), c * a - B1 * (c * b) - B2 * (c * c') - B3 * (c * d) = c * (a - B1 * b - B2 * c' - B3 * d) := fun _ _ _ _ _ _ _ => by ring
  have e2 : ∀ (a b c' d e f g i A B C D E F G I : K),
      A * (c * a) + B * (c * b) + C * (c * c') + D * (c * d) + E * (c * e) + F * (c * f) + G * (c * g) + I * (c * i)
        = c * (A * a + B * b + C * c' + D * d + E * e + F * f + G * g + I * i) :=
    fun _ _ _ _ _ _ _ _ _ _ _ _ _ _ _ _ => by ring
  simp only [errnorm, errnorm_loop1, vsmul_get, e1, e2, num_abs, num_fmax, ratio_max_scale c hc]
  rfl

theorem stiff8_scale (c : K) (hc : c ≠ 0) (k4 k3 k5 y1 : Vector K n) (h hl : K) :
    (stiff (k4 := vsmul c k4) (k3 := vsmul c k3) (k5 := vsmul c k5) (y1 := vsmul c y1) (h := h) (hlamb := hl)).hlamb
      = (stiff (k4 := k4) (k3 := k3) (k5 := k5) (y1 := y1) (h := h) (hlamb := hl)).hlamb := by
  have e : ∀ a b : K, (c * a - c * b) * (c * a - c * b) = (c * c) * ((a - b) * (a - b)) := fun a b => by ring
  have hq : 0 < c * c := mul_self_pos.mpr hc
  simp only [stiff, stiff_loop1, vsmul_get, e, num_lit, Int.cast_zero, zero_div]
  have key := foldl_pair_scale (c * c) n (fun i => (k4[i] - k3[i]) * (k4[i] - k3[i])) (fun i => (k5[i] - y1[i]) * (k5[i] - y1[i])) 0 0
  rw [mul_zero] at key
  rw [key]
  generalize Fin.foldl n (fun (st : K × K) i => (st.1 + (k4[i] - k3[i]) * (k4[i] - k3[i]), st.2 + (k5[i] - y1[i]) * (k5[i] - y1[i]))) (0, 0) = AB
  obtain ⟨A, B⟩ := AB
  dsimp only
  rw [mul_div_mul_left _ _ hq.ne']
  by_cases hB : B > 0
  · rw [if_pos hB, if_pos (mul_pos hq hB)]
  · have hB' : ¬ (c * c * B > 0) := fun h' => hB ((mul_pos_iff_of_pos_left hq).mp h')
    rw [if_neg hB, if_neg hB']

theorem dense18_scale (c : K) (y k5 k1 k4 k6 k7 k8 k9 k10 k2 k3 : Vector K n) (h : K) :
    let d := dense1 (y := y) (k5 := k5) (h := h) (k1 := k1) (k4 := k4) (k6 := k6) (k7 := k7) (k8 := k8) (k9 := k9) (k10 := k10) (k2 := k2) (k3 := k3)
    let d' := dense1 (y := vsmul c y) (k5 := vsmul c k5) (h := h) (k1 := vsmul c k1) (k4 := vsmul c k4) (k6 := vsmul c k6) (k7 := vsmul c k7)
      (k8 := vsmul c k8) (k9 := vsmul c k9) (k10 := vsmul c k10) (k2 := vsmul c k2) (k3 := vsmul c k3)
    d'.cont0 = vsmul c d.cont0 ∧ d'.cont1 = vsmul c d.cont1 ∧ d'.cont2 = vsmul c d.cont2 ∧ d'.cont3 = vsmul c d.cont3 ∧ d'.cont4 = vsmul c d.cont4
      ∧ d'.cont5 = vsmul c d.cont5 ∧ d'.cont6 = vsmul c d.cont6 ∧ d'.cont7 = vsmul c d.cont7 := by
  intro d d'
  refine ⟨?_, ?_, ?_, ?_, ?_, ?_, ?_, ?_⟩ <;> (ext i hi; simp [d, d', dense1, dense1_loop1, vsmul]; try ring)

theorem dense28_scale (c : K) (c4 k4 k10 k2 k3 c5 c6 c7 : Vector K n) (h : K) :
    let d := dense2 (h := h) (cont4 := c4) (k4 := k4) (k10 := k10) (k2 := k2) (k3 := k3) (cont5 := c5) (cont6 := c6) (cont7 := c7)
    let d' := dense2 (h := h) (cont4 := vsmul c c4) (k4 := vsmul c k4) (k10 := vsmul c k10) (k2 := vsmul c k2) (k3 := vsmul c k3)
      (cont5 := vsmul c c5) (cont6 := vsmul c c6) (cont7 := vsmul c c7)
    d'.cont4 = vsmul c d.cont4 ∧ d'.cont5 = vsmul c d.cont5 ∧ d'.cont6 = vsmul c d.cont6 ∧ d'.cont7 = vsmul c d.cont7 := by
  intro d d'
  refine ⟨?_, ?_, ?_, ?_⟩ <;> (ext i hi; simp [d, d', dense2, dense2_loop1, vsmul]; try ring)

theorem extra8_scale (c : K) (hc : c ≠ 0) (F : Rhs K n) (c0 : Nat) (y k1 k7 k8 k9 k10 k2 k3 k4 k6 : Vector K n) (x h : K) :
    let e := extraStages (f := fun j => F (c0 + j)) (y := y) (h := h) (k1 := k1) (k7 := k7) (k8 := k8) (k9 := k9) (k10 := k10) (k2 := k2) (k3 := k3) (k4 := k4) (x := x) (k6 := k6)
    let e' := extraStages (f := fun j => sRhs c F (c0 + j)) (y := vsmul c y) (h := h) (k1 := vsmul c k1) (k7 := vsmul c k7) (k8 := vsmul c k8)
      (k9 := vsmul c k9) (k10 := vsmul c k10) (k2 := vsmul c k2) (k3 := vsmul c k3) (k4 := vsmul c k4) (x := x) (k6 := vsmul c k6)
    e'.k10 = vsmul c e.k10 ∧ e'.k2 = vsmul c e.k2 ∧ e'.k3 = vsmul c e.k3 ∧ e'.calls = e.calls.map (scl c) := by
  intro e e'
  simp only [e, e', extraStages, sRhs, d8x1_scale, d8x2_scale, d8x3_scale, vsmul_inv c hc]
  simp [scl]

theorem interp8_scale (c : K) (c4 c5 c6 c7 c0 c1 c2 c3 : Vector K n) (xold h xi : K) :
    interpolate (xi := xi) (xold := xold) (h := h) (cont4 := vsmul c c4) (cont5 := vsmul c c5) (cont6 := vsmul c c6) (cont7 := vsmul c c7)
        (cont0 := vsmul c c0) (cont1 := vsmul c c1) (cont2 := vsmul c c2) (cont3 := vsmul c c3)
      = vsmul c (interpolate (xi := xi) (xold := xold) (h := h) (cont4 := c4) (cont5 := c5) (cont6 := c6) (cont7 := c7) (cont0 := c0) (cont1 := c1)
        (cont2 := c2) (cont3 := c3)) := by
  simp only [interpolate, interpolate_loop1]
  generalize (xi - xold) / h = t
  ext i hi
  simp [vsmul]
  ring
end regions

def sD8S (c : K) (S : D8S K n) : D8S K n :=
  { k1 := vsmul c S.k1, o := sStages8 c S.o, c := { k4 := vsmul c S.c.k4, k5 := vsmul c S.c.k5 } }
def sD8SA (c : K) (a : D8SA K n) : D8SA K n := { s := sD8S c a.s, k4 := vsmul c a.k4 }

/-- **DOP853's numeric kernels with tolerances `atol` and `c·atol` are related by the scaling laws.** -/
def dop853KScale (c : K) (hc : 0 < c) (atol rtol : Vec K n) : KScale c (dop853Kernel (α := K) atol rtol) (dop853Kernel (α := K) (vsmul c atol) rtol) where
  sS := sD8S c
  sSA := sD8SA c
  trial := by
    intro F c0 x h last xend y k1
    simp only [dop853Kernel, sD8S, stages8_scale_off c hc.ne']
    simp only [sStages8, combine8_scale]
  err := by
    intro s y h
    simp only [dop853Kernel, sD8S, sStages8, finiteGuard, vecFinite_field, if_true, errnorm8_scale c hc]
  acceptA := by
    intro F c0 s x h y k1
    simp [dop853Kernel, sD8S, sD8SA, sStages8, Gen.Dop853.fsal, sRhs, scl, vsmul_inv c hc.ne']
  hlamb := by
    intro a h y k1 old
    exact stiff8_scale c hc.ne' a.k4 a.s.o.k3 a.s.c.k5 a.s.o.y1 h old
  acceptB := by
    intro F c0 d a x h y k1
    cases d
    · simp [dop853Kernel, sD8SA, sD8S]
    · obtain ⟨d0, d1, d2, d3, d4, d5, d6, d7⟩ := dense18_scale c y a.s.c.k5 k1 a.k4 a.s.o.k6 a.s.o.k7 a.s.o.k8 a.s.o.k9 a.s.o.k10 a.s.o.k2 a.s.o.k3 h
      obtain ⟨x1, x2, x3, x4⟩ := extra8_scale c hc.ne' F c0 y k1 a.s.o.k7 a.s.o.k8 a.s.o.k9 a.s.o.k10 a.s.o.k2 a.s.o.k3 a.k4 a.s.o.k6 x h
      simp only [dop853Kernel, sD8SA, sD8S, sStages8, if_true, d0, d1, d2, d3, d4, d5, d6, d7, x1, x2, x3, x4]
      obtain ⟨f4, f5, f6, f7⟩ := dense28_scale c
        (Gen.Dop853.dense1 (y := y) (k5 := a.s.c.k5) (h := h) (k1 := k1) (k4 := a.k4) (k6 := a.s.o.k6) (k7 := a.s.o.k7) (k8 := a.s.o.k8) (k9 := a.s.o.k9) (k10 := a.s.o.k10) (k2 := a.s.o.k2) (k3 := a.s.o.k3)).cont4
        a.k4
        (Gen.Dop853.extraStages (f := fun j => F (c0 + j)) (y := y) (h := h) (k1 := k1) (k7 := a.s.o.k7) (k8 := a.s.o.k8) (k9 := a.s.o.k9) (k10 := a.s.o.k10) (k2 := a.s.o.k2) (k3 := a.s.o.k3) (k4 := a.k4) (x := x) (k6 := a.s.o.k6)).k10
        (Gen.Dop853.extraStages (f := fun j => F (c0 + j)) (y := y) (h := h) (k1 := k1) (k7 := a.s.o.k7) (k8 := a.s.o.k8) (k9 := a.s.o.k9) (k10 := a.s.o.k10) (k2 := a.s.o.k2) (k3 := a.s.o.k3) (k4 := a.k4) (x := x) (k6 := a.s.o.k6)).k2
        (Gen.Dop853.extraStages (f := fun j => F (c0 + j)) (y := y) (h := h) (k1 := k1) (k7 := a.s.o.k7) (k8 := a.s.o.k8) (k9 := a.s.o.k9) (k10 := a.s.o.k10) (k2 := a.s.o.k2) (k3 := a.s.o.k3) (k4 := a.k4) (x := x) (k6 := a.s.o.k6)).k3
        (Gen.Dop853.dense1 (y := y) (k5 := a.s.c.k5) (h := h) (k1 := k1) (k4 := a.k4) (k6 := a.s.o.k6) (k7 := a.s.o.k7) (k8 := a.s.o.k8) (k9 := a.s.o.k9) (k10 := a.s.o.k10) (k2 := a.s.o.k2) (k3 := a.s.o.k3)).cont5
        (Gen.Dop853.dense1 (y := y) (k5 := a.s.c.k5) (h := h) (k1 := k1) (k4 := a.k4) (k6 := a.s.o.k6) (k7 := a.s.o.k7) (k8 := a.s.o.k8) (k9 := a.s.o.k9) (k10 := a.s.o.k10) (k2 := a.s.o.k2) (k3 := a.s.o.k3)).cont6
        (Gen.Dop853.dense1 (y := y) (k5 := a.s.c.k5) (h := h) (k1 := k1) (k4 := a.k4) (k6 := a.s.o.k6) (k7 := a.s.o.k7) (k8 := a.s.o.k8) (k9 := a.s.o.k9) (k10 := a.s.o.k10) (k2 := a.s.o.k2) (k3 := a.s.o.k3)).cont7
        h
      simp only [f4, f5, f6, f7]
      simp
  interp := by
    intro F c0 a x h y k1 xold hh t
    simp [dop853Kernel, interp8_scale]

/-- **Whole runs of DOP853 under a scaling of state and atol by `c > 0`.** -/
theorem dop853Solve_scale {σ : Type} (c : K) (hc : 0 < c) (L : HLits K) (xend posneg uround safety scaleMin scaleMax beta hmax : K)
    (nmax nstiff : Nat) (dense : Bool) (atol rtol : Vec K n) (f : Rhs K n) (ob : Obs σ K n) (obs0 : σ) (x0 : K) (y0 : Vec K n)
    (firstStep : Option K) (hmaxArg : K) (iord : Nat) (fo hl : K) (fuel : Nat) :
    hSolve (dop853Params L xend posneg uround safety scaleMin scaleMax beta hmax nmax nstiff dense) (dop853Kernel (vsmul c atol) rtol)
        (sRhs c f) (sObs c ob) obs0 x0 (vsmul c y0) firstStep (hinitCall (vsmul c atol) rtol x0 (vsmul c y0) posneg hmaxArg iord) fo hl fuel
      = (hSolve (dop853Params L xend posneg uround safety scaleMin scaleMax beta hmax nmax nstiff dense) (dop853Kernel atol rtol)
        f ob obs0 x0 y0 firstStep (hinitCall atol rtol x0 y0 posneg hmaxArg iord) fo hl fuel).map (sResult c) :=
  hSolve_scale c hc.ne' _ _ _ (dop853KScale c hc atol rtol) f ob obs0 x0 y0 firstStep _ _ (hinitCall_scale c hc atol rtol x0 y0 posneg hmaxArg iord) fo hl fuel

end
end Ctl
