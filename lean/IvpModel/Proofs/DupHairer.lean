import IvpModel.Proofs.DupBase
import IvpModel.Model.Kernels
set_option linter.unusedSectionVars false
set_option linter.unusedSimpArgs false
set_option linter.unusedTactic false
set_option linter.unnecessarySeqFocus false
set_option linter.unusedVariables false

/-!
  C13, whole runs of the DOPRI5 / DOP853 skeleton on `m` stacked copies of a system, with a given first step (the automatic one
  depends on the number of copies: open finding c13-copies-autostep), for ANY pair of kernels related by the duplication laws
  `KDup` (think: the same method in dimensions `n` and `m·n` with stacked tolerances): the step points, step sizes, error
  estimates, accept / reject decisions, statuses and counters are those of the single system; every state is the stacked state.
-/
namespace Ctl
noncomputable section
variable {K : Type} [Field K] [LinearOrder K] [IsStrictOrderedRing K] [SqrtPow K] {n : Nat}
variable (m : Nat) (hn : 0 < n)

/-- the same controller in dimension `m·n` -/
def castP (P : HParams K n) : HParams K (m * n) :=
  { xend := P.xend, posneg := P.posneg, uround := P.uround, safety := P.safety, facc1 := P.facc1, facc2 := P.facc2, beta := P.beta,
    expo1 := P.expo1, hmax := P.hmax, nmax := P.nmax, nstiff := P.nstiff, dense := P.dense, stiffLimit := P.stiffLimit, one := P.one,
    quarter := P.quarter, half := P.half, threeq := P.threeq, underflow := P.underflow, underflowDec := P.underflowDec, lastG := P.lastG,
    lastDec := P.lastDec, hnewCalc := P.hnewCalc, hReject := P.hReject, facoldNew := P.facoldNew }

/-- duplication laws relating a kernel in dimension `n` and one in dimension `m·n` -/
structure KDup (Kn : HKernel K n) (Kn' : HKernel K (m * n)) where
  dS : Kn.S → Kn'.S
  dSA : Kn.SA → Kn'.SA
  trial : ∀ (F : Rhs K (m * n)) (f : Rhs K n) (hF : DupRhs m hn F f) (x h : K) (last : Bool) (xend : K) (y k1 : Vec K n),
    Kn'.trial F x h last xend (dupV m hn y) (dupV m hn k1)
      = (dS (Kn.trial f x h last xend y k1).1, (Kn.trial f x h last xend y k1).2.1.map (dcl m hn), (Kn.trial f x h last xend y k1).2.2)
  err : ∀ (s : Kn.S) (y : Vec K n) (h : K), Kn'.err (dS s) (dupV m hn y) h = Kn.err s y h
  acceptA : ∀ (F : Rhs K (m * n)) (f : Rhs K n) (hF : DupRhs m hn F f) (s : Kn.S) (x h : K) (y k1 : Vec K n),
    Kn'.acceptA F (dS s) x h (dupV m hn y) (dupV m hn k1)
      = (dSA (Kn.acceptA f s x h y k1).1, (Kn.acceptA f s x h y k1).2.1.map (dcl m hn), (Kn.acceptA f s x h y k1).2.2)
  hlamb : ∀ (a : Kn.SA) (h : K) (y k1 : Vec K n) (old : K), Kn'.hlamb (dSA a) h (dupV m hn y) (dupV m hn k1) old = Kn.hlamb a h y k1 old
  acceptB : ∀ (F : Rhs K (m * n)) (f : Rhs K n) (hF : DupRhs m hn F f) (d : Bool) (a : Kn.SA) (x h : K) (y k1 : Vec K n),
    Kn'.acceptB F d (dSA a) x h (dupV m hn y) (dupV m hn k1)
      = (dupV m hn (Kn.acceptB f d a x h y k1).1, dupV m hn (Kn.acceptB f d a x h y k1).2.1,
         (Kn.acceptB f d a x h y k1).2.2.1.map (dupV m hn), (Kn.acceptB f d a x h y k1).2.2.2.1.map (dcl m hn),
         (Kn.acceptB f d a x h y k1).2.2.2.2)
  interp : ∀ (f : Rhs K n) (a : Kn.SA) (x h : K) (y k1 : Vec K n) (xold hh t : K),
    Kn'.interp ((Kn.acceptB f true a x h y k1).2.2.1.map (dupV m hn)) xold hh t
      = dupV m hn (Kn.interp (Kn.acceptB f true a x h y k1).2.2.1 xold hh t)

def dHS {σ : Type} (s : HState σ K n) : HState σ K (m * n) :=
  { x := s.x, h := s.h, y := dupV m hn s.y, k1 := dupV m hn s.k1, facold := s.facold, last := s.last, reject := s.reject,
    nonstiff := s.nonstiff, iasti := s.iasti, hlamb := s.hlamb, m := dMeter m hn s.m, obs := s.obs }
def dOutH {σ : Type} : Sum (HState σ K n) (Result σ K n) → Sum (HState σ K (m * n)) (Result σ K (m * n))
  | .inl s => .inl (dHS m hn s)
  | .inr r => .inr (dResult m hn r)

theorem hGuard_dup {σ : Type} (P : HParams K n) (s : HState σ K n) : hGuard (castP m P) (dHS m hn s) = hGuard P s := rfl
theorem hAdjust_dup {σ : Type} (P : HParams K n) (s : HState σ K n) : hAdjust (castP m P) (dHS m hn s) = hAdjust P s := rfl

def dHT {Kn : HKernel K n} {Kn' : HKernel K (m * n)} (KD : KDup m hn Kn Kn') (T : HTrial K n Kn.S) : HTrial K (m * n) Kn'.S :=
  { S := KD.dS T.S, m := dMeter m hn T.m, err := T.err, fac11 := T.fac11, hnew := T.hnew }

theorem hTrial_dup {σ : Type} (P : HParams K n) (Kn : HKernel K n) (Kn' : HKernel K (m * n)) (KD : KDup m hn Kn Kn')
    (F : Rhs K (m * n)) (f : Rhs K n) (hF : DupRhs m hn F f) (s : HState σ K n) (h : K) (L : Bool) :
    hTrial (castP m P) Kn' F (dHS m hn s) h L = dHT m hn KD (hTrial P Kn f s h L) := by
  unfold hTrial dHT
  dsimp only [dHS, castP]
  simp only [dMeter_ncalls, KD.trial _ _ (hF.shift m hn s.m.ncalls), KD.err]
  congr 1
  rw [dMeter_bump]
  rfl

theorem hRejected_dup {σ : Type} (P : HParams K n) (s : HState σ K n) (h : K) (M : Meter K n) (fac11 : K) :
    hRejected (castP m P) (dHS m hn s) h (dMeter m hn M) fac11 = dHS m hn (hRejected P s h M fac11) := by
  unfold hRejected
  simp only [dHS, dMeter_cnt, castP]
  congr 1
  by_cases hc : M.cnt.accepted > 1
  · simp only [hc, if_true, dMeter_incRejected]
  · simp only [hc, if_false]

theorem hStiffTest_dup {σ : Type} (P : HParams K n) (Kn : HKernel K n) (Kn' : HKernel K (m * n)) (KD : KDup m hn Kn Kn')
    (s : HState σ K n) (h : K) (sa : Kn.SA) (acc : Nat) :
    hStiffTest (castP m P) Kn' (dHS m hn s) h (KD.dSA sa) acc = hStiffTest P Kn s h sa acc := by
  unfold hStiffTest
  dsimp only [dHS, castP]
  simp only [KD.hlamb]
  rfl

theorem hFinish_dup {σ : Type} (P : HParams K n) (Kn : HKernel K n) (Kn' : HKernel K (m * n)) (KD : KDup m hn Kn Kn')
    (F : Rhs K (m * n)) (f : Rhs K n) (hF : DupRhs m hn F f) (Ob : Obs σ K (m * n)) (ob : Obs σ K n) (hOb : DupObs m hn Ob ob)
    (s : HState σ K n) (h : K) (last : Bool) (hnew facold hlamb : K) (nonstiff iasti : Nat) (sa : Kn.SA) (M : Meter K n) :
    hFinish (castP m P) Kn' F Ob (dHS m hn s) h last hnew facold hlamb nonstiff iasti (KD.dSA sa) (dMeter m hn M)
      = dOutH m hn (hFinish P Kn f ob s h last hnew facold hlamb nonstiff iasti sa M) := by
  obtain ⟨xend, posneg, uround, safety, facc1, facc2, beta, expo1, hmax, nmax, nstiff, dns, stiffLimit, one, q1, q2, q3, uf, ufd, lg, lgd, hcalc, hr, fo⟩ := P
  obtain ⟨x, hs, y, k1, facold0, last0, reject, nonstiff0, iasti0, hlamb0, m0, obs⟩ := s
  unfold hFinish
  dsimp (config := { instances := true }) only [dHS, castP]
  simp only [dMeter_ncalls, KD.acceptB _ _ (hF.shift m hn M.ncalls)]
  have hip : (if dns = true then some (Kn'.interp ((Kn.acceptB (fun j => f (M.ncalls + j)) dns sa x h y k1).2.2.1.map (dupV m hn)) x h) else none)
      = dIp m hn (if dns = true then some (Kn.interp (Kn.acceptB (fun j => f (M.ncalls + j)) dns sa x h y k1).2.2.1 x h) else none) := by
    cases dns with
    | false => rfl
    | true =>
      simp only [if_true, dIp, Option.map]
      congr 1
      funext t
      exact KD.interp (fun j => f (M.ncalls + j)) sa x h y k1 x h t
  generalize Kn.acceptB (fun j => f (M.ncalls + j)) dns sa x h y k1 = B at hip ⊢
  obtain ⟨b1, b2, b3, b4, b5⟩ := B
  dsimp only at hip ⊢
  rw [hip]
  generalize (if dns = true then some (Kn.interp b3 x h) else none) = IP
  rw [sampleInterp_dup, ← dMeter_bump, ← dMeter_cb, afterCb_dup m hn F f hF Ob ob hOb]
  cases afterCb f ob obs ((M.bump b4 b5).cb x (landX last xend x h) b1 (sampleInterp IP x (landX last xend x h) q1 q2 q3)) x (landX last xend x h) b1 IP b2 with
  | stop o yy => rfl
  | go o yy kk mm =>
    simp only [dAfter]
    cases last with
    | true => rfl
    | false => rfl

theorem hAccepted_dup {σ : Type} (P : HParams K n) (Kn : HKernel K n) (Kn' : HKernel K (m * n)) (KD : KDup m hn Kn Kn')
    (F : Rhs K (m * n)) (f : Rhs K n) (hF : DupRhs m hn F f) (Ob : Obs σ K (m * n)) (ob : Obs σ K n) (hOb : DupObs m hn Ob ob)
    (s : HState σ K n) (h : K) (last : Bool) (T : HTrial K n Kn.S) :
    hAccepted (castP m P) Kn' F Ob (dHS m hn s) h last (dHT m hn KD T) = dOutH m hn (hAccepted P Kn f ob s h last T) := by
  unfold hAccepted
  have hA := KD.acceptA _ _ (hF.shift m hn T.m.incAccepted.ncalls) T.S s.x h s.y s.k1
  have e0 : (dHT m hn KD T).m.incAccepted.ncalls = T.m.incAccepted.ncalls := rfl
  have e1 : (dHT m hn KD T).S = KD.dS T.S := rfl
  have e2 : (dHT m hn KD T).m.incAccepted = dMeter m hn T.m.incAccepted := rfl
  have e3 : (dHT m hn KD T).hnew = T.hnew := rfl
  have e4 : (dHT m hn KD T).err = T.err := rfl
  have ex : (dHS m hn s).x = s.x := rfl
  have ey : (dHS m hn s).y = dupV m hn s.y := rfl
  have ek : (dHS m hn s).k1 = dupV m hn s.k1 := rfl
  have eo : (dHS m hn s).obs = s.obs := rfl
  have ef : (castP m P).facoldNew = P.facoldNew := rfl
  simp only [e0, e1, e2, e3, e4, ex, ey, ek, eo, ef, dMeter_ncalls, hA, ← dMeter_bump, hStiffTest_dup, dMeter_cnt]
  generalize Kn.acceptA (fun j => f (T.m.incAccepted.ncalls + j)) T.S s.x h s.y s.k1 = A
  obtain ⟨a1, a2, a3⟩ := A
  dsimp only
  generalize hStiffTest P Kn s h a1 (T.m.incAccepted.bump a2 a3).cnt.accepted = ST
  obtain ⟨st1, st2, st3, st4⟩ := ST
  dsimp only
  cases st4 with
  | true => rfl
  | false =>
    simp only [Bool.false_eq_true, if_false]
    exact hFinish_dup m hn P Kn Kn' KD F f hF Ob ob hOb s h last T.hnew (P.facoldNew T.err) st1 st2 st3 a1 (T.m.incAccepted.bump a2 a3)

/-- **C13, one pass of the DOPRI5 / DOP853 loop on `m` stacked copies.** -/
theorem hIter_dup {σ : Type} (P : HParams K n) (Kn : HKernel K n) (Kn' : HKernel K (m * n)) (KD : KDup m hn Kn Kn')
    (F : Rhs K (m * n)) (f : Rhs K n) (hF : DupRhs m hn F f) (Ob : Obs σ K (m * n)) (ob : Obs σ K n) (hOb : DupObs m hn Ob ob)
    (s : HState σ K n) :
    hIter (castP m P) Kn' F Ob (dHS m hn s) = dOutH m hn (hIter P Kn f ob s) := by
  unfold hIter
  rw [hGuard_dup m hn P s]
  cases hg : hGuard P s with
  | some st => rfl
  | none =>
    dsimp only
    rw [hAdjust_dup m hn P s]
    rw [hTrial_dup m hn P Kn Kn' KD F f hF s]
    generalize hTrial P Kn f s (hAdjust P s).1 (hAdjust P s).2 = T
    have he : (dHT m hn KD T).err = T.err := rfl
    have ho : (castP m P).one = P.one := rfl
    rw [he, ho]
    by_cases hacc : T.err ≤ P.one
    · rw [if_pos hacc, if_pos hacc]
      exact hAccepted_dup m hn P Kn Kn' KD F f hF Ob ob hOb s _ _ T
    · rw [if_neg hacc, if_neg hacc]
      show Sum.inl _ = Sum.inl _
      congr 1
      exact hRejected_dup m hn P s _ T.m T.fac11

theorem hLoop_dup {σ : Type} (P : HParams K n) (Kn : HKernel K n) (Kn' : HKernel K (m * n)) (KD : KDup m hn Kn Kn')
    (F : Rhs K (m * n)) (f : Rhs K n) (hF : DupRhs m hn F f) (Ob : Obs σ K (m * n)) (ob : Obs σ K n) (hOb : DupObs m hn Ob ob) :
    ∀ (fuel : Nat) (s : HState σ K n),
      hLoop (castP m P) Kn' F Ob fuel (dHS m hn s) = (hLoop P Kn f ob fuel s).map (dResult m hn) := by
  intro fuel
  induction fuel with
  | zero => intro s; rfl
  | succ fuel ih =>
    intro s
    unfold hLoop
    rw [hIter_dup m hn P Kn Kn' KD F f hF Ob ob hOb s]
    cases hq : hIter P Kn f ob s with
    | inr r => rfl
    | inl s' => exact ih s'

theorem hStart_dup {σ : Type} (P : HParams K n) (F : Rhs K (m * n)) (f : Rhs K n) (hF : DupRhs m hn F f) (Ob : Obs σ K (m * n))
    (ob : Obs σ K n) (hOb : DupObs m hn Ob ob) (obs0 : σ) (x0 : K) (y0 : Vec K n) (h0 : K)
    (hinit : Rhs K n → Vec K n → K × Array (K × Vec K n)) (hinit' : Rhs K (m * n) → Vec K (m * n) → K × Array (K × Vec K (m * n))) (fo hl : K) :
    hStart (castP m P) F Ob obs0 x0 (dupV m hn y0) (some h0) hinit' fo hl = dOutH m hn (hStart P f ob obs0 x0 y0 (some h0) hinit fo hl) := by
  unfold hStart startMeter
  have hk : F 0 x0 (dupV m hn y0) = dupV m hn (f 0 x0 y0) := hF 0 x0 y0
  have hm0 : (({} : Meter K (m * n)).bump #[(x0, dupV m hn y0)] 1) = dMeter m hn (({} : Meter K n).bump #[(x0, y0)] 1) := by
    rw [dMeter_bump]; simp [dMeter, dcl]
  dsimp only
  rw [hk, hm0]
  have hcb : (dMeter m hn (({} : Meter K n).bump #[(x0, y0)] 1)).cb x0 x0 (dupV m hn y0) #[] = dMeter m hn ((({} : Meter K n).bump #[(x0, y0)] 1).cb x0 x0 y0 #[]) := by
    rw [dMeter_cb]; simp
  rw [hcb]
  have ha := afterCb_dup m hn F f hF Ob ob hOb obs0 ((({} : Meter K n).bump #[(x0, y0)] 1).cb x0 x0 y0 #[]) x0 x0 y0 none (f 0 x0 y0)
  rw [show dIp m hn (none : Option (K → Vec K n)) = none from rfl] at ha
  rw [ha]
  cases afterCb f ob obs0 ((({} : Meter K n).bump #[(x0, y0)] 1).cb x0 x0 y0 #[]) x0 x0 y0 none (f 0 x0 y0) with
  | stop o yy => rfl
  | go o yy kk mm => rfl

/-- **C13, whole runs of the DOPRI5 / DOP853 skeleton on `m` stacked copies, given first step.** -/
theorem hSolve_dup {σ : Type} (P : HParams K n) (Kn : HKernel K n) (Kn' : HKernel K (m * n)) (KD : KDup m hn Kn Kn')
    (F : Rhs K (m * n)) (f : Rhs K n) (hF : DupRhs m hn F f) (Ob : Obs σ K (m * n)) (ob : Obs σ K n) (hOb : DupObs m hn Ob ob)
    (obs0 : σ) (x0 : K) (y0 : Vec K n) (h0 : K)
    (hinit : Rhs K n → Vec K n → K × Array (K × Vec K n)) (hinit' : Rhs K (m * n) → Vec K (m * n) → K × Array (K × Vec K (m * n)))
    (fo hl : K) (fuel : Nat) :
    hSolve (castP m P) Kn' F Ob obs0 x0 (dupV m hn y0) (some h0) hinit' fo hl fuel
      = (hSolve P Kn f ob obs0 x0 y0 (some h0) hinit fo hl fuel).map (dResult m hn) := by
  unfold hSolve
  rw [hStart_dup m hn P F f hF Ob ob hOb obs0 x0 y0 h0 hinit hinit' fo hl]
  cases hq : hStart P f ob obs0 x0 y0 (some h0) hinit fo hl with
  | inr r => rfl
  | inl s => exact hLoop_dup m hn P Kn Kn' KD F f hF Ob ob hOb fuel s

end
end Ctl
