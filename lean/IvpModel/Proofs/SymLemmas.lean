/-
  Symmetries of the explicit Runge–Kutta schemes and of the error norms, in exact arithmetic (any ordered field):
  time reflection, scaling of the state, duplication into copies.  Generic in the tableau; the per-method corollaries
  go through the stage-equation theorems of StageEqs*.lean, i.e. they are statements about the *translated* code.
-/
import IvpModel.Proofs.StageEqs
import IvpModel.Proofs.StageEqs853
import Mathlib.Algebra.BigOperators.Fin
import Mathlib.Algebra.BigOperators.Ring.Finset
import Mathlib.Algebra.Order.BigOperators.Ring.Finset
import IvpModel.Gen.Common

noncomputable section
variable {K : Type} [Field K] [LinearOrder K] [IsStrictOrderedRing K] [SqrtPow K]

/-! ### linearity of a tableau row -/
theorem sum_map_neg_aux {n : Nat} (ps : List (QQ × Nat)) (Kv : Nat → Vector K n) (i : Fin n) :
    (ps.map fun p => qval p.1 * (-(Kv p.2)[i])).sum = -(ps.map fun p => qval p.1 * (Kv p.2)[i]).sum := by
  induction ps with
  | nil => simp
  | cons p ps ih => rw [List.map_cons, List.sum_cons, ih, List.map_cons, List.sum_cons]; ring

theorem sum_map_smul_aux {n : Nat} (c : K) (ps : List (QQ × Nat)) (Kv : Nat → Vector K n) (i : Fin n) :
    (ps.map fun p => qval p.1 * (c * (Kv p.2)[i])).sum = c * (ps.map fun p => qval p.1 * (Kv p.2)[i]).sum := by
  induction ps with
  | nil => simp
  | cons p ps ih => rw [List.map_cons, List.sum_cons, ih, List.map_cons, List.sum_cons]; ring

theorem rowDot_neg {n : Nat} (row : List QQ) (Kv : Nat → Vector K n) (i : Fin n) :
    rowDot row (fun l => Vector.ofFn fun j => -(Kv l)[j]) i = -rowDot row Kv i := by
  unfold rowDot
  rw [← sum_map_neg_aux]
  congr 1
  apply List.map_congr_left
  intro p _
  simp

theorem rowDot_smul {n : Nat} (c : K) (row : List QQ) (Kv : Nat → Vector K n) (i : Fin n) :
    rowDot row (fun l => Vector.ofFn fun j => c * (Kv l)[j]) i = c * rowDot row Kv i := by
  unfold rowDot
  rw [← sum_map_smul_aux]
  congr 1
  apply List.map_congr_left
  intro p _
  simp

def vneg {n : Nat} (v : Vector K n) : Vector K n := Vector.ofFn fun j => -v[j]
def vsmul {n : Nat} (c : K) (v : Vector K n) : Vector K n := Vector.ofFn fun j => c * v[j]

/-- **time reflection, one stage.**  With negated abscissa, step and stage derivatives (the derivatives of
    `z'(s) = −f(−s, z)` along the mirrored trajectory), every stage is evaluated at the mirrored time and at the *same*
    state. -/
theorem rkArg_reflect {n : Nat} (T : QTableau) (x h : K) (y : Vector K n) (Kv : Nat → Vector K n) (j : Nat) :
    rkArg T (-x) (-h) y (fun l => vneg (Kv l)) j = (-(rkArg T x h y Kv j).1, (rkArg T x h y Kv j).2) := by
  unfold rkArg vneg
  refine Prod.ext (by simp; ring) ?_
  ext i hi
  simp only [Vector.getElem_ofFn]
  rw [rowDot_neg]; ring

theorem rkNew_reflect {n : Nat} (T : QTableau) (h : K) (y : Vector K n) (Kv : Nat → Vector K n) :
    rkNew T (-h) y (fun l => vneg (Kv l)) = rkNew T h y Kv := by
  unfold rkNew vneg
  ext i hi
  simp only [Vector.getElem_ofFn]
  rw [rowDot_neg]; ring

/-- **state scaling, one stage** (linear homogeneous right-hand side: derivatives scale with the state) -/
theorem rkArg_scale {n : Nat} (T : QTableau) (c x h : K) (y : Vector K n) (Kv : Nat → Vector K n) (j : Nat) :
    rkArg T x h (vsmul c y) (fun l => vsmul c (Kv l)) j = ((rkArg T x h y Kv j).1, vsmul c (rkArg T x h y Kv j).2) := by
  unfold rkArg vsmul
  refine Prod.ext rfl ?_
  ext i hi
  simp only [Vector.getElem_ofFn, Fin.getElem_fin]
  have e := rowDot_smul c (T.A.getD j []) Kv ⟨i, hi⟩
  simp only [Fin.getElem_fin] at e
  rw [e]; ring

theorem rkNew_scale {n : Nat} (T : QTableau) (c h : K) (y : Vector K n) (Kv : Nat → Vector K n) :
    rkNew T h (vsmul c y) (fun l => vsmul c (Kv l)) = vsmul c (rkNew T h y Kv) := by
  unfold rkNew vsmul
  ext i hi
  simp only [Vector.getElem_ofFn, Fin.getElem_fin]
  have e := rowDot_smul c T.b Kv ⟨i, hi⟩
  simp only [Fin.getElem_fin] at e
  rw [e]; ring

theorem kOf_vneg {n : Nat} (k1 : Vector K n) (Kc : Nat → Vector K n) :
    kOf (vneg k1) (fun j => vneg (Kc j)) = fun l => vneg (kOf k1 Kc l) := by
  funext l; unfold kOf; split <;> rfl

theorem kOf_vsmul {n : Nat} (c : K) (k1 : Vector K n) (Kc : Nat → Vector K n) :
    kOf (vsmul c k1) (fun j => vsmul c (Kc j)) = fun l => vsmul c (kOf k1 Kc l) := by
  funext l; unfold kOf; split <;> rfl

/-- mirror image of a recorded call -/
def mirror {n : Nat} (p : K × Vector K n) : K × Vector K n := (-p.1, p.2)

/-! ### the translated stage regions under reflection and scaling -/
section methods

theorem rk4_stages_reflect {n : Nat} (Kc : Nat → Vector K n) (y k1 : Vector K n) (x h : K) (last : Bool) (xend : K)
    (hl : last = true → xend = x + h) :
    (Gen.Rk4.stages (f := openF fun j => vneg (Kc j)) (y := y) (h := -h) (k1 := vneg k1) (x := -x) (last := last) (xend := -xend)).calls
      = (Gen.Rk4.stages (f := openF Kc) (y := y) (h := h) (k1 := k1) (x := x) (last := last) (xend := xend)).calls.map mirror := by
  have hl' : last = true → -xend = -x + -h := fun e => by rw [hl e]; ring
  rw [rk4_stage_eqs _ _ _ _ _ _ _ hl', rk4_stage_eqs _ _ _ _ _ _ _ hl, kOf_vneg]
  simp [rkArg_reflect, mirror]

theorem rk23_stages_reflect {n : Nat} (Kc : Nat → Vector K n) (y k1 : Vector K n) (x h : K) (last : Bool) (xend : K)
    (hl : last = true → xend = x + h) :
    (Gen.Rk23.stages (f := openF fun j => vneg (Kc j)) (y := y) (h := -h) (k1 := vneg k1) (x := -x) (last := last) (xend := -xend)).calls
      = (Gen.Rk23.stages (f := openF Kc) (y := y) (h := h) (k1 := k1) (x := x) (last := last) (xend := xend)).calls.map mirror ∧
    (Gen.Rk23.stages (f := openF fun j => vneg (Kc j)) (y := y) (h := -h) (k1 := vneg k1) (x := -x) (last := last) (xend := -xend)).yt
      = (Gen.Rk23.stages (f := openF Kc) (y := y) (h := h) (k1 := k1) (x := x) (last := last) (xend := xend)).yt := by
  have hl' : last = true → -xend = -x + -h := fun e => by rw [hl e]; ring
  rw [rk23_stage_eqs _ _ _ _ _ _ _ hl', rk23_stage_eqs _ _ _ _ _ _ _ hl, rk23_new_state, rk23_new_state, kOf_vneg]
  simp [rkArg_reflect, rkNew_reflect, mirror]

theorem dopri5_stages_reflect {n : Nat} (Kc : Nat → Vector K n) (y k1 : Vector K n) (x h : K) (last : Bool) (xend : K)
    (hl : last = true → xend = x + h) :
    (Gen.Dopri5.stages (f := openF fun j => vneg (Kc j)) (y := y) (h := -h) (k1 := vneg k1) (x := -x) (last := last) (xend := -xend)).calls
      = (Gen.Dopri5.stages (f := openF Kc) (y := y) (h := h) (k1 := k1) (x := x) (last := last) (xend := xend)).calls.map mirror ∧
    (Gen.Dopri5.stages (f := openF fun j => vneg (Kc j)) (y := y) (h := -h) (k1 := vneg k1) (x := -x) (last := last) (xend := -xend)).y1
      = (Gen.Dopri5.stages (f := openF Kc) (y := y) (h := h) (k1 := k1) (x := x) (last := last) (xend := xend)).y1 := by
  have hl' : last = true → -xend = -x + -h := fun e => by rw [hl e]; ring
  rw [dopri5_stage_eqs _ _ _ _ _ _ _ hl', dopri5_stage_eqs _ _ _ _ _ _ _ hl, dopri5_new_state _ _ _ _ _ _ _ hl', dopri5_new_state _ _ _ _ _ _ _ hl, kOf_vneg]
  simp [rkArg_reflect, rkNew_reflect, mirror]

theorem dop853_stages_reflect {n : Nat} (Kc : Nat → Vector K n) (y k1 : Vector K n) (x h : K) (last : Bool) (xend : K)
    (hl : last = true → xend = x + h) :
    (Gen.Dop853.stages (f := openF fun j => vneg (Kc j)) (y := y) (h := -h) (k1 := vneg k1) (x := -x) (last := last) (xend := -xend)).calls
      = (Gen.Dop853.stages (f := openF Kc) (y := y) (h := h) (k1 := k1) (x := x) (last := last) (xend := xend)).calls.map mirror := by
  have hl' : last = true → -xend = -x + -h := fun e => by rw [hl e]; ring
  rw [dop853_stage_eqs _ _ _ _ _ _ _ hl', dop853_stage_eqs _ _ _ _ _ _ _ hl, kOf_vneg]
  simp [rkArg_reflect, mirror]

theorem rk23_stages_scale {n : Nat} (c : K) (Kc : Nat → Vector K n) (y k1 : Vector K n) (x h : K) (last : Bool) (xend : K) :
    (Gen.Rk23.stages (f := openF fun j => vsmul c (Kc j)) (y := vsmul c y) (h := h) (k1 := vsmul c k1) (x := x) (last := last) (xend := xend)).yt
      = vsmul c (Gen.Rk23.stages (f := openF Kc) (y := y) (h := h) (k1 := k1) (x := x) (last := last) (xend := xend)).yt := by
  rw [rk23_new_state, rk23_new_state, kOf_vsmul, rkNew_scale]

theorem dopri5_stages_scale {n : Nat} (c : K) (Kc : Nat → Vector K n) (y k1 : Vector K n) (x h : K) (last : Bool) (xend : K)
    (hl : last = true → xend = x + h) :
    (Gen.Dopri5.stages (f := openF fun j => vsmul c (Kc j)) (y := vsmul c y) (h := h) (k1 := vsmul c k1) (x := x) (last := last) (xend := xend)).y1
      = vsmul c (Gen.Dopri5.stages (f := openF Kc) (y := y) (h := h) (k1 := k1) (x := x) (last := last) (xend := xend)).y1 := by
  rw [dopri5_new_state _ _ _ _ _ _ _ hl, dopri5_new_state _ _ _ _ _ _ _ hl, kOf_vsmul, rkNew_scale]
end methods

/-! ### the guards are mirror-symmetric -/
theorem dopri5_lastGuard_reflect (x h xend posneg : K) :
    Gen.Dopri5.lastGuard (-x) (-h) (-xend) (-posneg) ↔ Gen.Dopri5.lastGuard x h xend posneg := by
  unfold Gen.Dopri5.lastGuard
  simp only [num_lit]
  constructor <;> intro hh <;> nlinarith
theorem dop853_lastGuard_reflect (x h xend posneg : K) :
    Gen.Dop853.lastGuard (-x) (-h) (-xend) (-posneg) ↔ Gen.Dop853.lastGuard x h xend posneg := by
  unfold Gen.Dop853.lastGuard
  simp only [num_lit]
  constructor <;> intro hh <;> nlinarith
theorem rk23_lastGuard_reflect (x h xend posneg : K) :
    Gen.Rk23.lastGuard (-x) (-h) (-xend) (-posneg) ↔ Gen.Rk23.lastGuard x h xend posneg := by
  unfold Gen.Rk23.lastGuard
  simp only [num_lit]
  constructor <;> intro hh <;> nlinarith
theorem dopri5_underflow_reflect (h x u : K) :
    Gen.Dopri5.underflowGuard (-h) (-x) u ↔ Gen.Dopri5.underflowGuard h x u := by
  unfold Gen.Dopri5.underflowGuard; simp [num_abs]
theorem dop853_underflow_reflect (h x u : K) :
    Gen.Dop853.underflowGuard (-h) (-x) u ↔ Gen.Dop853.underflowGuard h x u := by
  unfold Gen.Dop853.underflowGuard; simp [num_abs]
theorem rk23_underflow_reflect (h x : K) :
    Gen.Rk23.underflowGuard (-h) (-x) ↔ Gen.Rk23.underflowGuard h x := by
  unfold Gen.Rk23.underflowGuard; simp [num_abs]

/-! ### sums -/
theorem foldl_add_eq_sum (n : Nat) (g : Fin n → K) (a : K) :
    Fin.foldl n (fun acc i => acc + g i) a = a + ∑ i, g i := by
  induction n with
  | zero => simp [Fin.foldl_zero]
  | succ n ih =>
    rw [Fin.foldl_succ_last, ih, Fin.sum_univ_castSucc]
    ring

/-- a sum over `m` stacked copies of an `n`-vector is `m` times the sum over one copy -/
theorem sum_copies (m n : Nat) (g : Fin n → K) (hn : 0 < n) :
    ∑ i : Fin (m * n), g ⟨i.val % n, Nat.mod_lt _ hn⟩ = (m : K) * ∑ j : Fin n, g j := by
  induction m with
  | zero =>
    have : IsEmpty (Fin (0 * n)) := by rw [Nat.zero_mul]; infer_instance
    simp [Finset.univ_eq_empty]
  | succ m ih =>
    have e : (m + 1) * n = m * n + n := by ring
    rw [← Fin.sum_congr' _ e.symm, Fin.sum_univ_add]
    have h1 : ∑ i : Fin (m * n), g ⟨(Fin.cast e.symm (Fin.castAdd n i)).val % n, Nat.mod_lt _ hn⟩
        = ∑ i : Fin (m * n), g ⟨i.val % n, Nat.mod_lt _ hn⟩ := by
      apply Finset.sum_congr rfl; intro i _; rfl
    have h2 : ∑ i : Fin n, g ⟨(Fin.cast e.symm (Fin.natAdd (m * n) i)).val % n, Nat.mod_lt _ hn⟩ = ∑ i : Fin n, g i := by
      apply Finset.sum_congr rfl; intro i _
      congr 1
      apply Fin.ext
      simp [Nat.mul_add_mod, Nat.mod_eq_of_lt i.isLt]
    rw [h1, h2, ih]
    push_cast; ring

/-! ### the stiffness-detection quotient is mirror-symmetric -/
theorem sq_neg_sub (a b : K) : (-a - -b) * (-a - -b) = (a - b) * (a - b) := by ring
theorem neg_h_comb (h a b c d e k1 k2 k3 k4 k5 : K) :
    -h * (a * -k1 + b * -k2 + c * -k3 + d * -k4 + e * -k5) = h * (a * k1 + b * k2 + c * k3 + d * k4 + e * k5) := by ring

theorem dop853_stiff_reflect {n : Nat} (k4 k3 k5 y1 : Vector K n) (h hl : K) :
    (Gen.Dop853.stiff (k4 := vneg k4) (k3 := vneg k3) (k5 := k5) (y1 := y1) (h := -h) (hlamb := hl)).hlamb
      = (Gen.Dop853.stiff (k4 := k4) (k3 := k3) (k5 := k5) (y1 := y1) (h := h) (hlamb := hl)).hlamb := by
  simp only [Gen.Dop853.stiff, Gen.Dop853.stiff_loop1, vneg, Vector.getElem_ofFn, Fin.getElem_fin, sq_neg_sub, num_abs, abs_neg]
  rfl

theorem dopri5_stiff_reflect {n : Nat} (k2 k6 y1 ysti : Vector K n) (h hl : K) :
    (Gen.Dopri5.stiff (k2 := vneg k2) (k6 := vneg k6) (y1 := y1) (ysti := ysti) (h := -h) (hlamb := hl)).hlamb
      = (Gen.Dopri5.stiff (k2 := k2) (k6 := k6) (y1 := y1) (ysti := ysti) (h := h) (hlamb := hl)).hlamb := by
  simp only [Gen.Dopri5.stiff, Gen.Dopri5.stiff_loop1, vneg, Vector.getElem_ofFn, Fin.getElem_fin, sq_neg_sub, num_abs, abs_neg]
  rfl

/-! ### the automatic first step (`hinit`) under time reflection -/

theorem vneg_get {n : Nat} (v : Vector K n) (i : Fin n) : (vneg v)[i] = -v[i] := by simp [vneg]

theorem hinit_loop1_even {n : Nat} (dnf dny : K) (atol rtol y f0 : Vector K n) :
    Gen.Common.hinit_loop1 (dnf := dnf) (dny := dny) (atol := atol) (rtol := rtol) (y := y) (f0 := vneg f0)
      = Gen.Common.hinit_loop1 (dnf := dnf) (dny := dny) (atol := atol) (rtol := rtol) (y := y) (f0 := f0) := by
  unfold Gen.Common.hinit_loop1
  simp only [vneg_get, neg_div, neg_mul_neg]

theorem hinit_loop2_reflect {n : Nat} (h : K) (y f0 : Vector K n) :
    Gen.Common.hinit_loop2 (y := y) (h := -h) (f0 := vneg f0) = Gen.Common.hinit_loop2 (y := y) (h := h) (f0 := f0) := by
  unfold Gen.Common.hinit_loop2
  simp only [vneg_get, neg_mul_neg]

theorem hinit_loop3_even {n : Nat} (der2 : K) (atol rtol y f1 f0 : Vector K n) :
    Gen.Common.hinit_loop3 (der2 := der2) (atol := atol) (rtol := rtol) (y := y) (f1 := vneg f1) (f0 := vneg f0)
      = Gen.Common.hinit_loop3 (der2 := der2) (atol := atol) (rtol := rtol) (y := y) (f1 := f1) (f0 := f0) := by
  unfold Gen.Common.hinit_loop3
  have e : ∀ (a b s : K), ((-a - -b) / s) * ((-a - -b) / s) = ((a - b) / s) * ((a - b) / s) := by intro a b s; ring
  simp only [vneg_get, e]

theorem signum_neg (p : K) (hp : p ≠ 0) : Num.signum (-p) = -Num.signum p := by
  simp only [num_signum]
  rcases lt_or_gt_of_ne hp with h | h
  · have h1 : ¬ (0 ≤ p) := not_le.mpr h
    have h2 : 0 ≤ -p := by linarith
    simp [h1, h2]
  · have h1 : 0 ≤ p := h.le
    have h2 : ¬ (0 ≤ -p) := by simp; exact h
    simp [h1, h2]

/-- **C13, the automatic first step under time reflection.** -/
theorem hinit_reflect {n : Nat} (F1 : Vector K n) (atol rtol y f0 : Vector K n) (hmax posneg x : K) (iord : Nat) (hp : posneg ≠ 0) :
    (Gen.Common.hinit (f := fun _ _ _ => vneg F1) (atol := atol) (rtol := rtol) (y := y) (f0 := vneg f0) (hmax := hmax) (posneg := -posneg) (x := -x) (iord := iord)).1
      = -(Gen.Common.hinit (f := fun _ _ _ => F1) (atol := atol) (rtol := rtol) (y := y) (f0 := f0) (hmax := hmax) (posneg := posneg) (x := x) (iord := iord)).1
    ∧ (Gen.Common.hinit (f := fun _ _ _ => vneg F1) (atol := atol) (rtol := rtol) (y := y) (f0 := vneg f0) (hmax := hmax) (posneg := -posneg) (x := -x) (iord := iord)).2
      = (Gen.Common.hinit (f := fun _ _ _ => F1) (atol := atol) (rtol := rtol) (y := y) (f0 := f0) (hmax := hmax) (posneg := posneg) (x := x) (iord := iord)).2.map mirror := by
  unfold Gen.Common.hinit
  simp only [hinit_loop1_even, hinit_loop3_even, signum_neg posneg hp, mul_neg, hinit_loop2_reflect, abs_neg, num_abs]
  refine ⟨trivial, ?_⟩
  simp only [Array.map_push, Array.map_empty, mirror, neg_add]
