/-
  Lemmas about the handler model `Model/SolOut.lean` (exact arithmetic: any ordered field).
-/
import IvpModel.Proofs.FieldNum
import IvpModel.Model.SolOut
import Mathlib.Tactic.SplitIfs

namespace SolOutM
noncomputable section
variable {K : Type} [Field K] [LinearOrder K] [IsStrictOrderedRing K] [SqrtPow K]

/-- the literals of solout.rs read in a field: only their signs/values matter -/
structure LitsOK (L : Lits K) : Prop where
  zero : L.zero = 0
  tol_nonneg : 0 ≤ L.tol
  xtol_pos : 0 < L.xtol

/-! ### `crossed` means what the enum says (in the order of integration: `left` is the value at the earlier
    accepted point whatever the sign of the step) -/
theorem crossed_all (L : Lits K) (h0 : L.zero = 0) (l r : K) :
    crossed L l r .all = true ↔ (l ≤ 0 ∧ 0 ≤ r) ∨ (0 ≤ l ∧ r ≤ 0) := by
  simp [crossed, h0]
theorem crossed_positive (L : Lits K) (h0 : L.zero = 0) (l r : K) :
    crossed L l r .positive = true ↔ (l < 0 ∧ 0 ≤ r) := by
  simp [crossed, h0]
theorem crossed_negative (L : Lits K) (h0 : L.zero = 0) (l r : K) :
    crossed L l r .negative = true ↔ (0 < l ∧ r ≤ 0) := by
  simp [crossed, h0]

/-- a strict sign change in the configured direction is always detected; equal strict signs never are -/
theorem crossed_of_strict (L : Lits K) (h0 : L.zero = 0) (l r : K) :
    (l < 0 ∧ 0 < r → crossed L l r .all = true ∧ crossed L l r .positive = true ∧ crossed L l r .negative = false)
    ∧ (0 < l ∧ r < 0 → crossed L l r .all = true ∧ crossed L l r .negative = true ∧ crossed L l r .positive = false)
    ∧ ((0 < l ∧ 0 < r) ∨ (l < 0 ∧ r < 0) → ∀ d, crossed L l r d = false) := by
  refine ⟨?_, ?_, ?_⟩
  · rintro ⟨hl, hr⟩
    simp [crossed, h0, le_of_lt hl, le_of_lt hr, hl, not_lt.mpr (le_of_lt hl)]
  · rintro ⟨hl, hr⟩
    simp [crossed, h0, le_of_lt hl, le_of_lt hr, hl, hr, not_lt.mpr (le_of_lt hl), not_le.mpr hr]
  · intro h d
    rcases h with ⟨hl, hr⟩ | ⟨hl, hr⟩ <;> cases d <;> simp [crossed, h0, hl, hr, not_le.mpr hl, not_le.mpr hr, not_lt.mpr (le_of_lt hl), le_of_lt hl, le_of_lt hr]

/-! ### event location: endpoint shortcuts and the Brent branch -/
theorem locate_left (L : Lits K) (ip : Interp K) (gi : K → Array K → K) (xold x : K) (yold y : Array K) (gp gc : K)
    (hz : L.zero = 0) (h : gp = 0) : locate L ip gi xold x yold y gp gc = (xold, yold, #[]) := by
  simp [locate, h, hz]

theorem locate_right (L : Lits K) (ip : Interp K) (gi : K → Array K → K) (xold x : K) (yold y : Array K) (gp gc : K)
    (hz : L.zero = 0) (h1 : gp ≠ 0) (h2 : gc = 0) : locate L ip gi xold x yold y gp gc = (x, y, #[]) := by
  simp [locate, h1, h2, hz]

/-- in the Brent branch the reported state is the step interpolant evaluated at the reported time -/
theorem locate_state_is_interp (L : Lits K) (ip : Interp K) (gi : K → Array K → K) (xold x : K) (yold y : Array K) (gp gc : K)
    (hz : L.zero = 0) (h1 : gp ≠ 0) (h2 : gc ≠ 0) :
    (locate L ip gi xold x yold y gp gc).2.1 = ip.eval (locate L ip gi xold x yold y gp gc).1 := by
  simp [locate, h1, h2, hz]

/-! ### terminal events -/

@[simp] theorem pushSample_t (s : St K) (t : K) (y : Array K) : (pushSample s t y).t = s.t.push t := rfl
@[simp] theorem pushSample_y (s : St K) (t : K) (y : Array K) : (pushSample s t y).y = s.y.push y := rfl
@[simp] theorem pushSample_tEvents (s : St K) (t : K) (y : Array K) : (pushSample s t y).tEvents = s.tEvents := rfl

@[simp] theorem pushTerminal_tEvents (s : St K) (t : K) (y : Array K) : (pushTerminal s t y).tEvents = s.tEvents := by
  unfold pushTerminal; split <;> (try split) <;> rfl

/-- after `pushTerminal` the last sample time is the event time (pushed now, or it already was the last sample) -/
theorem pushTerminal_back (s : St K) (t : K) (y : Array K) : (pushTerminal s t y).t.back? = some t := by
  unfold pushTerminal
  split
  · rename_i last hl
    split
    · rename_i he
      have : last = t := by simpa using he
      rw [hl, this]
    · simp
  · simp

/-- sampling the due `t_eval` entries does not touch the event lists -/
theorem dueBeforeEvent_tEvents (fwd : Bool) (xold te : K) (ip : Interp K) (tev : Array K) :
    ∀ (f : Nat) (s : St K), (dueBeforeEvent fwd xold te ip tev f s).tEvents = s.tEvents := by
  intro f
  induction f with
  | zero => intro s; rfl
  | succ f ih =>
    intro s
    unfold dueBeforeEvent
    cases fwd <;> simp only [Bool.false_eq_true, if_false, if_true] <;> split_ifs <;> simp [ih]

theorem popBeyond_tEvents (fwd : Bool) (te : K) : ∀ (f : Nat) (s : St K), (popBeyond fwd te f s).tEvents = s.tEvents := by
  intro f
  induction f with
  | zero => intro s; rfl
  | succ f ih =>
    intro s
    unfold popBeyond
    split
    · dsimp only
      split_ifs <;> first | rfl | rw [ih]
    · rfl

theorem terminalSamples_tEvents (fwd : Bool) (xold x te : K) (ip : Option (Interp K)) (s : St K) :
    (terminalSamples fwd xold x te ip s).tEvents = s.tEvents := by
  unfold terminalSamples
  split
  · rw [dueBeforeEvent_tEvents, popBeyond_tEvents]
  · exact popBeyond_tEvents ..
  · split
    · dsimp only; split_ifs <;> rfl
    · rfl
  · rfl

/-- when a terminal event fires, the event point (time and state) is the final sample -/
theorem processEvs_fired (fwd : Bool) (xold x : K) (ip : Option (Interp K)) :
    ∀ (evs : List (K × Nat × Array K)) (s s' : St K), processEvs fwd xold x ip s evs = (s', true) →
      ∃ te ye i, (te, i, ye) ∈ evs ∧ s'.t.back? = some te := by
  intro evs
  induction evs with
  | nil => intro s s' h; simp [processEvs] at h
  | cons e rest ih =>
    intro s s' h
    obtain ⟨te, i, ye⟩ := e
    unfold processEvs at h
    split at h
    · injection h with h1 _
      refine ⟨te, ye, i, by simp, ?_⟩
      rw [← h1]; exact pushTerminal_back ..
    · obtain ⟨te', ye', i', hmem, h2⟩ := ih _ _ h
      exact ⟨te', ye', i', by simp [hmem], h2⟩

/-- events that sort after the terminal one are not recorded: the recorded events of a fired step are a prefix of the
    sorted list -/
theorem processEvs_prefix (fwd : Bool) (xold x : K) (ip : Option (Interp K)) :
    ∀ (evs : List (K × Nat × Array K)) (s s' : St K) (b : Bool), processEvs fwd xold x ip s evs = (s', b) →
      ∃ k, k ≤ evs.length ∧ (b = false → k = evs.length)
        ∧ s'.tEvents = ((evs.take k).foldl (fun (st : St K) e => recordEv st e.1 e.2.1 e.2.2) s).tEvents := by
  intro evs
  induction evs with
  | nil => intro s s' b h; simp [processEvs] at h; exact ⟨0, by simp, by simp, by rw [← h.1]; rfl⟩
  | cons e rest ih =>
    intro s s' b h
    obtain ⟨te, i, ye⟩ := e
    unfold processEvs at h
    split at h
    · injection h with h1 h2
      refine ⟨1, by simp, ?_, ?_⟩
      · intro hb; rw [← h2] at hb; cases hb
      · rw [← h1]
        simp [terminalSamples_tEvents]
    · obtain ⟨k, hk, hb, hev⟩ := ih _ _ _ h
      refine ⟨k + 1, ?_, ?_, ?_⟩
      · simp only [List.length_cons]; omega
      · intro h'; simp [hb h']
      · simpa using hev

/-- one unfolding of `popBeyond` with a non-empty sample list -/
theorem popBeyond_succ_some (fwd : Bool) (te : K) (f : Nat) (s : St K) (l0 : K) (hb : s.t.back? = some l0) :
    popBeyond fwd te (f + 1) s =
      if (if fwd then decide (l0 > te) else decide (l0 < te)) = true ∧ s.nextIdx ≠ 0
      then popBeyond fwd te f { s with t := s.t.pop, y := s.y.pop, nextIdx := s.nextIdx - 1 } else s := by
  rw [popBeyond]; simp only [hb]
theorem popBeyond_succ_none (fwd : Bool) (te : K) (f : Nat) (s : St K) (hb : s.t.back? = none) :
    popBeyond fwd te (f + 1) s = s := by
  rw [popBeyond]; simp only [hb]
theorem size_ne_zero_of_back (s : St K) (l0 : K) (hb : s.t.back? = some l0) : s.t.size ≠ 0 := by
  intro h0
  have : s.t = #[] := Array.eq_empty_of_size_eq_zero h0
  rw [this] at hb; simp at hb

/-- **every early-reported sample beyond a terminal event is taken back**, not just one: after `popBeyond` (run with the fuel the
    handler's `while let` has, more than the number of samples) the last remaining sample is not beyond the event — unless
    `next_idx` is 0, i.e. no requested time has been consumed and what remains are not requested-time samples -/
theorem popBeyond_last (fwd : Bool) (te : K) : ∀ (f : Nat) (s : St K), s.t.size < f → ∀ last,
    (popBeyond fwd te f s).t.back? = some last →
      ¬ ((if fwd then decide (last > te) else decide (last < te)) = true ∧ (popBeyond fwd te f s).nextIdx ≠ 0) := by
  intro f
  induction f with
  | zero => intro s h; omega
  | succ f ih =>
    intro s hsz last
    cases hb : s.t.back? with
    | none => rw [popBeyond_succ_none fwd te f s hb]; intro h; rw [hb] at h; cases h
    | some l0 =>
      rw [popBeyond_succ_some fwd te f s l0 hb]
      have hne := size_ne_zero_of_back s l0 hb
      by_cases hc : (if fwd then decide (l0 > te) else decide (l0 < te)) = true ∧ s.nextIdx ≠ 0
      · rw [if_pos hc]
        exact ih _ (by simp only [Array.size_pop]; omega) last
      · rw [if_neg hc]
        intro hl
        rw [hb] at hl
        injection hl with hl
        subst hl
        exact hc

/-- `popBeyond` only ever removes samples: what is left is an initial part of what was there, and `next_idx` goes down by the
    number removed -/
theorem popBeyond_prefix (fwd : Bool) (te : K) : ∀ (f : Nat) (s : St K),
    (popBeyond fwd te f s).t.toList = s.t.toList.take (popBeyond fwd te f s).t.size
      ∧ (popBeyond fwd te f s).t.size ≤ s.t.size
      ∧ (popBeyond fwd te f s).nextIdx + (s.t.size - (popBeyond fwd te f s).t.size) = s.nextIdx := by
  intro f
  induction f with
  | zero => intro s; simp [popBeyond]
  | succ f ih =>
    intro s
    cases hb : s.t.back? with
    | none => rw [popBeyond_succ_none fwd te f s hb]; simp
    | some l0 =>
      rw [popBeyond_succ_some fwd te f s l0 hb]
      have hne := size_ne_zero_of_back s l0 hb
      by_cases hc : (if fwd then decide (l0 > te) else decide (l0 < te)) = true ∧ s.nextIdx ≠ 0
      · rw [if_pos hc]
        obtain ⟨h1, h2, h3⟩ := ih { s with t := s.t.pop, y := s.y.pop, nextIdx := s.nextIdx - 1 }
        simp only [Array.size_pop] at h2 h3
        generalize popBeyond fwd te f { s with t := s.t.pop, y := s.y.pop, nextIdx := s.nextIdx - 1 } = r at h1 h2 h3 ⊢
        refine ⟨?_, by omega, ?_⟩
        · rw [h1]
          simp only [Array.toList_pop, List.dropLast_eq_take, List.take_take, Array.length_toList]
          congr 1
          omega
        · have := hc.2; omega
      · rw [if_neg hc]; simp

/-- the events of one step recorded in order -/
def recAll (s : St K) (l : List (K × Nat × Array K)) : St K := l.foldl (fun (st : St K) e => recordEv st e.1 e.2.1 e.2.2) s

/-- **the stop is at the first event that reaches its count**: of the (sorted) events of one step exactly the first `k` are recorded;
    when the handler interrupts, the `k`-th is an event whose function has reached its terminal count once it is recorded, and no
    earlier one had (in particular an occurrence of a counted terminal event that does not yet reach its count hides nothing that
    follows it); when it does not interrupt, none of them has and all are recorded -/
theorem processEvs_stops_at_first (fwd : Bool) (xold x : K) (ip : Option (Interp K)) :
    ∀ (evs : List (K × Nat × Array K)) (s s' : St K) (b : Bool), processEvs fwd xold x ip s evs = (s', b) →
      ∃ k, k ≤ evs.length ∧ s'.tEvents = (recAll s (evs.take k)).tEvents
        ∧ (b = false → k = evs.length)
        ∧ (b = true → 0 < k ∧ ∃ e, evs[k - 1]? = some e ∧ fires (recAll s (evs.take k)) e.2.1 = true)
        ∧ (∀ j e, j < (if b then k - 1 else k) → evs[j]? = some e → fires (recAll s (evs.take (j + 1))) e.2.1 = false) := by
  intro evs
  induction evs with
  | nil =>
    intro s s' b h; simp [processEvs] at h
    refine ⟨0, by simp, by rw [← h.1]; rfl, by simp, ?_, ?_⟩
    · intro hb; rw [hb] at h; exact absurd h.2 (by simp)
    · intro j e hj; cases b <;> simp at hj
  | cons e rest ih =>
    intro s s' b h
    obtain ⟨te, i, ye⟩ := e
    unfold processEvs at h
    split at h
    · rename_i hf
      injection h with h1 h2
      subst h2
      refine ⟨1, by simp, ?_, by simp, ?_, ?_⟩
      · rw [← h1]; simp [terminalSamples_tEvents, recAll]
      · intro _; exact ⟨by omega, (te, i, ye), by simp, by simpa [recAll] using hf⟩
      · intro j e hj; simp at hj
    · rename_i hf
      obtain ⟨k, hk, hev, hb, hfire, hnone⟩ := ih _ _ _ h
      refine ⟨k + 1, by simp only [List.length_cons]; omega, by simpa [recAll] using hev, ?_, ?_, ?_⟩
      · intro h'; simp [hb h']
      · intro h'
        obtain ⟨hk0, e, he, hfe⟩ := hfire h'
        refine ⟨by omega, e, ?_, by simpa [recAll] using hfe⟩
        have : k + 1 - 1 = (k - 1) + 1 := by omega
        rw [this]; simpa using he
      · intro j e hj he
        cases j with
        | zero =>
          simp at he; subst he
          simpa [recAll] using hf
        | succ j =>
          have hj' : j < (if b then k - 1 else k) := by
            cases b <;> simp at hj ⊢ <;> omega
          have := hnone j e hj' (by simpa using he)
          simpa [recAll] using this

end
end SolOutM
