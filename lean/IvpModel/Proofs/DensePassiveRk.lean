import IvpModel.Proofs.DensePassive
import IvpModel.Proofs.ReflectRk23
import IvpModel.Proofs.ReflectRk4
set_option linter.unusedSectionVars false
set_option linter.unusedSimpArgs false
set_option linter.unusedTactic false
set_option linter.unnecessarySeqFocus false
set_option linter.unusedVariables false

/-!
  C12 at the solver interface, RK23 and RK4: with an observer that does not read the interpolant, the run with `dense_output = false`
  is the run with `dense_output = true` with the interpolant samples erased from the log — the same step points, states, step sizes,
  statuses and counters (both methods compute the interpolant from data they have anyway).
-/
namespace Ctl
noncomputable section
variable {K : Type} [Field K] [LinearOrder K] [IsStrictOrderedRing K] [SqrtPow K] {n : Nat}

def setDense23 (P : R23Params K n) (d : Bool) : R23Params K n := { P with dense := d }
def eS23 {σ : Type} (s : R23State σ K n) : R23State σ K n := { s with m := eMeter s.m }
def eOut23 {σ : Type} : Sum (R23State σ K n) (Result σ K n) → Sum (R23State σ K n) (Result σ K n)
  | .inl s => .inl (eS23 s)
  | .inr r => .inr (eResult r)

theorem rk23Trial_erase {σ : Type} (P : R23Params K n) (d d' : Bool) (f : Rhs K n) (s : R23State σ K n) (h : K) (L : Bool) :
    rk23Trial (setDense23 P d) f (eS23 s) h L = { rk23Trial (setDense23 P d') f s h L with m := eMeter (rk23Trial (setDense23 P d') f s h L).m } := by
  unfold rk23Trial
  simp only [eS23, setDense23, eMeter_ncalls, eMeter_bump]

theorem rk23Accepted_erase {σ : Type} (P : R23Params K n) (f : Rhs K n) (ob : Obs σ K n) (hob : IgnoresIp ob) (d : Bool)
    (x hs : K) (y k1 : Vec K n) (m : Meter K n) (obs : σ) (h : K) (L : Bool) (T : R23Trial K n) :
    rk23Accepted (setDense23 P false) f ob (eS23 { x := x, h := hs, y := y, k1 := k1, m := m, obs := obs }) h L { T with m := eMeter T.m }
      = eOut23 (rk23Accepted (setDense23 P d) f ob { x := x, h := hs, y := y, k1 := k1, m := m, obs := obs } h L T) := by
  obtain ⟨xend, posneg, safety, smin, smax, hmax, nmax, dns, atol, rtol, one, q1, q2, q3⟩ := P
  obtain ⟨⟨oyt, ok2, ocalls, ok3, oxph, ok4⟩, tm, terr⟩ := T
  unfold rk23Accepted
  dsimp (config := { instances := true }) only [eS23, setDense23]
  simp only [Bool.false_eq_true, if_false]
  have hs0 : sampleInterp (none : Option (K → Vec K n)) x (landX L xend x h) q1 q2 q3 = #[] := rfl
  rw [hs0]
  cases d with
  | true =>
    simp only [if_true]
    generalize (some fun xi => Gen.Rk23.interpolate (xi := xi) (xold := x) (h := h)
        (cont0 := (Gen.Rk23.dense (ye := y) (k1 := k1) (k2 := ok2) (k3 := ok3) (k4 := ok4)).cont0)
        (cont1 := (Gen.Rk23.dense (ye := y) (k1 := k1) (k2 := ok2) (k3 := ok3) (k4 := ok4)).cont1)
        (cont2 := (Gen.Rk23.dense (ye := y) (k1 := k1) (k2 := ok2) (k3 := ok3) (k4 := ok4)).cont2)
        (cont3 := (Gen.Rk23.dense (ye := y) (k1 := k1) (k2 := ok2) (k3 := ok3) (k4 := ok4)).cont3) : Option (K → Vec K n)) = IP
    rw [← eMeter_incTotal, ← eMeter_incAccepted, ← eMeter_cb tm.incTotal.incAccepted x (landX L xend x h) oyt (sampleInterp IP x (landX L xend x h) q1 q2 q3)]
    rw [afterCb_erase f ob hob obs _ x (landX L xend x h) oyt IP none ok4]
    cases afterCb f ob obs (tm.incTotal.incAccepted.cb x (landX L xend x h) oyt (sampleInterp IP x (landX L xend x h) q1 q2 q3)) x (landX L xend x h) oyt IP ok4 with
    | stop o yy => rfl
    | go o yy kk mm =>
      simp only [eAfter]
      by_cases hx : (L || Num.eqb (landX L xend x h) xend) = true
      · rw [if_pos hx, if_pos hx]; rfl
      · rw [if_neg hx, if_neg hx]; rfl
  | false =>
    simp only [Bool.false_eq_true, if_false]
    rw [hs0, ← eMeter_incTotal, ← eMeter_incAccepted, ← eMeter_cb tm.incTotal.incAccepted x (landX L xend x h) oyt #[]]
    rw [afterCb_erase f ob hob obs _ x (landX L xend x h) oyt none none ok4]
    cases afterCb f ob obs (tm.incTotal.incAccepted.cb x (landX L xend x h) oyt #[]) x (landX L xend x h) oyt none ok4 with
    | stop o yy => rfl
    | go o yy kk mm =>
      simp only [eAfter]
      by_cases hx : (L || Num.eqb (landX L xend x h) xend) = true
      · rw [if_pos hx, if_pos hx]; rfl
      · rw [if_neg hx, if_neg hx]; rfl

theorem rk23Iter_erase {σ : Type} (P : R23Params K n) (f : Rhs K n) (ob : Obs σ K n) (hob : IgnoresIp ob) (d : Bool) (s : R23State σ K n) :
    rk23Iter (setDense23 P false) f ob (eS23 s) = eOut23 (rk23Iter (setDense23 P d) f ob s) := by
  rw [rk23Iter_eq_pass, rk23Iter_eq_pass]
  have hg : rk23Guard (setDense23 P false) (eS23 s) = rk23Guard (setDense23 P d) s := rfl
  have ha : rk23Adjust (setDense23 P false) (eS23 s) = rk23Adjust (setDense23 P d) s := rfl
  have hl : rk23Last (setDense23 P false) (eS23 s) = rk23Last (setDense23 P d) s := rfl
  rw [hg]
  cases hgq : rk23Guard (setDense23 P d) s with
  | some st => rfl
  | none =>
    dsimp only
    rw [ha, hl]
    unfold rk23Pass
    rw [rk23Trial_erase P false d f s]
    generalize rk23Trial (setDense23 P d) f s (rk23Adjust (setDense23 P d) s) (rk23Last (setDense23 P d) s) = T
    have ho : (setDense23 P false).one = (setDense23 P d).one := rfl
    dsimp only
    rw [ho]
    by_cases hacc : T.err ≤ (setDense23 P d).one
    · rw [if_pos hacc, if_pos hacc]
      obtain ⟨x, hs, y, k1, m, obs⟩ := s
      exact rk23Accepted_erase P f ob hob d x hs y k1 m obs _ _ T
    · rw [if_neg hacc, if_neg hacc]
      rfl

theorem rk23Loop_erase {σ : Type} (P : R23Params K n) (f : Rhs K n) (ob : Obs σ K n) (hob : IgnoresIp ob) (d : Bool) :
    ∀ (fuel : Nat) (s : R23State σ K n),
      rk23Loop (setDense23 P false) f ob fuel (eS23 s) = (rk23Loop (setDense23 P d) f ob fuel s).map eResult := by
  intro fuel
  induction fuel with
  | zero => intro s; rfl
  | succ fuel ih =>
    intro s
    unfold rk23Loop
    rw [rk23Iter_erase P f ob hob d s]
    cases hq : rk23Iter (setDense23 P d) f ob s with
    | inr r => rfl
    | inl s' => exact ih s'

/-- **C12, RK23 at the solver interface**: `dense_output` changes only the interpolant samples in the log. -/
theorem rk23Solve_dense_passive {σ : Type} (P : R23Params K n) (f : Rhs K n) (ob : Obs σ K n) (hob : IgnoresIp ob) (obs0 : σ) (x0 : K)
    (y0 : Vec K n) (firstStep : Option K) (hmaxArg : K) (fuel : Nat) :
    (rk23Solve (setDense23 P false) f ob obs0 x0 y0 firstStep hmaxArg fuel).map eResult
      = (rk23Solve (setDense23 P true) f ob obs0 x0 y0 firstStep hmaxArg fuel).map eResult := by
  unfold rk23Solve
  have hst : rk23Start (setDense23 P false) f ob obs0 x0 y0 firstStep hmaxArg = rk23Start (setDense23 P true) f ob obs0 x0 y0 firstStep hmaxArg := rfl
  rw [hst]
  cases hq : rk23Start (setDense23 P true) f ob obs0 x0 y0 firstStep hmaxArg with
  | inr r => rfl
  | inl s =>
    dsimp only
    have h1 := rk23Loop_erase P f ob hob false fuel s
    have h2 := rk23Loop_erase P f ob hob true fuel s
    rw [← h1, h2]


def setDense4 (P : R4Params K) (d : Bool) : R4Params K := { P with dense := d }
def eS4 {σ : Type} (s : R4State σ K n) : R4State σ K n := { s with m := eMeter s.m }
def eOut4 {σ : Type} : Sum (R4State σ K n) (Result σ K n) → Sum (R4State σ K n) (Result σ K n)
  | .inl s => .inl (eS4 s)
  | .inr r => .inr (eResult r)

theorem rk4Body_erase {σ : Type} (P : R4Params K) (f : Rhs K n) (ob : Obs σ K n) (hob : IgnoresIp ob) (d : Bool)
    (x hs : K) (y k1 : Vec K n) (m : Meter K n) (obs : σ) (h : K) (L : Bool) :
    rk4Body (setDense4 P false) f ob (eS4 { x := x, h := hs, y := y, k1 := k1, m := m, obs := obs }) h L
      = eOut4 (rk4Body (setDense4 P d) f ob { x := x, h := hs, y := y, k1 := k1, m := m, obs := obs } h L) := by
  obtain ⟨xend, nmax, dns, q1, q2, q3⟩ := P
  unfold rk4Body
  dsimp (config := { instances := true }) only [eS4, setDense4]
  simp only [eMeter_ncalls, Bool.false_eq_true, if_false]
  generalize Gen.Rk4.stages (f := fun j => f (m.ncalls + j)) (y := y) (h := h) (k1 := k1) (x := x) (last := L) (xend := xend) = O
  obtain ⟨oyt, ok2, ocalls, ok3, oxph, ok4⟩ := O
  dsimp only
  have hn : ((eMeter m).bump ocalls 3).ncalls = (m.bump ocalls 3).ncalls := by simp [Meter.bump, eMeter]
  rw [hn]
  generalize Gen.Rk4.update (f := fun j => f ((m.bump ocalls 3).ncalls + j)) (xph := oxph) (h := h) (k1 := k1) (k2 := ok2) (k3 := ok3) (k4 := ok4) (y := y) = U
  obtain ⟨ux, uy, uk2, uk1, ucalls⟩ := U
  dsimp only
  have hs0 : sampleInterp (none : Option (K → Vec K n)) x ux q1 q2 q3 = #[] := rfl
  rw [hs0, ← eMeter_bump, ← eMeter_bump, ← eMeter_incTotal, ← eMeter_incAccepted]
  cases d with
  | true =>
    simp only [if_true]
    generalize (some fun xi => Gen.Rk4.interpolate (xi := xi) (xold := x) (h := h) (cont0 := (Gen.Rk4.dense (yt := y) (k2 := uk2) (k1 := uk1) (y := uy)).cont0)
        (cont1 := (Gen.Rk4.dense (yt := y) (k2 := uk2) (k1 := uk1) (y := uy)).cont1)
        (cont2 := (Gen.Rk4.dense (yt := y) (k2 := uk2) (k1 := uk1) (y := uy)).cont2)
        (cont3 := (Gen.Rk4.dense (yt := y) (k2 := uk2) (k1 := uk1) (y := uy)).cont3) : Option (K → Vec K n)) = IP
    rw [← eMeter_cb ((m.bump ocalls 3).bump ucalls 1).incTotal.incAccepted x ux uy (sampleInterp IP x ux q1 q2 q3)]
    rw [afterCb_erase f ob hob obs _ x ux uy IP none uk1]
    cases afterCb f ob obs (((m.bump ocalls 3).bump ucalls 1).incTotal.incAccepted.cb x ux uy (sampleInterp IP x ux q1 q2 q3)) x ux uy IP uk1 with
    | stop o yy => rfl
    | go o yy kk mm => cases L <;> rfl
  | false =>
    simp only [Bool.false_eq_true, if_false]
    rw [hs0, ← eMeter_cb ((m.bump ocalls 3).bump ucalls 1).incTotal.incAccepted x ux uy #[]]
    rw [afterCb_erase f ob hob obs _ x ux uy none none uk1]
    cases afterCb f ob obs (((m.bump ocalls 3).bump ucalls 1).incTotal.incAccepted.cb x ux uy #[]) x ux uy none uk1 with
    | stop o yy => rfl
    | go o yy kk mm => cases L <;> rfl

theorem rk4Iter_erase {σ : Type} (P : R4Params K) (f : Rhs K n) (ob : Obs σ K n) (hob : IgnoresIp ob) (d : Bool) (s : R4State σ K n) :
    rk4Iter (setDense4 P false) f ob (eS4 s) = eOut4 (rk4Iter (setDense4 P d) f ob s) := by
  rw [rk4Iter_eq_body, rk4Iter_eq_body]
  have hA : rk4Adjust (setDense4 P false) (eS4 s) = rk4Adjust (setDense4 P d) s := rfl
  have e1 : (eS4 s).m.cnt = s.m.cnt := rfl
  have e2 : (setDense4 P false).nmax = (setDense4 P d).nmax := rfl
  have e3 : (eS4 s).x = s.x := rfl
  rw [e1, e2, hA, e3]
  by_cases hb : s.m.cnt.total ≥ (setDense4 P d).nmax
  · rw [if_pos hb, if_pos hb]; rfl
  · rw [if_neg hb, if_neg hb]
    by_cases hz : Num.eqb (s.x + (rk4Adjust (setDense4 P d) s).1) s.x = true
    · rw [if_pos hz, if_pos hz]; rfl
    · rw [if_neg hz, if_neg hz]
      obtain ⟨x, hs, y, k1, m, obs⟩ := s
      exact rk4Body_erase P f ob hob d x hs y k1 m obs _ _

theorem rk4Loop_erase {σ : Type} (P : R4Params K) (f : Rhs K n) (ob : Obs σ K n) (hob : IgnoresIp ob) (d : Bool) :
    ∀ (fuel : Nat) (s : R4State σ K n),
      rk4Loop (setDense4 P false) f ob fuel (eS4 s) = (rk4Loop (setDense4 P d) f ob fuel s).map eResult := by
  intro fuel
  induction fuel with
  | zero => intro s; rfl
  | succ fuel ih =>
    intro s
    unfold rk4Loop
    rw [rk4Iter_erase P f ob hob d s]
    cases hq : rk4Iter (setDense4 P d) f ob s with
    | inr r => rfl
    | inl s' => exact ih s'

/-- **C12, RK4 at the solver interface**: `dense_output` changes only the interpolant samples in the log. -/
theorem rk4Solve_dense_passive {σ : Type} (P : R4Params K) (f : Rhs K n) (ob : Obs σ K n) (hob : IgnoresIp ob) (obs0 : σ) (x0 : K)
    (y0 : Vec K n) (h : K) (fuel : Nat) :
    (rk4Solve (setDense4 P false) f ob obs0 x0 y0 h fuel).map eResult = (rk4Solve (setDense4 P true) f ob obs0 x0 y0 h fuel).map eResult := by
  unfold rk4Solve
  cases hq : rk4Start f ob obs0 x0 y0 h with
  | inr r => rfl
  | inl s =>
    dsimp only
    have h1 := rk4Loop_erase P f ob hob false fuel s
    have h2 := rk4Loop_erase P f ob hob true fuel s
    rw [← h1, h2]

end
end Ctl
