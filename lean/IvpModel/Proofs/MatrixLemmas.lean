/-
  Lemmas about the matrix model: the flat index map, well-formedness, the dense reading `entry`.
-/
import IvpModel.Proofs.FieldNum
import IvpModel.Model.Matrix

namespace Mat

theorem flat_index {cols r c : Nat} (hc : c < cols) : (r * cols + c) / cols = r ∧ (r * cols + c) % cols = c := by
  have hpos : 0 < cols := by omega
  constructor
  · rw [Nat.add_comm, Nat.add_mul_div_right _ _ hpos, Nat.div_eq_of_lt hc, Nat.zero_add]
  · rw [Nat.add_comm, Nat.add_mul_mod_self_right, Nat.mod_eq_of_lt hc]

theorem flat_lt {rows cols r c : Nat} (hr : r < rows) (hc : c < cols) : r * cols + c < rows * cols := by
  calc r * cols + c < r * cols + cols := by omega
    _ = (r + 1) * cols := by rw [Nat.add_mul, Nat.one_mul]
    _ ≤ rows * cols := Nat.mul_le_mul_right _ hr

section
variable {α : Type} [Num α]

@[simp] theorem flat_size (rows cols : Nat) (g : Nat → Nat → α) : (flat rows cols g).size = rows * cols := by
  simp [flat]

theorem flat_get {rows cols : Nat} (g : Nat → Nat → α) {r c : Nat} (hr : r < rows) (hc : c < cols) :
    (flat rows cols g)[r * cols + c]? = some (g r c) := by
  have hlt := flat_lt hr hc
  have hi := flat_index (r := r) hc
  unfold flat
  rw [Array.getElem?_eq_getElem (by simpa using hlt)]
  simp [hi.1, hi.2]

theorem replicate_get {k idx : Nat} (v : α) (h : idx < k) : (Array.replicate k v)[idx]? = some v := by
  simp [h]
end

end Mat

namespace Mat
noncomputable section
variable {K : Type} [Field K] [LinearOrder K] [IsStrictOrderedRing K] [SqrtPow K]

@[simp] theorem num_zero : (Num.zero : K) = 0 := by simp [Num.zero]
@[simp] theorem num_one : (Num.one : K) = 1 := by simp [Num.one]

/-- well-formed square matrix: the buffer has the length its storage scheme needs -/
def WF (A : Mat K) : Prop :=
  A.m = A.n ∧
  match A.storage with
  | .identity => A.data = #[1, 0]
  | .full => A.data.size = A.n * A.n
  | .banded ml mu => A.data.size = (ml + mu + 1) * A.n

/-- the mathematical matrix a well-formed `Mat` denotes -/
def entry (A : Mat K) (i j : Nat) : K :=
  match A.storage with
  | .identity => if i = j then 1 else 0
  | .full => A.data.getD (i * A.n + j) 0
  | .banded ml mu => if inBand ml mu i j then A.data.getD ((i + mu - j) * A.n + j) 0 else 0

theorem band_row_lt {ml mu i j : Nat} (hb : inBand ml mu i j) : i + mu - j < ml + mu + 1 := by
  unfold inBand at hb; omega

/-- every entry of a well-formed matrix can be read, and reading gives `entry` -/
theorem get_of_wf {A : Mat K} (h : WF A) {i j : Nat} (hi : i < A.n) (hj : j < A.n) :
    A.get i j = some (entry A i j) := by
  obtain ⟨hm, hs⟩ := h
  unfold get entry
  rw [hm]
  simp only [hi, hj, and_self, if_true]
  cases hst : A.storage with
  | identity =>
    rw [hst] at hs; simp only at hs
    by_cases hij : i = j <;> simp [hij, hs]
  | full =>
    rw [hst] at hs; simp only at hs
    have : i * A.n + j < A.data.size := by rw [hs]; exact flat_lt hi hj
    simp [Array.getD, this]
  | banded ml mu =>
    rw [hst] at hs; simp only at hs
    by_cases hb : inBand ml mu i j
    · have : (i + mu - j) * A.n + j < A.data.size := by rw [hs]; exact flat_lt (band_row_lt hb) hj
      dsimp only
      rw [if_pos hb, if_pos hb]
      simp [Array.getD, this]
    · dsimp only
      rw [if_neg hb, if_neg hb]; simp

/-- out-of-range reads panic -/
theorem get_out_of_range (A : Mat K) {i j : Nat} (h : ¬ (i < A.n ∧ j < A.m)) : A.get i j = none := by
  unfold get; simp [h]

end
end Mat

namespace Mat
noncomputable section
variable {K : Type} [Field K] [LinearOrder K] [IsStrictOrderedRing K] [SqrtPow K]

theorem collectRows_some {rows n : Nat} (g : Nat → Nat → Option K)
    (h : ∀ r c, r < rows → c < n → (g r c).isSome) :
    collectRows rows n g = some (flat rows n fun r c => (g r c).getD 0) := by
  unfold collectRows
  have hall : (List.range (rows * n)).all (fun idx => (g (idx / n) (idx % n)).isSome) = true := by
    rw [List.all_eq_true]
    intro idx hidx
    have hlt : idx < rows * n := List.mem_range.mp hidx
    have hn : 0 < n := by
      rcases Nat.eq_zero_or_pos n with h0 | h0
      · subst h0; simp at hlt
      · exact h0
    exact h _ _ ((Nat.div_lt_iff_lt_mul hn).mpr hlt) (Nat.mod_lt _ hn)
  simp [hall]

/-- reading a full `n×n` buffer built by `flat` -/
theorem entry_flat_full {n : Nat} (g : Nat → Nat → K) {i j : Nat} (hi : i < n) (hj : j < n) :
    entry (⟨n, n, flat n n g, .full⟩ : Mat K) i j = g i j := by
  simp [entry, Array.getD, flat_lt hi hj, flat_get g hi hj]
  have := flat_get g hi hj
  rw [Array.getElem?_eq_getElem (by simpa using flat_lt hi hj)] at this
  exact Option.some.inj this

/-- reading a banded buffer built by `flat` -/
theorem entry_flat_banded {n ml mu : Nat} (g : Nat → Nat → K) {i j : Nat} (hj : j < n) :
    entry (⟨n, n, flat (ml + mu + 1) n g, .banded ml mu⟩ : Mat K) i j
      = if inBand ml mu i j then g (i + mu - j) j else 0 := by
  simp only [entry]
  by_cases hb : inBand ml mu i j
  · rw [if_pos hb, if_pos hb]
    have hr := band_row_lt hb
    have := flat_get g hr hj
    rw [Array.getElem?_eq_getElem (by simpa using flat_lt hr hj)] at this
    simp [Array.getD, flat_lt hr hj]
    exact Option.some.inj this
  · rw [if_neg hb, if_neg hb]

theorem wf_flat_full (n : Nat) (g : Nat → Nat → K) : WF (⟨n, n, flat n n g, .full⟩ : Mat K) := by simp [WF]
theorem wf_flat_banded (n ml mu : Nat) (g : Nat → Nat → K) :
    WF (⟨n, n, flat (ml + mu + 1) n g, .banded ml mu⟩ : Mat K) := by simp [WF]

end
end Mat
