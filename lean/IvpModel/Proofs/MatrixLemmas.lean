/-
  Lemmas about the matrix model: the flat index map, well-formedness, the dense reading `entry`.
-/
import IvpModel.Proofs.FieldNum
import IvpModel.Model.Matrix

namespace Mat

theorem flat_index {cols r c : Nat} (hc : c < cols) : (r * cols + c) / cols = r ∧ (r * cols + c) % cols = c := by
  have hpos : 0 < cols := by omega
  constructor
  · rw [Nat.add_comm, Nat.add_mul_div_right _ _ hpos, Nat.div_eq_of_lt hc, Nat.zero_add]
  · rw [Nat.add_comm, Nat.add_mul_mod_self_right, Nat.mod_eq_of_lt hc]

theorem flat_lt {rows cols r c : Nat} (hr : r < rows) (hc : c < cols) : r * cols + c < rows * cols := by
  calc r * cols + c < r * cols + cols := by omega
    _ = (r + 1) * cols := by rw [Nat.add_mul, Nat.one_mul]
    _ ≤ rows * cols := Nat.mul_le_mul_right _ hr

section
variable {α : Type} [Num α]

@[simp] theorem flat_size (rows cols : Nat) (g : Nat → Nat → α) : (flat rows cols g).size = rows * cols := by
  simp [flat]

theorem flat_get {rows cols : Nat} (g : Nat → Nat → α) {r c : Nat} (hr : r < rows) (hc : c < cols) :
    (flat rows cols g)[r * cols + c]? = some (g r c) := by
  have hlt := flat_lt hr hc
  have hi := flat_index (r := r) hc
  unfold flat
  rw [Array.getElem?_eq_getElem (by simpa using hlt)]
  simp [hi.1, hi.2]

theorem replicate_get {k idx : Nat} (v : α) (h : idx < k) : (Array.replicate k v)[idx]? = some v := by
  simp [h]
end

end Mat

namespace Mat
noncomputable section
variable {K : Type} [Field K] [LinearOrder K] [IsStrictOrderedRing K] [SqrtPow K]

@[simp] theorem num_zero : (Num.zero : K) = 0 := by simp [Num.zero]
@[simp] theorem num_one : (Num.one : K) = 1 := by simp [Num.one]

/-- well-formed square matrix: the buffer has the length its storage scheme needs -/
def WF (A : Mat K) : Prop :=
  A.m = A.n ∧
  match A.storage with
  | .identity => A.data = #[1, 0]
  | .full => A.data.size = A.n * A.n
  | .banded ml mu => A.data.size = (ml + mu + 1) * A.n

/-- the mathematical matrix a well-formed `Mat` denotes -/
def entry (A : Mat K) (i j : Nat) : K :=
  match A.storage with
  | .identity => if i = j then 1 else 0
  | .full => A.data.getD (i * A.n + j) 0
  | .banded ml mu => if inBand ml mu i j then A.data.getD ((i + mu - j) * A.n + j) 0 else 0

theorem band_row_lt {ml mu i j : Nat} (hb : inBand ml mu i j) : i + mu - j < ml + mu + 1 := by
  unfold inBand at hb; omega

/-- every entry of a well-formed matrix can be read, and reading gives `entry` -/
theorem get_of_wf {A : Mat K} (h : WF A) {i j : Nat} (hi : i < A.n) (hj : j < A.n) :
    A.get i j = some (entry A i j) := by
  obtain ⟨hm, hs⟩ := h
  unfold get entry
  rw [hm]
  simp only [hi, hj, and_self, if_true]
  cases hst : A.storage with
  | identity =>
    rw [hst] at hs; simp only at hs
    by_cases hij : i = j <;> simp [hij, hs]
  | full =>
    rw [hst] at hs; simp only at hs
    have : i * A.n + j < A.data.size := by rw [hs]; exact flat_lt hi hj
    simp [Array.getD, this]
  | banded ml mu =>
    rw [hst] at hs; simp only at hs
    by_cases hb : inBand ml mu i j
    · have : (i + mu - j) * A.n + j < A.data.size := by rw [hs]; exact flat_lt (band_row_lt hb) hj
      dsimp only
      rw [if_pos hb, if_pos hb]
      simp [Array.getD, this]
    · dsimp only
      rw [if_neg hb, if_neg hb]; simp

/-- out-of-range reads panic -/
theorem get_out_of_range (A : Mat K) {i j : Nat} (h : ¬ (i < A.n ∧ j < A.m)) : A.get i j = none := by
  unfold get; simp [h]

end
end Mat

namespace Mat
noncomputable section
variable {K : Type} [Field K] [LinearOrder K] [IsStrictOrderedRing K] [SqrtPow K]

theorem collectRows_some {rows n : Nat} (g : Nat → Nat → Option K)
    (h : ∀ r c, r < rows → c < n → (g r c).isSome) :
    collectRows rows n g = some (flat rows n fun r c => (g r c).getD 0) := by
  unfold collectRows
  have hall : (List.range (rows * n)).all (fun idx => (g (idx / n) (idx % n)).isSome) = true := by
    rw [List.all_eq_true]
    intro idx hidx
    have hlt : idx < rows * n := List.mem_range.mp hidx
    have hn : 0 < n := by
      rcases Nat.eq_zero_or_pos n with h0 | h0
      · subst h0; simp at hlt
      · exact h0
    exact h _ _ ((Nat.div_lt_iff_lt_mul hn).mpr hlt) (Nat.mod_lt _ hn)
  simp [hall]

/-- reading a full `n×n` buffer built by `flat` -/
theorem entry_flat_full {n : Nat} (g : Nat → Nat → K) {i j : Nat} (hi : i < n) (hj : j < n) :
    entry (⟨n, n, flat n n g, .full⟩ : Mat K) i j = g i j := by
  simp [entry, Array.getD, flat_lt hi hj, flat_get g hi hj]
  have := flat_get g hi hj
  rw [Array.getElem?_eq_getElem (by simpa using flat_lt hi hj)] at this
  exact Option.some.inj this

/-- reading a banded buffer built by `flat` -/
theorem entry_flat_banded {n ml mu : Nat} (g : Nat → Nat → K) {i j : Nat} (hj : j < n) :
    entry (⟨n, n, flat (ml + mu + 1) n g, .banded ml mu⟩ : Mat K) i j
      = if inBand ml mu i j then g (i + mu - j) j else 0 := by
  simp only [entry]
  by_cases hb : inBand ml mu i j
  · rw [if_pos hb, if_pos hb]
    have hr := band_row_lt hb
    have := flat_get g hr hj
    rw [Array.getElem?_eq_getElem (by simpa using flat_lt hr hj)] at this
    simp [Array.getD, flat_lt hr hj]
    exact Option.some.inj this
  · rw [if_neg hb, if_neg hb]

theorem wf_flat_full (n : Nat) (g : Nat → Nat → K) : WF (⟨n, n, flat n n g, .full⟩ : Mat K) := by simp [WF]
theorem wf_flat_banded (n ml mu : Nat) (g : Nat → Nat → K) :
    WF (⟨n, n, flat (ml + mu + 1) n g, .banded ml mu⟩ : Mat K) := by simp [WF]

end
end Mat

namespace Mat
noncomputable section
variable {K : Type} [Field K] [LinearOrder K] [IsStrictOrderedRing K] [SqrtPow K]

theorem getD_flat {rows n : Nat} (g : Nat → Nat → K) {r c : Nat} (hr : r < rows) (hc : c < n) :
    (flat rows n g).getD (r * n + c) 0 = g r c := by
  have := flat_get g hr hc
  simp [Array.getD_eq_getD_getElem?, this]

/-- `to_full` of a well-formed matrix: an n·n buffer holding `entry` -/
theorem toFull_wf {A : Mat K} (hw : WF A) :
    ∃ d, toFull A.n A.data A.storage = some d ∧ d.size = A.n * A.n ∧
      ∀ i j, i < A.n → j < A.n → d.getD (i * A.n + j) 0 = entry A i j := by
  obtain ⟨hm, hs⟩ := hw
  cases hst : A.storage with
  | full =>
    rw [hst] at hs
    exact ⟨A.data, rfl, hs, fun i j _ _ => by simp [entry, hst]⟩
  | identity =>
    refine ⟨flat A.n A.n (fun r c => (toFullEntry A.n A.data .identity r c).getD 0), ?_, by simp, ?_⟩
    · simp only [toFull, collect]
      rw [collectRows_some]
      intro r c _ _; simp [toFullEntry]
    · intro i j hi hj
      rw [getD_flat _ hi hj]
      simp [toFullEntry, entry, hst]
  | banded ml mu =>
    rw [hst] at hs; dsimp only at hs
    have hsome : ∀ r c, r < A.n → c < A.n → (toFullEntry A.n A.data (.banded ml mu) r c).isSome := by
      intro r c hr hc
      simp only [toFullEntry]
      by_cases hb : inBand ml mu r c
      · rw [if_pos hb]
        have : (r + mu - c) * A.n + c < A.data.size := by rw [hs]; exact flat_lt (band_row_lt hb) hc
        simp [this]
      · rw [if_neg hb]; simp
    refine ⟨flat A.n A.n (fun r c => (toFullEntry A.n A.data (.banded ml mu) r c).getD 0), ?_, by simp, ?_⟩
    · simp only [toFull, collect]
      rw [collectRows_some _ hsome]
    · intro i j hi hj
      rw [getD_flat _ hi hj]
      simp only [toFullEntry, entry, hst]
      by_cases hb : inBand ml mu i j
      · rw [if_pos hb, if_pos hb]
        have : (i + mu - j) * A.n + j < A.data.size := by rw [hs]; exact flat_lt (band_row_lt hb) hj
        simp [Array.getD, this]
      · rw [if_neg hb, if_neg hb]; simp

theorem getD_zipWith {f : K → K → K} {a b : Array K} {k : Nat} (ha : k < a.size) (hb : k < b.size) :
    (Array.zipWith f a b).getD k 0 = f (a.getD k 0) (b.getD k 0) := by
  simp [Array.getD, ha, hb]

end
end Mat

namespace Mat
noncomputable section
variable {K : Type} [Field K] [LinearOrder K] [IsStrictOrderedRing K] [SqrtPow K]

/-- value read from a well-sized banded buffer -/
theorem band_read {n ml mu : Nat} {d : Array K} (hs : d.size = (ml + mu + 1) * n) {i j : Nat} (hj : j < n) :
    (if inBand ml mu i j then d[(i + mu - j) * n + j]? else some (Num.zero : K))
      = some (if inBand ml mu i j then d.getD ((i + mu - j) * n + j) 0 else 0) := by
  by_cases hb : inBand ml mu i j
  · rw [if_pos hb, if_pos hb]
    have : (i + mu - j) * n + j < d.size := by rw [hs]; exact flat_lt (band_row_lt hb) hj
    simp [Array.getD, this]
  · rw [if_neg hb, if_neg hb]; simp

theorem bandedCell_eq (isAdd : Bool) {a b : Array K} {n ml mu ml2 mu2 : Nat}
    (hsa : a.size = (ml + mu + 1) * n) (hsb : b.size = (ml2 + mu2 + 1) * n) {ro j : Nat} (hj : j < n) :
    bandedCell isAdd a b n ml mu ml2 mu2 ro j =
      some (if max mu mu2 ≤ j + ro ∧ j + ro < n + max mu mu2 then
              (let i := j + ro - max mu mu2
               let x := if inBand ml mu i j then a.getD ((i + mu - j) * n + j) 0 else 0
               let y := if inBand ml2 mu2 i j then b.getD ((i + mu2 - j) * n + j) 0 else 0
               if isAdd then x + y else x - y)
            else 0) := by
  unfold bandedCell
  dsimp only
  by_cases hc : max mu mu2 ≤ j + ro ∧ j + ro < n + max mu mu2
  · rw [if_pos hc, if_pos hc, band_read hsa hj, band_read hsb hj]
    cases isAdd <;> simp
  · rw [if_neg hc, if_neg hc]; simp

end
end Mat

/-! ### `is_identity`: the double loop over a well-formed matrix -/
namespace Mat
noncomputable section
variable {K : Type} [Field K] [LinearOrder K] [IsStrictOrderedRing K] [SqrtPow K]

/-- the per-entry test of `is_identity` on the denoted matrix -/
def cellOk (A : Mat K) (i j : Nat) : Bool :=
  if i = j then decide (entry A i j = 1) else decide (entry A i j = 0)

/-- one step of the inner loop of `is_identity` -/
def isIdStep (A : Mat K) (i : Nat) (acc : Option Bool) (j : Nat) : Option Bool :=
  match acc with
  | none => none
  | some false => some false
  | some true =>
    match A.get i j with
    | none => none
    | some v => if i = j then some (Num.eqb v Num.one) else some (Num.eqb v Num.zero)

theorem isIdentity_unfold (A : Mat K) (hst : A.storage ≠ .identity) :
    A.isIdentity = (List.range A.n).foldl (fun acc i => (List.range A.m).foldl (isIdStep A i) acc) (some true) := by
  unfold isIdentity
  cases h : A.storage with
  | identity => exact absurd h hst
  | full => rfl
  | banded ml mu => rfl

theorem isIdStep_inner {A : Mat K} (h : WF A) {i : Nat} (hi : i < A.n) (b : Bool) (js : List Nat) (hjs : ∀ j ∈ js, j < A.n) :
    js.foldl (isIdStep A i) (some b) = some (b && js.all (cellOk A i)) := by
  induction js generalizing b with
  | nil => simp
  | cons j js ih =>
    have hj : j < A.n := hjs j (by simp)
    have hrest : ∀ j' ∈ js, j' < A.n := fun j' hj' => hjs j' (by simp [hj'])
    rw [List.foldl_cons]
    cases b with
    | false =>
      have : isIdStep A i (some false) j = some false := rfl
      rw [this, ih false hrest]; simp
    | true =>
      have : isIdStep A i (some true) j = some (cellOk A i j) := by
        unfold isIdStep cellOk
        simp only [get_of_wf h hi hj]
        by_cases hij : i = j
        · simp only [hij, if_true]; congr 1; show decide (_ = Num.one) = _; simp
        · simp only [hij, if_false]; congr 1; show decide (_ = Num.zero) = _; simp
      rw [this, ih _ hrest]; simp

theorem isIdStep_outer {A : Mat K} (h : WF A) (b : Bool) (is : List Nat) (his : ∀ i ∈ is, i < A.n) :
    is.foldl (fun acc i => (List.range A.n).foldl (isIdStep A i) acc) (some b)
      = some (b && is.all (fun i => (List.range A.n).all (cellOk A i))) := by
  induction is generalizing b with
  | nil => simp
  | cons i is ih =>
    have hi : i < A.n := his i (by simp)
    have hrest : ∀ i' ∈ is, i' < A.n := fun i' hi' => his i' (by simp [hi'])
    rw [List.foldl_cons, isIdStep_inner h hi b (List.range A.n) (fun j hj => List.mem_range.mp hj), ih _ hrest]
    simp [Bool.and_assoc]

end
end Mat
