import IvpModel.Proofs.SymLemmas
import IvpModel.Model.RkLoops
set_option linter.unusedSectionVars false
set_option linter.unusedSimpArgs false
set_option linter.unusedTactic false
set_option linter.unnecessarySeqFocus false

/-!
  C13, whole runs (RK4): integrating the time-reflected problem `z' = −f(−s, z)` from `−x0` to `−xend` with step `−h`, observed
  by the mirrored observer, is the mirror image of integrating the original problem — every right-hand-side call, every
  callback, every interpolant sample, the status and the counters — for every right-hand side, observer, fuel and step
  (exact arithmetic).  Induction over the loop; the per-step part rests on the translated regions of rk4.rs.
-/
namespace Ctl
noncomputable section
variable {K : Type} [Field K] [LinearOrder K] [IsStrictOrderedRing K] [SqrtPow K] {n : Nat}

def rRhs (f : Rhs K n) : Rhs K n := fun j t y => vneg (f j (-t) y)
def rIp (ip : Option (K → Vec K n)) : Option (K → Vec K n) := ip.map fun e t => e (-t)
def rObs {σ : Type} (ob : Obs σ K n) : Obs σ K n := fun s xold x y ip => ob s (-xold) (-x) y (rIp ip)
def rEv : Ev K n → Ev K n
  | .ode i t y => .ode i (-t) y
  | .cb xo x y s => .cb (-xo) (-x) y s
def rMeter (m : Meter K n) : Meter K n := { m with log := m.log.map rEv }
def rState {σ : Type} (s : R4State σ K n) : R4State σ K n := { s with x := -s.x, h := -s.h, k1 := vneg s.k1, m := rMeter s.m }
def rResult {σ : Type} (r : Result σ K n) : Result σ K n := { r with x := -r.x, h := -r.h, m := rMeter r.m }
def rParams (P : R4Params K) : R4Params K := { P with xend := -P.xend }

theorem vneg_vneg (v : Vector K n) : vneg (vneg v) = v := by
  ext i hi; simp [vneg]

theorem rMeter_ncalls (m : Meter K n) : (rMeter m).ncalls = m.ncalls := rfl
theorem rMeter_cnt (m : Meter K n) : (rMeter m).cnt = m.cnt := rfl

theorem lastGuard4_reflect (x h xend : K) (h0 : h ≠ 0) : Gen.Rk4.lastGuard (-x) (-h) (-xend) ↔ Gen.Rk4.lastGuard x h xend := by
  unfold Gen.Rk4.lastGuard
  simp only [num_lit, num_signum]
  by_cases hh : 0 ≤ h
  · have : ¬ (0 ≤ -h) := by
      intro hc; exact h0 (le_antisymm (by linarith) hh)
    simp only [hh, this, if_true, if_false]
    constructor <;> intro hg <;> nlinarith
  · have : 0 ≤ -h := by linarith
    simp only [hh, this, if_true, if_false]
    constructor <;> intro hg <;> nlinarith

/-- `rk4Adjust` of the mirrored state: the negated step, the same landing decision -/
theorem rk4Adjust_reflect {σ : Type} (P : R4Params K) (s : R4State σ K n) (h0 : s.h ≠ 0) :
    rk4Adjust (rParams P) (rState s) = (-(rk4Adjust P s).1, (rk4Adjust P s).2) := by
  unfold rk4Adjust
  have hg := lastGuard4_reflect s.x s.h P.xend h0
  by_cases hl : Gen.Rk4.lastGuard s.x s.h P.xend
  · have hl' : Gen.Rk4.lastGuard (rState s).x (rState s).h (rParams P).xend := hg.mpr hl
    rw [if_pos hl, if_pos hl']
    show (-P.xend - -s.x, true) = (-(P.xend - s.x), true)
    congr 1; ring
  · have hl' : ¬ Gen.Rk4.lastGuard (rState s).x (rState s).h (rParams P).xend := fun h => hl (hg.mp h)
    rw [if_neg hl, if_neg hl']
    rfl

theorem logCalls_map (log : Array (Ev K n)) (base : Nat) (calls : Array (K × Vec K n)) :
    (logCalls log base calls).map rEv = logCalls (log.map rEv) base (calls.map mirror) := by
  unfold logCalls
  rw [← Array.foldl_toList, ← Array.foldl_toList]
  have hz : (calls.map mirror).zipIdx.toList = calls.zipIdx.toList.map (fun p => (mirror p.1, p.2)) := by
    rw [Array.toList_zipIdx, Array.toList_zipIdx, Array.toList_map, List.zipIdx_map]
    rfl
  rw [hz]
  generalize calls.zipIdx.toList = xs
  induction xs generalizing log with
  | nil => simp
  | cons a xs ih =>
    simp only [List.foldl_cons, List.map_cons]
    rw [ih]
    congr 1
    simp [rEv, mirror]

theorem rMeter_bump (m : Meter K n) (calls : Array (K × Vec K n)) (lit : Nat) :
    rMeter (m.bump calls lit) = (rMeter m).bump (calls.map mirror) lit := by
  unfold Meter.bump rMeter
  simp [logCalls_map]

theorem rMeter_cb (m : Meter K n) (xold x : K) (y : Vec K n) (smp : Array (Vec K n)) :
    rMeter (m.cb xold x y smp) = (rMeter m).cb (-xold) (-x) y smp := by
  unfold Meter.cb rMeter; simp [rEv]

theorem rMeter_incTotal (m : Meter K n) : rMeter m.incTotal = (rMeter m).incTotal := rfl
theorem rMeter_incAccepted (m : Meter K n) : rMeter m.incAccepted = (rMeter m).incAccepted := rfl
theorem rMeter_refresh (m : Meter K n) (x : K) (y : Vec K n) : rMeter (m.refresh x y) = (rMeter m).refresh (-x) y := by
  unfold Meter.refresh rMeter; simp [rEv]

section stages
open Gen.Rk4

theorem loop1_reflect (y k1 : Vector K n) (h : K) : stages_loop1 (y := y) (h := -h) (k1 := vneg k1) = stages_loop1 (y := y) (h := h) (k1 := k1) := by
  ext i hi; simp [stages_loop1, vneg]
theorem loop2_reflect (y k2 : Vector K n) (h : K) : stages_loop2 (y := y) (h := -h) (k2 := vneg k2) = stages_loop2 (y := y) (h := h) (k2 := k2) := by
  ext i hi; simp [stages_loop2, vneg]
theorem loop3_reflect (y k3 : Vector K n) (h : K) : stages_loop3 (y := y) (h := -h) (k3 := vneg k3) = stages_loop3 (y := y) (h := h) (k3 := k3) := by
  ext i hi; simp [stages_loop3, vneg]

/-- the three trial stages of the mirrored problem: same intermediate states, negated slopes, mirrored call times -/
theorem stages_reflect_gen (f : Nat → K → Vector K n → Vector K n) (y k1 : Vector K n) (x h : K) (last : Bool) (xend : K) :
    let o := stages (f := f) (y := y) (h := h) (k1 := k1) (x := x) (last := last) (xend := xend)
    let o' := stages (f := rRhs f) (y := y) (h := -h) (k1 := vneg k1) (x := -x) (last := last) (xend := -xend)
    o'.yt = o.yt ∧ o'.k2 = vneg o.k2 ∧ o'.k3 = vneg o.k3 ∧ o'.k4 = vneg o.k4 ∧ o'.xph = -o.xph ∧ o'.calls = o.calls.map mirror := by
  intro o o'
  have t1 : -(-x + (C2 : K) * -h) = x + C2 * h := by ring
  have t2 : -(-x + (C3 : K) * -h) = x + C3 * h := by ring
  have t3 : (if last = true then -xend else -x + (C4 : K) * -h) = -(if last = true then xend else x + C4 * h) := by
    cases last <;> simp <;> ring
  simp only [o, o', stages, rRhs, loop1_reflect, t1, loop2_reflect, t2, loop3_reflect, t3, neg_neg]
  simp [mirror]
  ring
theorem update_loop_reflect (y k1 k2 k3 k4 : Vector K n) (h : K) :
    update_loop1 (h := -h) (k1 := vneg k1) (k2 := vneg k2) (k3 := vneg k3) (k4 := vneg k4) (y := y)
      = update_loop1 (h := h) (k1 := k1) (k2 := k2) (k3 := k3) (k4 := k4) (y := y) := by
  ext i hi; simp [update_loop1, vneg]; ring

theorem update_reflect_gen (f : Nat → K → Vector K n → Vector K n) (y k1 k2 k3 k4 : Vector K n) (xph h : K) :
    let u := update (f := f) (xph := xph) (h := h) (k1 := k1) (k2 := k2) (k3 := k3) (k4 := k4) (y := y)
    let u' := update (f := rRhs f) (xph := -xph) (h := -h) (k1 := vneg k1) (k2 := vneg k2) (k3 := vneg k3) (k4 := vneg k4) (y := y)
    u'.x = -u.x ∧ u'.y = u.y ∧ u'.k2 = vneg u.k2 ∧ u'.k1 = vneg u.k1 ∧ u'.calls = u.calls.map mirror := by
  intro u u'
  simp only [u, u', update, rRhs, update_loop_reflect, neg_neg]
  simp [mirror]

/-- the Hermite interpolant of the mirrored step, evaluated at the mirrored abscissa, is the interpolant of the step -/
theorem interp_reflect (c0 c1 c2 c3 : Vector K n) (xold h xi : K) :
    interpolate (xi := -xi) (xold := -xold) (h := -h) (cont0 := c0) (cont1 := vneg c1) (cont2 := vneg c2) (cont3 := c3)
      = interpolate (xi := xi) (xold := xold) (h := h) (cont0 := c0) (cont1 := c1) (cont2 := c2) (cont3 := c3) := by
  have ht : (-xi - -xold) / -h = (xi - xold) / h := by
    rw [show -xi - -xold = -(xi - xold) by ring, neg_div_neg_eq]
  simp only [interpolate, interpolate_loop1, ht]
  generalize (xi - xold) / h = t
  ext i hi
  simp [vneg]

theorem dense_reflect (yt k2 k1 y : Vector K n) :
    let d := dense (yt := yt) (k2 := k2) (k1 := k1) (y := y)
    let d' := dense (yt := yt) (k2 := vneg k2) (k1 := vneg k1) (y := y)
    d'.cont0 = d.cont0 ∧ d'.cont1 = vneg d.cont1 ∧ d'.cont2 = vneg d.cont2 ∧ d'.cont3 = d.cont3 := by
  intro d d'
  refine ⟨rfl, ?_, ?_, rfl⟩ <;> (ext i hi; simp [d, d', dense, dense_loop1, vneg])
end stages

theorem rIp_rIp (ip : Option (K → Vec K n)) : rIp (rIp ip) = ip := by
  cases ip with
  | none => rfl
  | some e => simp [rIp, Option.map, neg_neg]

theorem sampleInterp_reflect (ip : Option (K → Vec K n)) (xold x q hf t : K) :
    sampleInterp (rIp ip) (-xold) (-x) q hf t = sampleInterp ip xold x q hf t := by
  cases ip with
  | none => rfl
  | some e =>
    simp only [sampleInterp, rIp, Option.map, neg_neg]
    have a1 : ∀ c : K, -(-xold + c * (-x - -xold)) = xold + c * (x - xold) := fun c => by ring
    simp only [a1]

def rAfter {σ : Type} : AfterCb σ K n → AfterCb σ K n
  | .stop o y => .stop o y
  | .go o y k1 m => .go o y (vneg k1) (rMeter m)

theorem afterCb_reflect {σ : Type} (f : Rhs K n) (ob : Obs σ K n) (obs : σ) (m : Meter K n) (xold x : K) (y : Vec K n)
    (ip : Option (K → Vec K n)) (kNext : Vec K n) :
    afterCb (rRhs f) (rObs ob) obs (rMeter m) (-xold) (-x) y (rIp ip) (vneg kNext)
      = rAfter (afterCb f ob obs m xold x y ip kNext) := by
  unfold afterCb rObs
  simp only [neg_neg, rIp_rIp]
  cases (ob obs xold x y ip).2.1 <;> simp [rAfter, rRhs, rMeter_refresh, rMeter_ncalls, neg_neg]

def rOut {σ : Type} : Sum (R4State σ K n) (Result σ K n) → Sum (R4State σ K n) (Result σ K n)
  | .inl s => .inl (rState s)
  | .inr r => .inr (rResult r)

/-- the part of a pass after the guards, for an adjusted step `h` and landing decision `L` -/
def rk4Body {σ : Type} (P : R4Params K) (f : Rhs K n) (ob : Obs σ K n) (s : R4State σ K n) (h : K) (L : Bool) :
    Sum (R4State σ K n) (Result σ K n) :=
  let o := Gen.Rk4.stages (f := fun j => f (s.m.ncalls + j)) (y := s.y) (h := h) (k1 := s.k1) (x := s.x) (last := L) (xend := P.xend)
  let m := s.m.bump o.calls 3
  let xold := s.x
  let u := Gen.Rk4.update (f := fun j => f (m.ncalls + j)) (xph := o.xph) (h := h) (k1 := s.k1) (k2 := o.k2) (k3 := o.k3)
    (k4 := o.k4) (y := s.y)
  let m := (m.bump u.calls 1).incTotal.incAccepted
  let ip : Option (K → Vec K n) :=
    if P.dense then
      let d := Gen.Rk4.dense (yt := s.y) (k2 := u.k2) (k1 := u.k1) (y := u.y)
      some fun xi => Gen.Rk4.interpolate (xi := xi) (xold := xold) (h := h) (cont0 := d.cont0) (cont1 := d.cont1)
        (cont2 := d.cont2) (cont3 := d.cont3)
    else none
  let m := m.cb xold u.x u.y (sampleInterp ip xold u.x P.quarter P.half P.threeq)
  match afterCb f ob s.obs m xold u.x u.y ip u.k1 with
  | .stop obs y => .inr { status := .userInterrupt, h := h, x := u.x, y := y, m := m, obs := obs }
  | .go obs y k1 m =>
    if L then .inr { status := .success, h := h, x := u.x, y := y, m := m, obs := obs }
    else .inl { x := u.x, h := h, y := y, k1 := k1, m := m, obs := obs }

theorem rk4Iter_eq_body {σ : Type} (P : R4Params K) (f : Rhs K n) (ob : Obs σ K n) (s : R4State σ K n) :
    rk4Iter P f ob s =
      if s.m.cnt.total ≥ P.nmax then .inr { status := .needLargerNMax, h := s.h, x := s.x, y := s.y, m := s.m, obs := s.obs }
      else if Num.eqb (s.x + (rk4Adjust P s).1) s.x then
        .inr { status := .stepSizeTooSmall, h := (rk4Adjust P s).1, x := s.x, y := s.y, m := s.m, obs := s.obs }
      else rk4Body P f ob s (rk4Adjust P s).1 (rk4Adjust P s).2 := rfl

theorem stages_reflect_off (F : Rhs K n) (c : Nat) (y k1 : Vector K n) (x h : K) (last : Bool) (xend : K) :
    let o := Gen.Rk4.stages (f := fun j => F (c + j)) (y := y) (h := h) (k1 := k1) (x := x) (last := last) (xend := xend)
    let o' := Gen.Rk4.stages (f := fun j => rRhs F (c + j)) (y := y) (h := -h) (k1 := vneg k1) (x := -x) (last := last) (xend := -xend)
    o'.yt = o.yt ∧ o'.k2 = vneg o.k2 ∧ o'.k3 = vneg o.k3 ∧ o'.k4 = vneg o.k4 ∧ o'.xph = -o.xph ∧ o'.calls = o.calls.map mirror :=
  stages_reflect_gen (fun j => F (c + j)) y k1 x h last xend

theorem update_reflect_off (F : Rhs K n) (c : Nat) (y k1 k2 k3 k4 : Vector K n) (xph h : K) :
    let u := Gen.Rk4.update (f := fun j => F (c + j)) (xph := xph) (h := h) (k1 := k1) (k2 := k2) (k3 := k3) (k4 := k4) (y := y)
    let u' := Gen.Rk4.update (f := fun j => rRhs F (c + j)) (xph := -xph) (h := -h) (k1 := vneg k1) (k2 := vneg k2) (k3 := vneg k3) (k4 := vneg k4) (y := y)
    u'.x = -u.x ∧ u'.y = u.y ∧ u'.k2 = vneg u.k2 ∧ u'.k1 = vneg u.k1 ∧ u'.calls = u.calls.map mirror :=
  update_reflect_gen (fun j => F (c + j)) y k1 k2 k3 k4 xph h

theorem ip_reflect (dn : Bool) (y uk2 uk1 uy : Vec K n) (x h : K) :
    (if dn = true then
        some fun xi => Gen.Rk4.interpolate (xi := xi) (xold := -x) (h := -h) (cont0 := (Gen.Rk4.dense (yt := y) (k2 := vneg uk2) (k1 := vneg uk1) (y := uy)).cont0)
          (cont1 := (Gen.Rk4.dense (yt := y) (k2 := vneg uk2) (k1 := vneg uk1) (y := uy)).cont1)
          (cont2 := (Gen.Rk4.dense (yt := y) (k2 := vneg uk2) (k1 := vneg uk1) (y := uy)).cont2)
          (cont3 := (Gen.Rk4.dense (yt := y) (k2 := vneg uk2) (k1 := vneg uk1) (y := uy)).cont3)
      else none)
    = rIp (if dn = true then
        some fun xi => Gen.Rk4.interpolate (xi := xi) (xold := x) (h := h) (cont0 := (Gen.Rk4.dense (yt := y) (k2 := uk2) (k1 := uk1) (y := uy)).cont0)
          (cont1 := (Gen.Rk4.dense (yt := y) (k2 := uk2) (k1 := uk1) (y := uy)).cont1)
          (cont2 := (Gen.Rk4.dense (yt := y) (k2 := uk2) (k1 := uk1) (y := uy)).cont2)
          (cont3 := (Gen.Rk4.dense (yt := y) (k2 := uk2) (k1 := uk1) (y := uy)).cont3)
      else none) := by
  obtain ⟨d0, d1, d2, d3⟩ := dense_reflect y uk2 uk1 uy
  cases dn with
  | false => rfl
  | true =>
    simp only [if_true, rIp, Option.map]
    congr 1
    funext xi
    rw [d0, d1, d2, d3]
    have := interp_reflect (Gen.Rk4.dense (yt := y) (k2 := uk2) (k1 := uk1) (y := uy)).cont0 (Gen.Rk4.dense (yt := y) (k2 := uk2) (k1 := uk1) (y := uy)).cont1
      (Gen.Rk4.dense (yt := y) (k2 := uk2) (k1 := uk1) (y := uy)).cont2 (Gen.Rk4.dense (yt := y) (k2 := uk2) (k1 := uk1) (y := uy)).cont3 x h (-xi)
    rw [neg_neg] at this
    exact this

/-- **C13, the body of an RK4 pass under time reflection.** -/
theorem rk4Body_reflect {σ : Type} (P : R4Params K) (f : Rhs K n) (ob : Obs σ K n) (x hs : K) (y k1 : Vec K n) (m : Meter K n)
    (obs : σ) (h : K) (L : Bool) :
    rk4Body (rParams P) (rRhs f) (rObs ob) (rState { x := x, h := hs, y := y, k1 := k1, m := m, obs := obs }) (-h) L
      = rOut (rk4Body P f ob { x := x, h := hs, y := y, k1 := k1, m := m, obs := obs } h L) := by
  obtain ⟨xend, nmax, dns, q1, q2, q3⟩ := P
  unfold rk4Body
  dsimp (config := { instances := true }) only [rState, rParams]
  simp only [rMeter_ncalls]
  obtain ⟨e1, e2, e3, e4, e5, e6⟩ := stages_reflect_off f m.ncalls y k1 x h L xend
  generalize Gen.Rk4.stages (f := fun j => rRhs f (m.ncalls + j)) (y := y) (h := -h) (k1 := vneg k1) (x := -x) (last := L) (xend := -xend) = O' at *
  generalize Gen.Rk4.stages (f := fun j => f (m.ncalls + j)) (y := y) (h := h) (k1 := k1) (x := x) (last := L) (xend := xend) = O at *
  obtain ⟨oyt, ok2, ocalls, ok3, oxph, ok4⟩ := O
  obtain ⟨oyt', ok2', ocalls', ok3', oxph', ok4'⟩ := O'
  simp only at e1 e2 e3 e4 e5 e6
  subst e1 e2 e3 e4 e5 e6
  dsimp only
  have hn : ((rMeter m).bump (Array.map mirror ocalls) 3).ncalls = (m.bump ocalls 3).ncalls := by
    simp [Meter.bump, rMeter]
  rw [hn]
  obtain ⟨u1, u2, u3, u4, u5⟩ := update_reflect_off f (m.bump ocalls 3).ncalls y k1 ok2 ok3 ok4 oxph h
  generalize Gen.Rk4.update (f := fun j => rRhs f ((m.bump ocalls 3).ncalls + j)) (xph := -oxph) (h := -h) (k1 := vneg k1) (k2 := vneg ok2) (k3 := vneg ok3) (k4 := vneg ok4) (y := y) = U' at *
  generalize Gen.Rk4.update (f := fun j => f ((m.bump ocalls 3).ncalls + j)) (xph := oxph) (h := h) (k1 := k1) (k2 := ok2) (k3 := ok3) (k4 := ok4) (y := y) = U at *
  obtain ⟨ux, uy, uk2, uk1, ucalls⟩ := U
  obtain ⟨ux', uy', uk2', uk1', ucalls'⟩ := U'
  simp only at u1 u2 u3 u4 u5
  subst u1 u2 u3 u4 u5
  dsimp only
  rw [ip_reflect]
  generalize (if dns = true then
        some fun xi => Gen.Rk4.interpolate (xi := xi) (xold := x) (h := h) (cont0 := (Gen.Rk4.dense (yt := y) (k2 := uk2) (k1 := uk1) (y := uy')).cont0)
          (cont1 := (Gen.Rk4.dense (yt := y) (k2 := uk2) (k1 := uk1) (y := uy')).cont1)
          (cont2 := (Gen.Rk4.dense (yt := y) (k2 := uk2) (k1 := uk1) (y := uy')).cont2)
          (cont3 := (Gen.Rk4.dense (yt := y) (k2 := uk2) (k1 := uk1) (y := uy')).cont3)
      else none) = IP
  rw [sampleInterp_reflect, ← rMeter_bump, ← rMeter_bump, ← rMeter_incTotal, ← rMeter_incAccepted, ← rMeter_cb, afterCb_reflect]
  cases afterCb f ob obs (((m.bump ocalls 3).bump ucalls 1).incTotal.incAccepted.cb x ux uy' (sampleInterp IP x ux q1 q2 q3)) x ux uy' IP uk1 with
  | stop o yy => rfl
  | go o yy kk mm =>
    cases L <;> rfl

/-- **C13, one pass of RK4 under time reflection** (mirrored problem, mirrored observer, mirrored state). -/
theorem rk4Iter_reflect {σ : Type} (P : R4Params K) (f : Rhs K n) (ob : Obs σ K n) (s : R4State σ K n) (h0 : s.h ≠ 0) :
    rk4Iter (rParams P) (rRhs f) (rObs ob) (rState s) = rOut (rk4Iter P f ob s) := by
  rw [rk4Iter_eq_body, rk4Iter_eq_body]
  have hA := rk4Adjust_reflect P s h0
  by_cases hb : s.m.cnt.total ≥ P.nmax
  · have hb' : (rState s).m.cnt.total ≥ (rParams P).nmax := hb
    rw [if_pos hb, if_pos hb']
    rfl
  · have hb' : ¬ (rState s).m.cnt.total ≥ (rParams P).nmax := hb
    rw [if_neg hb, if_neg hb', hA]
    have hst : Num.eqb ((rState s).x + -(rk4Adjust P s).1) (rState s).x = Num.eqb (s.x + (rk4Adjust P s).1) s.x := by
      show Num.eqb (-s.x + -(rk4Adjust P s).1) (-s.x) = _
      have : (-s.x + -(rk4Adjust P s).1 = -s.x) ↔ (s.x + (rk4Adjust P s).1 = s.x) := by
        constructor <;> intro h <;> linarith
      exact Bool.eq_iff_iff.mpr (by rw [num_eqb, num_eqb]; exact this)
    dsimp only
    rw [hst]
    by_cases hz : Num.eqb (s.x + (rk4Adjust P s).1) s.x = true
    · rw [if_pos hz, if_pos hz]; rfl
    · rw [if_neg hz, if_neg hz]
      obtain ⟨x, hs, y, k1, m, obs⟩ := s
      exact rk4Body_reflect P f ob x hs y k1 m obs _ _

/-- the step kept for the next pass is the step of this pass -/
theorem rk4Iter_keeps_step {σ : Type} (P : R4Params K) (f : Rhs K n) (ob : Obs σ K n) (s s' : R4State σ K n)
    (h : rk4Iter P f ob s = .inl s') : s'.h = s.h := by
  rw [rk4Iter_eq_body] at h
  by_cases hb : s.m.cnt.total ≥ P.nmax
  · rw [if_pos hb] at h; cases h
  · rw [if_neg hb] at h
    by_cases hz : Num.eqb (s.x + (rk4Adjust P s).1) s.x = true
    · rw [if_pos hz] at h; cases h
    · rw [if_neg hz] at h
      have hL : (rk4Adjust P s).2 = false → (rk4Adjust P s).1 = s.h := by
        unfold rk4Adjust
        split
        · intro hc; cases hc
        · intro _; rfl
      unfold rk4Body at h
      dsimp only at h
      split at h
      · cases h
      · by_cases hl : (rk4Adjust P s).2 = true
        · rw [if_pos hl] at h; cases h
        · rw [if_neg hl] at h
          injection h with h
          rw [← h]
          exact hL (by cases hq : (rk4Adjust P s).2 <;> simp_all)

/-- **C13, whole RK4 runs under time reflection.**  For every right-hand side, observer, fuel and non-zero step: the run of
    the mirrored problem is the mirror image of the run — calls, callbacks, interpolant samples, status, counters. -/
theorem rk4Loop_reflect {σ : Type} (P : R4Params K) (f : Rhs K n) (ob : Obs σ K n) :
    ∀ (fuel : Nat) (s : R4State σ K n), s.h ≠ 0 →
      rk4Loop (rParams P) (rRhs f) (rObs ob) fuel (rState s) = (rk4Loop P f ob fuel s).map rResult := by
  intro fuel
  induction fuel with
  | zero => intro s _; rfl
  | succ fuel ih =>
    intro s h0
    unfold rk4Loop
    rw [rk4Iter_reflect P f ob s h0]
    cases hq : rk4Iter P f ob s with
    | inr r => rfl
    | inl s' =>
      have hk := rk4Iter_keeps_step P f ob s s' hq
      exact ih s' (by rw [hk]; exact h0)

theorem rk4Start_reflect {σ : Type} (f : Rhs K n) (ob : Obs σ K n) (obs0 : σ) (x0 : K) (y0 : Vec K n) (h : K) :
    rk4Start (rRhs f) (rObs ob) obs0 (-x0) y0 (-h) = rOut (rk4Start f ob obs0 x0 y0 h) := by
  unfold rk4Start
  have hm : ((({} : Meter K n).bump #[(-x0, y0)] 1).cb (-x0) (-x0) y0 #[]) = rMeter ((({} : Meter K n).bump #[(x0, y0)] 1).cb x0 x0 y0 #[]) := by
    rw [rMeter_cb, rMeter_bump]
    simp [rMeter, mirror]
  have hk : rRhs f 0 (-x0) y0 = vneg (f 0 x0 y0) := by simp [rRhs]
  have ha := afterCb_reflect f ob obs0 ((({} : Meter K n).bump #[(x0, y0)] 1).cb x0 x0 y0 #[]) x0 x0 y0 none (f 0 x0 y0)
  rw [show rIp (none : Option (K → Vec K n)) = none from rfl] at ha
  dsimp only
  rw [hm, hk, ha]
  cases afterCb f ob obs0 ((({} : Meter K n).bump #[(x0, y0)] 1).cb x0 x0 y0 #[]) x0 x0 y0 none (f 0 x0 y0) with
  | stop o yy => rfl
  | go o yy kk mm => rfl

/-- **C13 (RK4, whole run from the start).**  `solve` on the time-reflected problem — `z' = −f(−s, z)` from `−x0` with step
    `−h` toward `−xend`, observed through the mirrored observer — returns the mirror image of `solve` on the problem: the same
    states, negated times in every right-hand-side call and every callback, the same interpolant samples, status and counters. -/
theorem rk4Solve_reflect {σ : Type} (P : R4Params K) (f : Rhs K n) (ob : Obs σ K n) (obs0 : σ) (x0 : K) (y0 : Vec K n) (h : K)
    (h0 : h ≠ 0) (fuel : Nat) :
    rk4Solve (rParams P) (rRhs f) (rObs ob) obs0 (-x0) y0 (-h) fuel = (rk4Solve P f ob obs0 x0 y0 h fuel).map rResult := by
  unfold rk4Solve
  rw [rk4Start_reflect]
  cases hq : rk4Start f ob obs0 x0 y0 h with
  | inr r => rfl
  | inl s =>
    have hs : s.h = h := by
      unfold rk4Start at hq
      dsimp only at hq
      split at hq
      · cases hq
      · injection hq with hq; rw [← hq]
    exact rk4Loop_reflect P f ob fuel s (by rw [hs]; exact h0)

end
end Ctl
