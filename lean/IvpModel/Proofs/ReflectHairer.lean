import IvpModel.Proofs.ReflectRk23
import IvpModel.Model.Kernels
set_option linter.unusedSectionVars false
set_option linter.unusedSimpArgs false
set_option linter.unusedTactic false
set_option linter.unnecessarySeqFocus false
set_option linter.unusedVariables false

/-!
  C13, whole runs of the DOPRI5 / DOP853 skeleton under time reflection, for ANY numeric kernel that obeys the mirror laws
  `KRefl` (its stages, error estimate, stiffness quotient, dense output and interpolant commute with the mirror) and any
  controller whose guards and step-size formulas obey `PRefl`.  Induction over the loop of Model/Hairer.lean.
-/
namespace Ctl
noncomputable section
variable {K : Type} [Field K] [LinearOrder K] [IsStrictOrderedRing K] [SqrtPow K] {n : Nat}

/-- mirror laws of a numeric kernel -/
structure KRefl (Kn : HKernel K n) where
  rS : Kn.S → Kn.S
  rSA : Kn.SA → Kn.SA
  rC : Array (Vec K n) → Array (Vec K n)
  trial : ∀ (F : Rhs K n) (c : Nat) (x h : K) (last : Bool) (xend : K) (y k1 : Vec K n),
    Kn.trial (fun j => rRhs F (c + j)) (-x) (-h) last (-xend) y (vneg k1)
      = (rS (Kn.trial (fun j => F (c + j)) x h last xend y k1).1, (Kn.trial (fun j => F (c + j)) x h last xend y k1).2.1.map mirror,
         (Kn.trial (fun j => F (c + j)) x h last xend y k1).2.2)
  err : ∀ (s : Kn.S) (y : Vec K n) (h : K), Kn.err (rS s) y (-h) = Kn.err s y h
  acceptA : ∀ (F : Rhs K n) (c : Nat) (s : Kn.S) (x h : K) (y k1 : Vec K n),
    Kn.acceptA (fun j => rRhs F (c + j)) (rS s) (-x) (-h) y (vneg k1)
      = (rSA (Kn.acceptA (fun j => F (c + j)) s x h y k1).1, (Kn.acceptA (fun j => F (c + j)) s x h y k1).2.1.map mirror,
         (Kn.acceptA (fun j => F (c + j)) s x h y k1).2.2)
  hlamb : ∀ (a : Kn.SA) (h : K) (y k1 : Vec K n) (old : K), Kn.hlamb (rSA a) (-h) y (vneg k1) old = Kn.hlamb a h y k1 old
  acceptB : ∀ (F : Rhs K n) (c : Nat) (d : Bool) (a : Kn.SA) (x h : K) (y k1 : Vec K n),
    Kn.acceptB (fun j => rRhs F (c + j)) d (rSA a) (-x) (-h) y (vneg k1)
      = ((Kn.acceptB (fun j => F (c + j)) d a x h y k1).1, vneg (Kn.acceptB (fun j => F (c + j)) d a x h y k1).2.1,
         rC (Kn.acceptB (fun j => F (c + j)) d a x h y k1).2.2.1, (Kn.acceptB (fun j => F (c + j)) d a x h y k1).2.2.2.1.map mirror,
         (Kn.acceptB (fun j => F (c + j)) d a x h y k1).2.2.2.2)
  interp : ∀ (c : Array (Vec K n)) (xold h t : K), Kn.interp (rC c) (-xold) (-h) (-t) = Kn.interp c xold h t

/-- mirror laws of the guards and step-size formulas -/
structure PRefl (P : HParams K n) : Prop where
  underflow : ∀ h x u, P.underflow (-h) (-x) u ↔ P.underflow h x u
  lastG : ∀ x h e p, P.lastG (-x) (-h) (-e) (-p) ↔ P.lastG x h e p
  hnewCalc : ∀ err facold h, P.hnewCalc err facold (-h) = ((P.hnewCalc err facold h).1, -(P.hnewCalc err facold h).2)
  hReject : ∀ h fac11, P.hReject (-h) fac11 = -(P.hReject h fac11)

def rHP (P : HParams K n) : HParams K n := { P with xend := -P.xend, posneg := -P.posneg }
def rHS {σ : Type} (s : HState σ K n) : HState σ K n := { s with x := -s.x, h := -s.h, k1 := vneg s.k1, m := rMeter s.m }
def rOutH {σ : Type} : Sum (HState σ K n) (Result σ K n) → Sum (HState σ K n) (Result σ K n)
  | .inl s => .inl (rHS s)
  | .inr r => .inr (rResult r)

theorem hGuard_reflect {σ : Type} (P : HParams K n) (hP : PRefl P) (s : HState σ K n) : hGuard (rHP P) (rHS s) = hGuard P s := by
  unfold hGuard
  have hu := hP.underflow s.h s.x P.uround
  by_cases hb : s.m.cnt.total > P.nmax
  · have hb' : (rHS s).m.cnt.total > (rHP P).nmax := hb
    rw [if_pos hb, if_pos hb']
  · have hb' : ¬ (rHS s).m.cnt.total > (rHP P).nmax := hb
    rw [if_neg hb, if_neg hb']
    by_cases hg : P.underflow s.h s.x P.uround
    · rw [if_pos hg, if_pos (show (rHP P).underflow (rHS s).h (rHS s).x (rHP P).uround from hu.mpr hg)]
    · rw [if_neg hg, if_neg (show ¬ (rHP P).underflow (rHS s).h (rHS s).x (rHP P).uround from fun h => hg (hu.mp h))]

theorem hAdjust_reflect {σ : Type} (P : HParams K n) (hP : PRefl P) (s : HState σ K n) :
    hAdjust (rHP P) (rHS s) = (-(hAdjust P s).1, (hAdjust P s).2) := by
  unfold hAdjust
  have hg := hP.lastG s.x s.h P.xend P.posneg
  by_cases hl : P.lastG s.x s.h P.xend P.posneg
  · have hl' : (rHP P).lastG (rHS s).x (rHS s).h (rHP P).xend (rHP P).posneg := hg.mpr hl
    rw [if_pos hl, if_pos hl']
    show (-P.xend - -s.x, true) = (-(P.xend - s.x), true)
    congr 1; ring
  · have hl' : ¬ (rHP P).lastG (rHS s).x (rHS s).h (rHP P).xend (rHP P).posneg := fun h => hl (hg.mp h)
    rw [if_neg hl, if_neg hl']
    rfl

theorem hNextStep_reflect (P : HParams K n) (hnew h : K) (rj : Bool) :
    hNextStep (rHP P) (-hnew) (-h) rj = -(hNextStep P hnew h rj) := by
  unfold hNextStep
  simp only [rHP, num_abs, num_fmin, abs_neg]
  by_cases hc : |hnew| > |P.hmax|
  · simp only [hc, if_true]
    cases rj <;> simp <;> ring
  · simp only [hc, if_false]
    cases rj <;> simp
def rHT {Kn : HKernel K n} (KR : KRefl Kn) (T : HTrial K n Kn.S) : HTrial K n Kn.S :=
  { S := KR.rS T.S, m := rMeter T.m, err := T.err, fac11 := T.fac11, hnew := -T.hnew }

theorem hTrial_reflect {σ : Type} (P : HParams K n) (hP : PRefl P) (Kn : HKernel K n) (KR : KRefl Kn) (f : Rhs K n) (s : HState σ K n)
    (h : K) (L : Bool) :
    hTrial (rHP P) Kn (rRhs f) (rHS s) (-h) L = rHT KR (hTrial P Kn f s h L) := by
  unfold hTrial rHT
  dsimp only [rHS, rHP]
  simp only [rMeter_ncalls, KR.trial, KR.err, hP.hnewCalc]
  congr 1
  rw [rMeter_bump]
  rfl

theorem hRejected_reflect {σ : Type} (P : HParams K n) (hP : PRefl P) (s : HState σ K n) (h : K) (m : Meter K n) (fac11 : K) :
    hRejected (rHP P) (rHS s) (-h) (rMeter m) fac11 = rHS (hRejected P s h m fac11) := by
  unfold hRejected
  show ({ rHS s with h := P.hReject (-h) fac11, reject := true, last := false, m := if (rMeter m).cnt.accepted > 1 then (rMeter m).incRejected else rMeter m } : HState σ K n) = _
  rw [hP.hReject]
  simp only [rHS, rMeter_cnt]
  congr 1
  by_cases hc : m.cnt.accepted > 1
  · simp only [hc, if_true, rMeter_incRejected]
  · simp only [hc, if_false]

theorem hStiffTest_reflect {σ : Type} (P : HParams K n) (Kn : HKernel K n) (KR : KRefl Kn) (s : HState σ K n) (h : K) (sa : Kn.SA) (acc : Nat) :
    hStiffTest (rHP P) Kn (rHS s) (-h) (KR.rSA sa) acc = hStiffTest P Kn s h sa acc := by
  unfold hStiffTest
  dsimp only [rHS, rHP]
  simp only [KR.hlamb]
  rfl

theorem hFinish_reflect {σ : Type} (P : HParams K n) (Kn : HKernel K n) (KR : KRefl Kn) (f : Rhs K n) (ob : Obs σ K n)
    (s : HState σ K n) (h : K) (last : Bool) (hnew facold hlamb : K) (nonstiff iasti : Nat) (sa : Kn.SA) (m : Meter K n) :
    hFinish (rHP P) Kn (rRhs f) (rObs ob) (rHS s) (-h) last (-hnew) facold hlamb nonstiff iasti (KR.rSA sa) (rMeter m)
      = rOutH (hFinish P Kn f ob s h last hnew facold hlamb nonstiff iasti sa m) := by
  have hns := hNextStep_reflect P hnew h s.reject
  obtain ⟨xend, posneg, uround, safety, facc1, facc2, beta, expo1, hmax, nmax, nstiff, dns, stiffLimit, one, q1, q2, q3, uf, ufd, lg, lgd, hc, hr, fo⟩ := P
  obtain ⟨x, hs, y, k1, facold0, last0, reject, nonstiff0, iasti0, hlamb0, m0, obs⟩ := s
  unfold hFinish
  dsimp (config := { instances := true }) only [rHS, rHP]
  simp only [rMeter_ncalls, KR.acceptB]
  generalize Kn.acceptB (fun j => f (m.ncalls + j)) dns sa x h y k1 = B
  obtain ⟨b1, b2, b3, b4, b5⟩ := B
  dsimp only
  have hland : landX last (-xend) (-x) (-h) = -(landX last xend x h) := by
    unfold landX; cases last <;> simp; ring
  have hip : (if dns = true then some (Kn.interp (KR.rC b3) (-x) (-h)) else none) = rIp (if dns = true then some (Kn.interp b3 x h) else none) := by
    cases dns with
    | false => rfl
    | true =>
      simp only [if_true, rIp, Option.map]
      congr 1
      funext t
      have := KR.interp b3 x h (-t)
      rw [neg_neg] at this
      exact this
  rw [hland, hip]
  generalize (if dns = true then some (Kn.interp b3 x h) else none) = IP
  rw [sampleInterp_reflect, ← rMeter_bump, ← rMeter_cb, afterCb_reflect]
  simp only [rHP] at hns
  cases afterCb f ob obs ((m.bump b4 b5).cb x (landX last xend x h) b1 (sampleInterp IP x (landX last xend x h) q1 q2 q3)) x (landX last xend x h) b1 IP b2 with
  | stop o yy => rfl
  | go o yy kk mm =>
    simp only [rAfter]
    cases last with
    | true => rfl
    | false =>
      simp only [Bool.false_eq_true, if_false, hns]
      rfl

theorem hAccepted_reflect {σ : Type} (P : HParams K n) (Kn : HKernel K n) (KR : KRefl Kn) (f : Rhs K n) (ob : Obs σ K n)
    (s : HState σ K n) (h : K) (last : Bool) (T : HTrial K n Kn.S) :
    hAccepted (rHP P) Kn (rRhs f) (rObs ob) (rHS s) (-h) last (rHT KR T) = rOutH (hAccepted P Kn f ob s h last T) := by
  unfold hAccepted
  have hA := KR.acceptA f T.m.incAccepted.ncalls T.S s.x h s.y s.k1
  have e0 : (rHT KR T).m.incAccepted.ncalls = T.m.incAccepted.ncalls := rfl
  have e1 : (rHT KR T).S = KR.rS T.S := rfl
  have e2 : (rHT KR T).m.incAccepted = rMeter T.m.incAccepted := rfl
  have e3 : (rHT KR T).hnew = -T.hnew := rfl
  have e4 : (rHT KR T).err = T.err := rfl
  have ex : (rHS s).x = -s.x := rfl
  have ey : (rHS s).y = s.y := rfl
  have ek : (rHS s).k1 = vneg s.k1 := rfl
  simp only [e0, e1, e2, e3, e4, ex, ey, ek, rMeter_ncalls, hA, ← rMeter_bump, hStiffTest_reflect, rMeter_cnt]
  generalize Kn.acceptA (fun j => f (T.m.incAccepted.ncalls + j)) T.S s.x h s.y s.k1 = A
  obtain ⟨a1, a2, a3⟩ := A
  dsimp only
  generalize hStiffTest P Kn s h a1 (T.m.incAccepted.bump a2 a3).cnt.accepted = ST
  obtain ⟨st1, st2, st3, st4⟩ := ST
  dsimp only
  cases st4 with
  | true => rfl
  | false =>
    simp only [Bool.false_eq_true, if_false]
    exact hFinish_reflect P Kn KR f ob s h last T.hnew (P.facoldNew T.err) st1 st2 st3 a1 (T.m.incAccepted.bump a2 a3)

/-- **C13, one pass of the DOPRI5 / DOP853 loop under time reflection**, for any kernel and controller obeying the mirror laws. -/
theorem hIter_reflect {σ : Type} (P : HParams K n) (hP : PRefl P) (Kn : HKernel K n) (KR : KRefl Kn) (f : Rhs K n) (ob : Obs σ K n)
    (s : HState σ K n) :
    hIter (rHP P) Kn (rRhs f) (rObs ob) (rHS s) = rOutH (hIter P Kn f ob s) := by
  unfold hIter
  rw [hGuard_reflect P hP s]
  cases hg : hGuard P s with
  | some st => rfl
  | none =>
    dsimp only
    rw [hAdjust_reflect P hP s]
    dsimp only
    rw [hTrial_reflect P hP Kn KR f s]
    generalize hTrial P Kn f s (hAdjust P s).1 (hAdjust P s).2 = T
    have he : (rHT KR T).err = T.err := rfl
    have ho : (rHP P).one = P.one := rfl
    rw [he, ho]
    by_cases hacc : T.err ≤ P.one
    · rw [if_pos hacc, if_pos hacc]
      exact hAccepted_reflect P Kn KR f ob s _ _ T
    · rw [if_neg hacc, if_neg hacc]
      show Sum.inl _ = Sum.inl _
      congr 1
      exact hRejected_reflect P hP s _ T.m T.fac11

theorem hLoop_reflect {σ : Type} (P : HParams K n) (hP : PRefl P) (Kn : HKernel K n) (KR : KRefl Kn) (f : Rhs K n) (ob : Obs σ K n) :
    ∀ (fuel : Nat) (s : HState σ K n),
      hLoop (rHP P) Kn (rRhs f) (rObs ob) fuel (rHS s) = (hLoop P Kn f ob fuel s).map rResult := by
  intro fuel
  induction fuel with
  | zero => intro s; rfl
  | succ fuel ih =>
    intro s
    unfold hLoop
    rw [hIter_reflect P hP Kn KR f ob s]
    cases hq : hIter P Kn f ob s with
    | inr r => rfl
    | inl s' => exact ih s'

/-- mirror law of the initial-step routine handed to `hStart` -/
def HinitRefl (hinit hinit' : Rhs K n → Vec K n → K × Array (K × Vec K n)) : Prop :=
  ∀ (F : Rhs K n) (k1 : Vec K n), (hinit' (fun j => rRhs F (1 + j)) (vneg k1)).1 = -(hinit (fun j => F (1 + j)) k1).1
    ∧ (hinit' (fun j => rRhs F (1 + j)) (vneg k1)).2 = (hinit (fun j => F (1 + j)) k1).2.map mirror

theorem hStart_reflect {σ : Type} (P : HParams K n) (f : Rhs K n) (ob : Obs σ K n) (obs0 : σ) (x0 : K) (y0 : Vec K n)
    (firstStep : Option K) (hinit hinit' : Rhs K n → Vec K n → K × Array (K × Vec K n)) (hH : HinitRefl hinit hinit') (fo hl : K) :
    hStart (rHP P) (rRhs f) (rObs ob) obs0 (-x0) y0 firstStep hinit' fo hl = rOutH (hStart P f ob obs0 x0 y0 firstStep hinit fo hl) := by
  unfold hStart startMeter
  have hk : rRhs f 0 (-x0) y0 = vneg (f 0 x0 y0) := by simp [rRhs]
  have hm0 : (({} : Meter K n).bump #[(-x0, y0)] 1) = rMeter (({} : Meter K n).bump #[(x0, y0)] 1) := by
    rw [rMeter_bump]; simp [rMeter, mirror]
  cases firstStep with
  | some h0 =>
    dsimp only [rHP]
    rw [hk, hm0, ← rMeter_cb]
    have ha := afterCb_reflect f ob obs0 ((({} : Meter K n).bump #[(x0, y0)] 1).cb x0 x0 y0 #[]) x0 x0 y0 none (f 0 x0 y0)
    rw [show rIp (none : Option (K → Vec K n)) = none from rfl] at ha
    rw [ha]
    have hh : Num.fmin (Num.abs h0) P.hmax * -P.posneg = -(Num.fmin (Num.abs h0) P.hmax * P.posneg) := by ring
    cases afterCb f ob obs0 ((({} : Meter K n).bump #[(x0, y0)] 1).cb x0 x0 y0 #[]) x0 x0 y0 none (f 0 x0 y0) with
    | stop o yy => simp only [rAfter, rOutH, rResult, hh]
    | go o yy kk mm => simp only [rAfter, rOutH, rHS, hh]
  | none =>
    dsimp only [rHP]
    obtain ⟨g1, g2⟩ := hH f (f 0 x0 y0)
    rw [hk, hm0, g1, g2, ← rMeter_bump, ← rMeter_cb]
    have ha := afterCb_reflect f ob obs0 (((({} : Meter K n).bump #[(x0, y0)] 1).bump (hinit (fun j => f (1 + j)) (f 0 x0 y0)).2 1).cb x0 x0 y0 #[]) x0 x0 y0 none (f 0 x0 y0)
    rw [show rIp (none : Option (K → Vec K n)) = none from rfl] at ha
    rw [ha]
    cases afterCb f ob obs0 (((({} : Meter K n).bump #[(x0, y0)] 1).bump (hinit (fun j => f (1 + j)) (f 0 x0 y0)).2 1).cb x0 x0 y0 #[]) x0 x0 y0 none (f 0 x0 y0) with
    | stop o yy => rfl
    | go o yy kk mm => rfl

/-- **C13, whole runs of the DOPRI5 / DOP853 skeleton under time reflection**: for every kernel, controller and initial-step
    routine obeying the mirror laws, `solve` on the mirrored problem is the mirror image of `solve` on the problem. -/
theorem hSolve_reflect {σ : Type} (P : HParams K n) (hP : PRefl P) (Kn : HKernel K n) (KR : KRefl Kn) (f : Rhs K n) (ob : Obs σ K n)
    (obs0 : σ) (x0 : K) (y0 : Vec K n) (firstStep : Option K) (hinit hinit' : Rhs K n → Vec K n → K × Array (K × Vec K n))
    (hH : HinitRefl hinit hinit') (fo hl : K) (fuel : Nat) :
    hSolve (rHP P) Kn (rRhs f) (rObs ob) obs0 (-x0) y0 firstStep hinit' fo hl fuel
      = (hSolve P Kn f ob obs0 x0 y0 firstStep hinit fo hl fuel).map rResult := by
  unfold hSolve
  rw [hStart_reflect P f ob obs0 x0 y0 firstStep hinit hinit' hH fo hl]
  cases hq : hStart P f ob obs0 x0 y0 firstStep hinit fo hl with
  | inr r => rfl
  | inl s => exact hLoop_reflect P hP Kn KR f ob fuel s

end
end Ctl
