import IvpModel.Proofs.SymLemmas
import IvpModel.Model.Hairer
set_option linter.unusedSectionVars false
set_option linter.unusedSimpArgs false
set_option linter.unusedTactic false
set_option linter.unnecessarySeqFocus false
set_option linter.unusedVariables false

/-!
  C13, scaling the state: the problem `z = c·y`, i.e. `z' = c·f(t, z/c)` (for a linear homogeneous `f` this is `f` itself),
  observed through an observer that sees `z/c`.  Base layer shared by the skeletons: the scaled right-hand side, observer,
  event log and result, and how the meter helpers and the callback handling commute with the scaling.
-/
namespace Ctl
noncomputable section
variable {K : Type} [Field K] [LinearOrder K] [IsStrictOrderedRing K] [SqrtPow K] {n : Nat}

def sRhs (c : K) (f : Rhs K n) : Rhs K n := fun j t y => vsmul c (f j t (vsmul c⁻¹ y))
def sIp (c : K) (ip : Option (K → Vec K n)) : Option (K → Vec K n) := ip.map fun e t => vsmul c (e t)
def sObs {σ : Type} (c : K) (ob : Obs σ K n) : Obs σ K n := fun s xold x y ip =>
  ((ob s xold x (vsmul c⁻¹ y) (sIp c⁻¹ ip)).1, (ob s xold x (vsmul c⁻¹ y) (sIp c⁻¹ ip)).2.1, vsmul c (ob s xold x (vsmul c⁻¹ y) (sIp c⁻¹ ip)).2.2)
def scl (c : K) (p : K × Vec K n) : K × Vec K n := (p.1, vsmul c p.2)
def sEv (c : K) : Ev K n → Ev K n
  | .ode i t y => .ode i t (vsmul c y)
  | .cb xo x y s => .cb xo x (vsmul c y) (s.map (vsmul c))
def sMeter (c : K) (m : Meter K n) : Meter K n := { m with log := m.log.map (sEv c) }
def sResult {σ : Type} (c : K) (r : Result σ K n) : Result σ K n := { r with y := vsmul c r.y, m := sMeter c r.m }

theorem vsmul_inv (c : K) (hc : c ≠ 0) (v : Vector K n) : vsmul c⁻¹ (vsmul c v) = v := by
  ext i hi; simp [vsmul, hc]
theorem vsmul_inv' (c : K) (hc : c ≠ 0) (v : Vector K n) : vsmul c (vsmul c⁻¹ v) = v := by
  ext i hi; simp [vsmul, hc]

theorem sMeter_ncalls (c : K) (m : Meter K n) : (sMeter c m).ncalls = m.ncalls := rfl
theorem sMeter_cnt (c : K) (m : Meter K n) : (sMeter c m).cnt = m.cnt := rfl

theorem logCalls_smap (c : K) (log : Array (Ev K n)) (base : Nat) (calls : Array (K × Vec K n)) :
    (logCalls log base calls).map (sEv c) = logCalls (log.map (sEv c)) base (calls.map (scl c)) := by
  unfold logCalls
  rw [← Array.foldl_toList, ← Array.foldl_toList]
  have hz : (calls.map (scl c)).zipIdx.toList = calls.zipIdx.toList.map (fun p => (scl c p.1, p.2)) := by
    rw [Array.toList_zipIdx, Array.toList_zipIdx, Array.toList_map, List.zipIdx_map]
    rfl
  rw [hz]
  generalize calls.zipIdx.toList = xs
  induction xs generalizing log with
  | nil => simp
  | cons a xs ih =>
    simp only [List.foldl_cons, List.map_cons]
    rw [ih]
    congr 1
    simp [sEv, scl]

theorem sMeter_bump (c : K) (m : Meter K n) (calls : Array (K × Vec K n)) (lit : Nat) :
    sMeter c (m.bump calls lit) = (sMeter c m).bump (calls.map (scl c)) lit := by
  unfold Meter.bump sMeter
  simp [logCalls_smap]

theorem sMeter_cb (c : K) (m : Meter K n) (xold x : K) (y : Vec K n) (smp : Array (Vec K n)) :
    sMeter c (m.cb xold x y smp) = (sMeter c m).cb xold x (vsmul c y) (smp.map (vsmul c)) := by
  unfold Meter.cb sMeter; simp [sEv]

theorem sMeter_incTotal (c : K) (m : Meter K n) : sMeter c m.incTotal = (sMeter c m).incTotal := rfl
theorem sMeter_incAccepted (c : K) (m : Meter K n) : sMeter c m.incAccepted = (sMeter c m).incAccepted := rfl
theorem sMeter_decAccepted (c : K) (m : Meter K n) : sMeter c m.decAccepted = (sMeter c m).decAccepted := rfl
theorem sMeter_incRejected (c : K) (m : Meter K n) : sMeter c m.incRejected = (sMeter c m).incRejected := rfl
theorem sMeter_refresh (c : K) (m : Meter K n) (x : K) (y : Vec K n) : sMeter c (m.refresh x y) = (sMeter c m).refresh x (vsmul c y) := by
  unfold Meter.refresh sMeter; simp [sEv]

theorem sIp_sIp (c : K) (hc : c ≠ 0) (ip : Option (K → Vec K n)) : sIp c⁻¹ (sIp c ip) = ip := by
  cases ip with
  | none => rfl
  | some e => simp [sIp, Option.map, vsmul_inv c hc]

theorem sampleInterp_scale (c : K) (ip : Option (K → Vec K n)) (xold x q hf t : K) :
    sampleInterp (sIp c ip) xold x q hf t = (sampleInterp ip xold x q hf t).map (vsmul c) := by
  cases ip with
  | none => simp [sampleInterp, sIp]
  | some e => simp [sampleInterp, sIp, Option.map]

def sAfter {σ : Type} (c : K) : AfterCb σ K n → AfterCb σ K n
  | .stop o y => .stop o (vsmul c y)
  | .go o y k1 m => .go o (vsmul c y) (vsmul c k1) (sMeter c m)

theorem afterCb_scale {σ : Type} (c : K) (hc : c ≠ 0) (f : Rhs K n) (ob : Obs σ K n) (obs : σ) (m : Meter K n) (xold x : K) (y : Vec K n)
    (ip : Option (K → Vec K n)) (kNext : Vec K n) :
    afterCb (sRhs c f) (sObs c ob) obs (sMeter c m) xold x (vsmul c y) (sIp c ip) (vsmul c kNext)
      = sAfter c (afterCb f ob obs m xold x y ip kNext) := by
  unfold afterCb sObs
  simp only [vsmul_inv c hc, sIp_sIp c hc]
  cases (ob obs xold x y ip).2.1 <;> simp [sAfter, sRhs, sMeter_refresh, sMeter_ncalls, vsmul_inv c hc]

end
end Ctl
