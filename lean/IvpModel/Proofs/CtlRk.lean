/-
  The same bookkeeping invariants for the RK23 and RK4 skeletons.
-/
import IvpModel.Proofs.CtlLemmas

namespace Ctl
variable {α : Type} [Num α] {n : Nat}

theorem rk23_stages_calls (f : Rhs α n) (y k1 : Vec α n) (x h : α) (l : Bool) (e : α) :
    (Gen.Rk23.stages (f := f) (y := y) (h := h) (k1 := k1) (x := x) (last := l) (xend := e)).calls.size = 3 := by simp [Gen.Rk23.stages]
theorem rk4_stages_calls (f : Rhs α n) (y k1 : Vec α n) (x h : α) (l : Bool) (e : α) :
    (Gen.Rk4.stages (f := f) (y := y) (h := h) (k1 := k1) (x := x) (last := l) (xend := e)).calls.size = 3 := by simp [Gen.Rk4.stages]
theorem rk4_update_calls (f : Rhs α n) (y k1 k2 k3 k4 : Vec α n) (xph h : α) :
    (Gen.Rk4.update (f := f) (xph := xph) (h := h) (k1 := k1) (k2 := k2) (k3 := k3) (k4 := k4) (y := y)).calls.size = 1 := by
  simp [Gen.Rk4.update]

/-- counted ∧ chained ∧ within budget -/
def MInv (m : Meter α n) (x : α) (nmax : Nat) : Prop := m.Counted ∧ ChainTo m.pairs x ∧ m.cnt.total ≤ nmax

/-! ### RK23 -/

theorem rk23Accepted_inv {σ : Type} (P : R23Params α n) (f : Rhs α n) (ob : Obs σ α n) (s : R23State σ α n) (h : α)
    (last : Bool) (T : R23Trial α n) (hT : T.m.Counted) (hc : ChainTo T.m.pairs s.x) (ht : T.m.cnt.total < P.nmax) :
    Both (fun s' : R23State σ α n => MInv s'.m s'.x P.nmax) (fun r : Result σ α n => MInv r.m r.x P.nmax)
      (rk23Accepted P f ob s h last T) := by
  unfold rk23Accepted
  dsimp only
  have hC := Meter.counted_cb (Meter.counted_incAccepted (Meter.counted_incTotal hT)) s.x (landX last P.xend s.x h) T.o.yt
    (sampleInterp (if P.dense then some (fun xi => Gen.Rk23.interpolate (xi := xi) (xold := s.x) (h := h)
        (cont0 := (Gen.Rk23.dense (ye := s.y) (k1 := s.k1) (k2 := T.o.k2) (k3 := T.o.k3) (k4 := T.o.k4)).cont0)
        (cont1 := (Gen.Rk23.dense (ye := s.y) (k1 := s.k1) (k2 := T.o.k2) (k3 := T.o.k3) (k4 := T.o.k4)).cont1)
        (cont2 := (Gen.Rk23.dense (ye := s.y) (k1 := s.k1) (k2 := T.o.k2) (k3 := T.o.k3) (k4 := T.o.k4)).cont2)
        (cont3 := (Gen.Rk23.dense (ye := s.y) (k1 := s.k1) (k2 := T.o.k2) (k3 := T.o.k3) (k4 := T.o.k4)).cont3)) else none)
      s.x (landX last P.xend s.x h) P.quarter P.half P.threeq)
  split
  · exact ⟨hC, by simpa using ChainTo.step hc (landX last P.xend s.x h), by simp; omega⟩
  · rename_i obs' y' k' m' heq
    have hm := afterCb_go_meter f ob _ _ _ _ _ _ _ obs' y' k' m' heq
    have h1 := afterCb_counted f ob _ _ _ _ _ _ _ hC obs' y' k' m' heq
    have h2 : ChainTo m'.pairs (landX last P.xend s.x h) := by rw [hm.1]; simpa using ChainTo.step hc (landX last P.xend s.x h)
    have h3 : m'.cnt.total ≤ P.nmax := by rw [hm.2]; simp; omega
    split <;> exact ⟨h1, h2, h3⟩

theorem rk23Iter_inv {σ : Type} (P : R23Params α n) (f : Rhs α n) (ob : Obs σ α n) (s : R23State σ α n)
    (hs : MInv s.m s.x P.nmax) :
    Both (fun s' : R23State σ α n => MInv s'.m s'.x P.nmax) (fun r : Result σ α n => MInv r.m r.x P.nmax) (rk23Iter P f ob s) := by
  unfold rk23Iter
  cases hg : rk23Guard P s with
  | some st => exact hs
  | none =>
    have htot : s.m.cnt.total < P.nmax := by
      unfold rk23Guard at hg
      split at hg
      · cases hg
      · omega
    dsimp only
    have hT : (rk23Trial P f s (rk23Adjust P s) (rk23Last P s)).m.Counted := by
      unfold rk23Trial; exact Meter.counted_bump hs.1 _ _ (rk23_stages_calls ..)
    split
    · exact rk23Accepted_inv P f ob s _ _ _ hT (by simpa [rk23Trial] using hs.2.1) (by simpa [rk23Trial] using htot)
    · exact ⟨Meter.counted_incRejected hT, by simpa [rk23Trial] using hs.2.1, by simp [rk23Trial]; omega⟩

theorem rk23Loop_inv {σ : Type} (P : R23Params α n) (f : Rhs α n) (ob : Obs σ α n) :
    ∀ (fuel : Nat) (s : R23State σ α n), MInv s.m s.x P.nmax → ∀ r, rk23Loop P f ob fuel s = some r → MInv r.m r.x P.nmax := by
  intro fuel
  induction fuel with
  | zero => intro s _ r h; simp [rk23Loop] at h
  | succ fuel ih =>
    intro s hs r h
    unfold rk23Loop at h
    have hi := rk23Iter_inv P f ob s hs
    split at h
    · rename_i r' heq; rw [heq] at hi; injection h with h; rw [← h]; exact hi
    · rename_i s' heq; rw [heq] at hi; exact ih s' hi r h

/-- **C18/C19/C11 (RK23).**  `evals.ode` = calls made = call entries of the log; callbacks are `(x0,x0)` then contiguous
    intervals ending at the returned `x`; at most `max_steps` accepted steps — for every right-hand side and observer. -/
theorem rk23Solve_inv {σ : Type} (P : R23Params α n) (f : Rhs α n) (ob : Obs σ α n) (obs0 : σ) (x0 : α) (y0 : Vec α n)
    (firstStep : Option α) (hmaxArg : α) (fuel : Nat) (r : Result σ α n)
    (h : rk23Solve P f ob obs0 x0 y0 firstStep hmaxArg fuel = some r) : MInv r.m r.x P.nmax := by
  unfold rk23Solve at h
  have hcnt := startMeter_counted f x0 y0 P.posneg P.hmax firstStep (fun f' k1 =>
    Gen.Common.hinit (f := f') (atol := P.atol) (rtol := P.rtol) (y := y0) (f0 := k1) (hmax := hmaxArg) (posneg := P.posneg)
      (x := x0) (iord := Gen.Static.rk23_hinitOrder)) (fun _ _ => hinit_calls ..)
  have hp := startMeter_pairs f x0 y0 P.posneg P.hmax firstStep (fun f' k1 =>
    Gen.Common.hinit (f := f') (atol := P.atol) (rtol := P.rtol) (y := y0) (f0 := k1) (hmax := hmaxArg) (posneg := P.posneg)
      (x := x0) (iord := Gen.Static.rk23_hinitOrder))
  have hm := Meter.counted_cb hcnt x0 x0 y0 #[]
  have hc0 : ChainTo ((startMeter f x0 y0 P.posneg P.hmax firstStep (fun f' k1 =>
      Gen.Common.hinit (f := f') (atol := P.atol) (rtol := P.rtol) (y := y0) (f0 := k1) (hmax := hmaxArg) (posneg := P.posneg)
        (x := x0) (iord := Gen.Static.rk23_hinitOrder))).2.2.cb x0 x0 y0 #[]).pairs x0 := by
    rw [Meter.pairs_cb, hp.1]; exact ChainTo.init x0
  unfold rk23Start at h
  dsimp only at h
  split at h
  · rename_i r' heq
    split at heq
    · injection heq with heq; injection h with h; rw [← h, ← heq]
      exact ⟨hm, hc0, by simp [hp.2]⟩
    · cases heq
  · rename_i s heq
    split at heq
    · cases heq
    · rename_i obs' y' k' m' hcb
      injection heq with heq
      have hmm := afterCb_go_meter f ob _ _ _ _ _ _ _ obs' y' k' m' hcb
      have hcc := afterCb_counted f ob _ _ _ _ _ _ _ hm obs' y' k' m' hcb
      apply rk23Loop_inv P f ob fuel s _ r h
      rw [← heq]
      exact ⟨hcc, by rw [hmm.1]; exact hc0, by rw [hmm.2]; simp [hp.2]⟩

/-! ### RK4 -/

theorem rk4Iter_inv {σ : Type} (P : R4Params α) (f : Rhs α n) (ob : Obs σ α n) (s : R4State σ α n)
    (hs : MInv s.m s.x P.nmax) :
    Both (fun s' : R4State σ α n => MInv s'.m s'.x P.nmax) (fun r : Result σ α n => MInv r.m r.x P.nmax) (rk4Iter P f ob s) := by
  unfold rk4Iter
  by_cases hg : s.m.cnt.total ≥ P.nmax
  · rw [if_pos hg]; exact hs
  · rw [if_neg hg]
    dsimp only
    by_cases hstag : Num.eqb (s.x + (rk4Adjust P s).1) s.x = true
    · rw [if_pos hstag]; exact hs
    rw [if_neg hstag]
    have h1 := Meter.counted_bump hs.1 _ _ (rk4_stages_calls (fun j => f (s.m.ncalls + j)) s.y s.k1 s.x (rk4Adjust P s).1 (rk4Adjust P s).2 P.xend)
    have h2 := Meter.counted_bump h1 _ _ (rk4_update_calls
      (fun j => f ((s.m.bump (Gen.Rk4.stages (f := fun j => f (s.m.ncalls + j)) (y := s.y) (h := (rk4Adjust P s).1) (k1 := s.k1)
        (x := s.x) (last := (rk4Adjust P s).2) (xend := P.xend)).calls 3).ncalls + j)) s.y s.k1
      (Gen.Rk4.stages (f := fun j => f (s.m.ncalls + j)) (y := s.y) (h := (rk4Adjust P s).1) (k1 := s.k1) (x := s.x) (last := (rk4Adjust P s).2) (xend := P.xend)).k2
      (Gen.Rk4.stages (f := fun j => f (s.m.ncalls + j)) (y := s.y) (h := (rk4Adjust P s).1) (k1 := s.k1) (x := s.x) (last := (rk4Adjust P s).2) (xend := P.xend)).k3
      (Gen.Rk4.stages (f := fun j => f (s.m.ncalls + j)) (y := s.y) (h := (rk4Adjust P s).1) (k1 := s.k1) (x := s.x) (last := (rk4Adjust P s).2) (xend := P.xend)).k4
      (Gen.Rk4.stages (f := fun j => f (s.m.ncalls + j)) (y := s.y) (h := (rk4Adjust P s).1) (k1 := s.k1) (x := s.x) (last := (rk4Adjust P s).2) (xend := P.xend)).xph
      (rk4Adjust P s).1)
    have hux : ∀ (ff : Rhs α n) (k2 k3 k4 : Vec α n) (X : α),
        (Gen.Rk4.update (f := ff) (xph := X) (h := (rk4Adjust P s).1) (k1 := s.k1) (k2 := k2) (k3 := k3) (k4 := k4) (y := s.y)).x = X := by
      intro ff k2 k3 k4 X; simp [Gen.Rk4.update]
    rw [hux]
    generalize (Gen.Rk4.stages (f := fun j => f (s.m.ncalls + j)) (y := s.y) (h := (rk4Adjust P s).1) (k1 := s.k1) (x := s.x)
      (last := (rk4Adjust P s).2) (xend := P.xend)).xph = X at *
    have hC := Meter.counted_cb (Meter.counted_incAccepted (Meter.counted_incTotal h2)) s.x X
    split
    · exact ⟨hC _ _, by simpa using ChainTo.step hs.2.1 X, by simp; omega⟩
    · rename_i obs' y' k' m' heq
      have hm := afterCb_go_meter f ob _ _ _ _ _ _ _ obs' y' k' m' heq
      have hc1 := afterCb_counted f ob _ _ _ _ _ _ _ (hC _ _) obs' y' k' m' heq
      have hc2 : ChainTo m'.pairs X := by
        rw [hm.1]; simpa using ChainTo.step hs.2.1 X
      have hc3 : m'.cnt.total ≤ P.nmax := by rw [hm.2]; simp; omega
      split <;> exact ⟨hc1, hc2, hc3⟩

theorem rk4Loop_inv {σ : Type} (P : R4Params α) (f : Rhs α n) (ob : Obs σ α n) :
    ∀ (fuel : Nat) (s : R4State σ α n), MInv s.m s.x P.nmax → ∀ r, rk4Loop P f ob fuel s = some r → MInv r.m r.x P.nmax := by
  intro fuel
  induction fuel with
  | zero => intro s _ r h; simp [rk4Loop] at h
  | succ fuel ih =>
    intro s hs r h
    unfold rk4Loop at h
    have hi := rk4Iter_inv P f ob s hs
    split at h
    · rename_i r' heq; rw [heq] at hi; injection h with h; rw [← h]; exact hi
    · rename_i s' heq; rw [heq] at hi; exact ih s' hi r h

/-- **C18/C19/C11 (RK4).** -/
theorem rk4Solve_inv {σ : Type} (P : R4Params α) (f : Rhs α n) (ob : Obs σ α n) (obs0 : σ) (x0 : α) (y0 : Vec α n) (h0 : α)
    (fuel : Nat) (r : Result σ α n) (h : rk4Solve P f ob obs0 x0 y0 h0 fuel = some r) : MInv r.m r.x P.nmax := by
  unfold rk4Solve at h
  have hm : ((({} : Meter α n).bump #[(x0, y0)] 1).cb x0 x0 y0 #[]).Counted :=
    Meter.counted_cb (Meter.counted_bump Meter.counted_init _ _ rfl) _ _ _ _
  have hc0 : ChainTo ((({} : Meter α n).bump #[(x0, y0)] 1).cb x0 x0 y0 #[]).pairs x0 := by
    rw [Meter.pairs_cb, Meter.pairs_bump]; exact ChainTo.init x0
  unfold rk4Start at h
  dsimp only at h
  split at h
  · rename_i r' heq
    split at heq
    · injection heq with heq; injection h with h; rw [← h, ← heq]; exact ⟨hm, hc0, by simp⟩
    · cases heq
  · rename_i s heq
    split at heq
    · cases heq
    · rename_i obs' y' k' m' hcb
      injection heq with heq
      have hmm := afterCb_go_meter f ob _ _ _ _ _ _ _ obs' y' k' m' hcb
      have hcc := afterCb_counted f ob _ _ _ _ _ _ _ hm obs' y' k' m' hcb
      apply rk4Loop_inv P f ob fuel s _ r h
      rw [← heq]
      exact ⟨hcc, by rw [hmm.1]; exact hc0, by rw [hmm.2]; simp⟩

end Ctl
