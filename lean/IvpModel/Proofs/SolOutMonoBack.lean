import IvpModel.Proofs.SolOutMono
set_option linter.unusedSectionVars false
set_option linter.unusedVariables false

/-!
  The mirror image of `SolOutMono` for backward integration (`xend < x0`): the recorded times start at `x0`, move strictly
  *down* and never pass the (lower) end of the last callback.
-/
namespace SolOutM
noncomputable section
variable {K : Type} [Field K] [LinearOrder K] [IsStrictOrderedRing K] [SqrtPow K]

/-- strictly decreasing list of times -/
def Decr : List K → Prop
  | [] => True
  | [_] => True
  | a :: b :: r => b < a ∧ Decr (b :: r)

theorem decr_append_one (l : List K) (last x : K) (hl : Decr l) (hlast : l.getLast? = some last) (h : x < last) :
    Decr (l ++ [x]) := by
  induction l with
  | nil => simp at hlast
  | cons a r ih =>
    cases r with
    | nil =>
      simp at hlast
      subst hlast
      exact ⟨h, trivial⟩
    | cons b r' =>
      obtain ⟨hab, hr⟩ := hl
      have hlast' : (b :: r').getLast? = some last := by simpa [List.getLast?_cons_cons] using hlast
      exact ⟨hab, ih hr hlast'⟩

/-- backward invariant of the sample list against the current abscissa `xc` -/
structure BInv (s : St K) (xc : K) : Prop where
  decr : Decr s.t.toList
  head : s.t.toList.head? = some s.x0
  last_ge : ∀ l, s.t.toList.getLast? = some l → xc ≤ l
  x0_ge : xc ≤ s.x0
  pending : s.firstStep.isSome = true → s.firstOutputDone = false → s.t.toList = [s.x0]

theorem BInv.push (s : St K) (xold x : K) (y : Array K) (done : Bool) (hinv : BInv s xold) (hstep : x < xold)
    (hp : s.firstStep.isSome = true → done = true) :
    BInv { s with t := s.t.push x, y := s.y.push y, firstOutputDone := done } x := by
  obtain ⟨l, hl⟩ : ∃ l, s.t.toList.getLast? = some l := by
    cases h : s.t.toList.getLast? with
    | some l => exact ⟨l, rfl⟩
    | none =>
      have := List.getLast?_eq_none_iff.mp h
      have hh := hinv.head
      rw [this] at hh; simp at hh
  have hlx : x < l := lt_of_lt_of_le hstep (hinv.last_ge l hl)
  refine ⟨?_, ?_, ?_, le_trans hstep.le hinv.x0_ge, ?_⟩
  · simpa using decr_append_one s.t.toList l x hinv.decr hl hlx
  · have hh := hinv.head
    cases hs : s.t.toList with
    | nil => rw [hs] at hh; simp at hh
    | cons a r => rw [hs] at hh; simpa [hs] using hh
  · intro l' h'; simp at h'; rw [← h']
  · intro hs hd
    exact absurd (hp hs) (by simp [show done = false from hd])

theorem BInv.mono (s : St K) (xold x : K) (hinv : BInv s xold) (hstep : x ≤ xold) : BInv s x :=
  ⟨hinv.decr, hinv.head, fun l h => le_trans hstep (hinv.last_ge l h), le_trans hstep hinv.x0_ge, hinv.pending⟩

/-- one accepted step in mode 2, backward -/
theorem outputMode2_backward (s : St K) (xold x : K) (y : Array K) (ipv : Interp K)
    (hinv : BInv s xold) (hstep : x < xold) (htol : 0 ≤ s.tol) (hh0 : ∀ h0, s.firstStep = some h0 → h0 ≠ 0) :
    BInv (outputMode2 s xold x y (some ipv)) x := by
  have hne : (Num.eqb xold x = false) := by
    cases hb : Num.eqb xold x with
    | false => rfl
    | true => exact absurd ((num_eqb _ _).mp hb) (ne_of_gt hstep)
  obtain ⟨l, hl⟩ : ∃ l, s.t.toList.getLast? = some l := by
    cases h : s.t.toList.getLast? with
    | some l => exact ⟨l, rfl⟩
    | none =>
      have := List.getLast?_eq_none_iff.mp h
      have hh := hinv.head
      rw [this] at hh; simp at hh
  have hlx : x < l := lt_of_lt_of_le hstep (hinv.last_ge l hl)
  have hback : s.t.back? = some l := by
    have : s.t = s.t.toList.toArray := by simp
    rw [this, List.back?_toArray]; exact hl
  have hfresh2 : (!Num.eqb l x) = true := by
    cases hb : Num.eqb l x with
    | false => rfl
    | true => exact absurd ((num_eqb _ _).mp hb) (ne_of_gt hlx)
  unfold outputMode2
  cases hfs : s.firstStep with
  | none =>
    dsimp only
    rw [hback]
    dsimp only
    rw [if_pos hfresh2]
    have h := BInv.push s xold x y s.firstOutputDone hinv hstep (by simp [hfs])
    simpa only [hfs] using h
  | some h0 =>
    by_cases hd : s.firstOutputDone = true
    · simp only [hd, not_true_eq_false, false_and, if_false]
      rw [hback]
      dsimp only
      rw [if_pos hfresh2]
      have h := BInv.push s xold x y true hinv hstep (fun _ => rfl)
      simpa only [hfs, hd] using h
    · have hdf : s.firstOutputDone = false := by cases h : s.firstOutputDone <;> simp_all
      have hpend := hinv.pending (by simp [hfs]) hdf
      have hdir : Num.signum (x - xold) = (-1 : K) := by
        rw [num_signum, if_neg (by linarith)]; try (rw [if_pos (by linarith)])
      simp only [hdf, hne, hdir, num_abs, Bool.false_eq_true, not_false_eq_true, and_self, if_true]
      have hpos : 0 < |h0| := abs_pos.mpr (hh0 h0 hfs)
      by_cases hr : -1 * (x - (s.x0 + -1 * |h0|)) ≥ -s.tol
      · simp only [hr, if_true]
        by_cases hc : |x - (s.x0 + -1 * |h0|)| ≤ s.tol
        · simp only [hc, if_true]
          have h := BInv.push s xold x y true hinv hstep (fun _ => rfl)
          simpa only [hfs] using h
        · simp only [hc, if_false]
          have hgt : s.tol < (s.x0 + -1 * |h0|) - x := by
            rw [not_le] at hc
            rcases abs_cases (x - (s.x0 + -1 * |h0|)) with ⟨h1, h2⟩ | ⟨h1, _⟩
            · rw [h1] at hc; linarith
            · rw [h1] at hc; linarith
          have htx : x < s.x0 + -1 * |h0| := by linarith
          refine ⟨?_, ?_, ?_, le_trans hstep.le hinv.x0_ge, ?_⟩
          · have e : ((s.t.push (s.x0 + -1 * |h0|)).push x).toList = [s.x0, s.x0 + -1 * |h0|, x] := by simp [hpend]
            show Decr ((s.t.push (s.x0 + -1 * |h0|)).push x).toList
            rw [e]
            exact ⟨by linarith, htx, trivial⟩
          · have e : ((s.t.push (s.x0 + -1 * |h0|)).push x).toList = [s.x0, s.x0 + -1 * |h0|, x] := by simp [hpend]
            show ((s.t.push (s.x0 + -1 * |h0|)).push x).toList.head? = some s.x0
            rw [e]; rfl
          · intro l' h'
            have e : ((s.t.push (s.x0 + -1 * |h0|)).push x).toList = [s.x0, s.x0 + -1 * |h0|, x] := by simp [hpend]
            change ((s.t.push (s.x0 + -1 * |h0|)).push x).toList.getLast? = some l' at h'
            rw [e] at h'; simp at h'; rw [← h']
          · intro _ hd'; simp at hd'
      · simp only [hr, if_false]
        exact BInv.mono s xold x hinv hstep.le

/-- the initial callback is also the backward base case -/
theorem outputMode2_initial_back (s : St K) (y : Array K) (ht : s.t = #[]) (hd : s.firstOutputDone = false) :
    BInv (outputMode2 s s.x0 s.x0 y none) s.x0 := by
  have h := outputMode2_initial s y ht hd
  obtain ⟨k0, _, _⟩ := outputMode2_keeps s s.x0 s.x0 y none
  -- the list is a singleton `[x0]`: an increasing list from x0 that does not pass x0
  have hsing : (outputMode2 s s.x0 s.x0 y none).t.toList = [s.x0] := by
    have hh := h.head; have hi := h.incr; have hle := h.last_le
    rw [k0] at hh
    cases hs : (outputMode2 s s.x0 s.x0 y none).t.toList with
    | nil => rw [hs] at hh; simp at hh
    | cons a r =>
      rw [hs] at hh hi hle
      simp at hh; subst hh
      cases r with
      | nil => rfl
      | cons b r' =>
        exfalso
        obtain ⟨hab, hr⟩ := hi
        -- last ≥ b > a = x0, but last ≤ x0
        have : ∀ (l : List K) (c : K), Incr (c :: l) → ∀ z, (c :: l).getLast? = some z → c ≤ z := by
          intro l
          induction l with
          | nil => intro c _ z hz; simp at hz; rw [hz]
          | cons d l' ih =>
            intro c hc z hz
            rw [List.getLast?_cons_cons] at hz
            exact le_trans hc.1.le (ih d hc.2 z hz)
        obtain ⟨z, hz⟩ : ∃ z, (b :: r').getLast? = some z := by
          cases hq : (b :: r').getLast? with
          | some z => exact ⟨z, rfl⟩
          | none => simp at hq
        have hbz := this r' b hr z hz
        have hza := hle z (by rw [List.getLast?_cons_cons]; exact hz)
        linarith
  refine ⟨by rw [hsing]; trivial, by rw [hsing, k0]; rfl, ?_, by rw [k0], ?_⟩
  · intro l hl'; rw [hsing] at hl'; simp at hl'; rw [← hl']
  · intro _ _; exact hsing.trans (by rw [k0])

/-- **C03 at the handler (mode 2, backward).** -/
theorem runMode2_backward : ∀ (steps : List (K × Array K × Interp K)) (s : St K) (xold : K),
    BInv s xold → 0 ≤ s.tol → (∀ h0, s.firstStep = some h0 → h0 ≠ 0) →
    List.IsChain (· > ·) (xold :: steps.map (·.1)) →
    ∃ xlast, BInv (runMode2 s xold steps) xlast ∧ (xold :: steps.map (·.1)).getLast? = some xlast := by
  intro steps
  induction steps with
  | nil => intro s xold hinv _ _ _; exact ⟨xold, hinv, rfl⟩
  | cons st rest ih =>
    intro s xold hinv htol hh0 hc
    obtain ⟨x, y, ipv⟩ := st
    have hlt : x < xold := by
      cases hc with
      | cons_cons h _ => exact h
    have hc' : List.IsChain (· > ·) (x :: rest.map (·.1)) := by
      cases hc with
      | cons_cons _ h => exact h
    have hstep := outputMode2_backward s xold x y ipv hinv hlt htol hh0
    obtain ⟨k0, k1, k2⟩ := outputMode2_keeps s xold x y (some ipv)
    obtain ⟨xl, hfin, hlast⟩ := ih (outputMode2 s xold x y (some ipv)) x hstep (by rw [k2]; exact htol)
      (fun h0 hf => hh0 h0 (by rw [← k1]; exact hf)) hc'
    refine ⟨xl, hfin, ?_⟩
    simp only [List.map_cons] at hlast ⊢
    rw [List.getLast?_cons_cons]; exact hlast

end
end SolOutM
