/-
  The pure pieces of the BDF numeric model over ordered fields: the interpolant is the Newton backward-difference
  polynomial, the difference update keeps backward differences, `change_d` rescales the history without changing the
  polynomial (orders 1..5 = everything the code can reach).
-/
import IvpModel.Proofs.FieldNum
import IvpModel.Model.BdfNum
import Mathlib.Tactic.IntervalCases
import Mathlib.Tactic.FinCases

namespace BdfNum
noncomputable section
variable {K : Type} [Field K] [LinearOrder K] [IsStrictOrderedRing K] [SqrtPow K]

/-- the literals a theorem needs: `0.0`, `1.0` -/
structure LitOK (L : NLits K) : Prop where
  zero : L.zero = 0
  one : L.one = 1

theorem accSkip_field (L : NLits K) (hL : LitOK L) (acc c v : K) : accSkip L acc c v = acc + c * v := by
  unfold accSkip
  split
  · rename_i h
    have : c = 0 := by rw [hL.zero] at h; exact (num_eqb c 0).mp h
    rw [this]; ring
  · rfl

/-- backward differences of a sequence `v 0, v 1, …` (newest first): `∇⁰ = v 0`, `∇^{j+1} v = ∇^j v − ∇^j (shift v)` -/
def bdiff : Nat → (Nat → K) → K
  | 0, v => v 0
  | j + 1, v => bdiff j v - bdiff j (fun i => v (i + 1))

theorem eDown_spec (dcol : Nat → K) (delta : K) (order : Nat) :
    ∀ t, t ≤ order + 1 → eDown dcol delta order t = delta + ∑ m ∈ Finset.range t, dcol (order - m) := by
  intro t
  induction t with
  | zero => intro _; simp [eDown]
  | succ t ih =>
    intro ht
    rw [eDown, ih (by omega), Finset.sum_range_succ]; ring


/-- prepend a new value to a history (newest first) -/
def consSeq (a : K) (v : Nat → K) : Nat → K := fun i => match i with | 0 => a | i + 1 => v i

/-- **the interpolant is the polynomial through the last `order + 1` values.**  With `c j = ∇ʲ v` (backward differences
    of the values `v 0, v 1, …` at `x_new, x_new − h, …`) the Newton form evaluated with `order` terms returns `v m` at
    `x_new − m·h` for every `m ≤ order`; orders 1..5 (= `MAX_ORDER`), every `h ≠ 0` of either sign -/
theorem interp_nodes (L : NLits K) (hL : LitOK L) (v : Nat → K) (xNew h : K) (hh : h ≠ 0) (order m : Nat)
    (ho : 1 ≤ order) (ho5 : order ≤ 5) (hm : m ≤ order) :
    interpScalar L order (fun j => bdiff j v) (xNew - (m : K) * h) xNew h = v m := by
  interval_cases order <;> interval_cases m <;>
    simp only [interpScalar, List.range, List.range.loop, List.foldl, pProd, xFactor, bdiff, hL.one, num_ofNat, Nat.cast_ofNat,
      Nat.cast_zero, Nat.cast_one] <;>
    field_simp <;> ring

/-- **the accepted step keeps backward differences.**  If the difference column holds `∇ʲ v` of the history `v` and the
    corrector returns `y_new`, then with `delta = y_new − predictor` (the predictor being `Σ_{j ≤ order} ∇ʲ v`, as
    `predict` computes it) the updated column holds `∇ᵏ` of the history with `y_new` prepended, for `k ≤ order + 1` -/
theorem update_bdiff (v : Nat → K) (yNew : K) (order k : Nat) (ho : 1 ≤ order) (ho5 : order ≤ 5) (hk : k ≤ order + 1) :
    updCol (fun j => bdiff j v) (yNew - (List.range (order + 1)).foldl (fun s j => s + bdiff j v) 0) order k
      = bdiff k (consSeq yNew v) := by
  interval_cases order <;> interval_cases k <;>
    simp only [updCol, eDown, bdiff, consSeq, List.range, List.range.loop, List.foldl] <;> norm_num <;>
    (try simp only [eDown, bdiff]) <;> ring

set_option maxHeartbeats 1600000 in
/-- **`change_d` does not change the polynomial.**  For every order 1..5, every rescaling factor `f ≠ 0` and every
    difference column, the Newton form of the rescaled column with step `f·h` is, at every point, the Newton form of the
    original column with step `h` -/
theorem changeD_poly (L : NLits K) (hL : LitOK L) (dcol : Nat → K) (f h xi xNew : K) (hf : f ≠ 0) (hh : h ≠ 0) (order : Nat)
    (ho : 1 ≤ order) (ho5 : order ≤ 5) :
    interpScalar L order (changedEntry L order f dcol) xi xNew (f * h) = interpScalar L order dcol xi xNew h := by
  interval_cases order <;>
    simp only [interpScalar, changedEntry, ruEntry, rEntry, mEntry, accSkip_field L hL, List.range, List.range.loop, List.foldl, pProd,
      xFactor, hL.one, hL.zero, num_ofNat, Nat.cast_ofNat, Nat.cast_zero, Nat.cast_one] <;>
    norm_num <;> field_simp <;> ring

/-- `change_d` leaves `D[0]` (the current state) alone -/
theorem changeD_keeps_d0 (L : NLits K) (hL : LitOK L) (dcol : Nat → K) (f : K) (order : Nat) (ho : 1 ≤ order) (ho5 : order ≤ 5) :
    changedEntry L order f dcol 0 = dcol 0 := by
  interval_cases order <;>
    simp only [changedEntry, ruEntry, rEntry, mEntry, accSkip_field L hL, List.range, List.range.loop, List.foldl,
      hL.one, hL.zero, num_ofNat, Nat.cast_ofNat, Nat.cast_zero, Nat.cast_one] <;>
    norm_num

/-- a component of the dense block built after an accepted step is the difference column up to `order` -/
theorem denseCont_get (L : NLits K) (d : Array (Array K)) (order n i k : Nat) (hi : i < n) (hk : k < block - 1) :
    g (denseCont L d order n) (i * block + k) = if k = 0 then g2 d 0 i else if k ≤ order then g2 d k i else L.zero := by
  have hb : 0 < block := by decide
  have hlt : i * block + k < n * block := by
    have : k < block := by omega
    calc i * block + k < i * block + block := by omega
      _ = (i + 1) * block := by ring
      _ ≤ n * block := Nat.mul_le_mul_right _ hi
  have hdiv : (i * block + k) / block = i := by
    have : k < block := by omega
    rw [Nat.add_comm, Nat.add_mul_div_right _ _ hb, Nat.div_eq_of_lt this, Nat.zero_add]
  have hmod : (i * block + k) % block = k := by
    have : k < block := by omega
    rw [Nat.add_comm, Nat.add_mul_mod_self_right, Nat.mod_eq_of_lt this]
  unfold g denseCont
  rw [Array.getD_eq_getD_getElem?, Array.getElem?_ofFn]
  simp only [hlt, dif_pos, Option.getD_some, hdiv, hmod]
  have : k ≠ block - 1 := by omega
  simp only [this, if_false]

/-- `weighted_rms_scaled`: the RMS norm of `values / scale` (zero scales replaced by eps), for equal lengths -/
theorem weightedRms_spec (L : NLits K) (hL : LitOK L) (values scale : Array K) (hs : values.size = scale.size) :
    weightedRms L values scale =
      SqrtPow.sqrt (((List.range values.size).map fun i =>
        (g values i / (if g scale i = 0 then L.eps else g scale i)) ^ 2).sum / (values.size : K)) := by
  unfold weightedRms
  rw [hs, Nat.min_self, num_sqrt, num_ofNat, ← hs]
  congr 2
  generalize values.size = m
  have : ∀ (l : List Nat) (a : K), l.foldl (fun sum i =>
      let s := g scale i
      let denom := if Num.eqb s L.zero then L.eps else s
      let ratio := g values i / denom
      sum + ratio * ratio) a = a + (l.map fun i => (g values i / (if g scale i = 0 then L.eps else g scale i)) ^ 2).sum := by
    intro l
    induction l with
    | nil => intro a; simp
    | cons i l ih =>
      intro a
      rw [List.foldl_cons, ih, List.map_cons, List.sum_cons]
      have e : (if Num.eqb (g scale i) L.zero then L.eps else g scale i) = (if g scale i = 0 then L.eps else g scale i) := by
        rw [hL.zero]
        by_cases hz : g scale i = 0
        · simp [hz]
        · have : Num.eqb (g scale i) (0 : K) = false := by
            cases hb : Num.eqb (g scale i) (0 : K) with
            | false => rfl
            | true => exact absurd ((num_eqb _ _).mp hb) hz
          simp [hz, this]
      simp only [e]
      ring
  rw [this, hL.zero, zero_add]

end
end BdfNum
