/-
  Order/field facts about the control skeletons (exact time arithmetic): landing on `xend`, no overshoot,
  `Success` only at `xend`, the `h_max` clamp.  DOPRI5 and DOP853 (their guards are the same translated expression).
-/
import IvpModel.Proofs.CtlLemmas
import IvpModel.Proofs.FieldNum

namespace Ctl
noncomputable section
variable {K : Type} [Field K] [LinearOrder K] [IsStrictOrderedRing K] [SqrtPow K] {n : Nat}

/-- the translated last-step test of dopri5.rs / dop853.rs, read in a field -/
theorem dopri5_lastGuard_iff (x h xend posneg : K) :
    Gen.Dopri5.lastGuard x h xend posneg ↔ 0 < (x + (101 : K) / 100 * h - xend) * posneg := by
  unfold Gen.Dopri5.lastGuard
  simp [num_lit]
theorem dop853_lastGuard_iff (x h xend posneg : K) :
    Gen.Dop853.lastGuard x h xend posneg ↔ 0 < (x + (101 : K) / 100 * h - xend) * posneg := by
  unfold Gen.Dop853.lastGuard
  simp [num_lit]

/-- parameters whose last-step test is the Hairer expression -/
def HairerGuard (P : HParams K n) : Prop :=
  ∀ x h, P.lastG x h P.xend P.posneg ↔ 0 < (x + (101 : K) / 100 * h - P.xend) * P.posneg

/-- **C03, one step.**  If the step points toward `xend` (h·posneg > 0), `xend` has not been passed yet and
    posneg = ±1, then after "Adjust last step" the trial step ends at or before `xend`; it ends exactly at `xend`
    when the last-step flag was raised, and it still points toward `xend`. -/
theorem hAdjust_lands {σ : Type} (P : HParams K n) (hg : HairerGuard P) (s : HState σ K n)
    (hp : P.posneg * P.posneg = 1) (hh : 0 < s.h * P.posneg) (hx : 0 ≤ (P.xend - s.x) * P.posneg) (hl : s.last = false) :
    0 ≤ (P.xend - (s.x + (hAdjust P s).1)) * P.posneg
    ∧ ((hAdjust P s).2 = true → s.x + (hAdjust P s).1 = P.xend)
    ∧ 0 ≤ (hAdjust P s).1 * P.posneg
    ∧ ((hAdjust P s).2 = false → 0 < (hAdjust P s).1 * P.posneg) := by
  unfold hAdjust
  by_cases hc : P.lastG s.x s.h P.xend P.posneg
  · rw [if_pos hc]
    refine ⟨by simp, fun _ => by ring, hx, fun h => by cases h⟩
  · rw [if_neg hc]
    have hc' := (not_congr (hg s.x s.h)).mp hc
    push_neg at hc'
    refine ⟨?_, ?_, le_of_lt hh, fun _ => hh⟩
    · show 0 ≤ (P.xend - (s.x + s.h)) * P.posneg
      nlinarith
    · intro h
      change s.last = true at h
      rw [hl] at h; cases h

/-- the clamp after an accepted step keeps |h| ≤ |h_max| -/
theorem hNextStep_le_hmax (P : HParams K n) (hp : P.posneg * P.posneg = 1) (hnew h : K) (reject : Bool) :
    |hNextStep P hnew h reject| ≤ |P.hmax| := by
  have habs : |P.posneg| = 1 := by
    have : |P.posneg| * |P.posneg| = 1 := by rw [← abs_mul, hp, abs_one]
    nlinarith [abs_nonneg P.posneg]
  unfold hNextStep
  simp only [num_abs, num_fmin]
  by_cases h1 : |hnew| > |P.hmax|
  · rw [if_pos h1]
    cases reject
    · simp [abs_mul, habs]
    · simp only [if_true, abs_mul, habs, one_mul, abs_abs]
      rw [abs_of_nonneg (le_min (abs_nonneg _) (abs_nonneg _))]
      exact min_le_left _ _
  · rw [if_neg h1]
    push_neg at h1
    cases reject
    · simpa using h1
    · simp only [if_true, abs_mul, habs, one_mul]
      have : min |hnew| |h| ≤ |P.hmax| := le_trans (min_le_left _ _) h1
      rw [abs_of_nonneg (le_min (abs_nonneg _) (abs_nonneg _))]
      exact this

end
end Ctl

/-! ### structure of a pass, `Success` only at `xend` — for every instance of `Num` (the floating-point one included):
    nothing below uses arithmetic, the landing step sets the new time to `xend` itself -/
namespace Ctl
section
variable {K : Type} [Num K] {n : Nat}

theorem hAccepted_cases {σ : Type} (P : HParams K n) (Kn : HKernel K n) (f : Rhs K n) (ob : Obs σ K n)
    (s : HState σ K n) (h : K) (last : Bool) (T : HTrial K n Kn.S) :
    (∃ m, hAccepted P Kn f ob s h last T = .inr { status := .probablyStiff, h := h, x := s.x, y := s.y, m := m, obs := s.obs })
    ∨ (∃ hnew facold hlamb ns ia sa m, hAccepted P Kn f ob s h last T = hFinish P Kn f ob s h last hnew facold hlamb ns ia sa m) := by
  unfold hAccepted
  dsimp only
  split
  · exact Or.inl ⟨_, rfl⟩
  · exact Or.inr ⟨_, _, _, _, _, _, _, rfl⟩

theorem hIter_cases {σ : Type} (P : HParams K n) (Kn : HKernel K n) (f : Rhs K n) (ob : Obs σ K n) (s : HState σ K n) :
    (∃ st, hIter P Kn f ob s = .inr (s.result st) ∧ (st = .needLargerNMax ∨ st = .stepSizeTooSmall))
    ∨ (∃ T, hIter P Kn f ob s = hAccepted P Kn f ob s (hAdjust P s).1 (hAdjust P s).2 T)
    ∨ (∃ m fac11, hIter P Kn f ob s = .inl (hRejected P s (hAdjust P s).1 m fac11)) := by
  unfold hIter
  cases hgd : hGuard P s with
  | some st =>
    refine Or.inl ⟨st, rfl, ?_⟩
    unfold hGuard at hgd
    split at hgd
    · injection hgd with hgd; exact Or.inl hgd.symm
    · split at hgd
      · injection hgd with hgd; exact Or.inr hgd.symm
      · cases hgd
  | none =>
    dsimp only
    split
    · exact Or.inr (Or.inl ⟨_, rfl⟩)
    · exact Or.inr (Or.inr ⟨_, _, rfl⟩)

theorem hFinish_status {σ : Type} (P : HParams K n) (Kn : HKernel K n) (f : Rhs K n) (ob : Obs σ K n)
    (s : HState σ K n) (h : K) (last : Bool) (hnew facold hlamb : K) (ns ia : Nat) (sa : Kn.SA) (m : Meter K n) :
    Both (fun s' : HState σ K n => s'.last = false ∧ last = false ∧ s'.x = s.x + h)
         (fun r : Result σ K n => (r.status = .success → last = true ∧ r.x = P.xend) ∧ r.x = landX last P.xend s.x h)
      (hFinish P Kn f ob s h last hnew facold hlamb ns ia sa m) := by
  unfold hFinish
  dsimp only
  split
  · exact ⟨fun h => (by cases h), rfl⟩
  · by_cases hl : last = true
    · rw [if_pos hl]; exact ⟨fun _ => ⟨hl, by simp [landX, hl]⟩, rfl⟩
    · rw [if_neg hl]
      have : last = false := by cases last <;> simp_all
      exact ⟨this, this, by simp [landX, this]⟩

/-- the loop never carries `last = true` into the next pass -/
theorem hIter_last {σ : Type} (P : HParams K n) (Kn : HKernel K n) (f : Rhs K n) (ob : Obs σ K n) (s : HState σ K n)
    (s' : HState σ K n) (h : hIter P Kn f ob s = .inl s') : s'.last = false := by
  rcases hIter_cases P Kn f ob s with ⟨st, h1, _⟩ | ⟨T, h1⟩ | ⟨m, fac11, h1⟩
  · rw [h1] at h; cases h
  · rw [h1] at h
    rcases hAccepted_cases P Kn f ob s (hAdjust P s).1 (hAdjust P s).2 T with ⟨m, h2⟩ | ⟨a, b, c, d, e, g, m, h2⟩
    · rw [h2] at h; cases h
    · have hf := hFinish_status P Kn f ob s (hAdjust P s).1 (hAdjust P s).2 a b c d e g m
      rw [h2] at h; rw [h] at hf; exact hf.1
  · rw [h1] at h; injection h with h; rw [← h]; rfl

/-- **C03.**  `Success` is reported only when the accepted point is exactly `xend`: for every kernel, right-hand side
    and observer.  Since the landing step sets the new time to `xend` itself (fix eaf3db1) this no longer rests on
    `x + (xend - x) = xend`, which floating point does not give. -/
theorem hIter_success_at_xend {σ : Type} (P : HParams K n) (Kn : HKernel K n) (f : Rhs K n) (ob : Obs σ K n)
    (s : HState σ K n) (hl : s.last = false) (r : Result σ K n) (h : hIter P Kn f ob s = .inr r) (hs : r.status = .success) :
    r.x = P.xend := by
  rcases hIter_cases P Kn f ob s with ⟨st, h1, hst⟩ | ⟨T, h1⟩ | ⟨m, fac11, h1⟩
  · rw [h1] at h; injection h with h; rw [← h] at hs
    rcases hst with rfl | rfl <;> cases hs
  · rw [h1] at h
    rcases hAccepted_cases P Kn f ob s (hAdjust P s).1 (hAdjust P s).2 T with ⟨m, h2⟩ | ⟨a, b, c, d, e, g, m, h2⟩
    · rw [h2] at h; injection h with h; rw [← h] at hs; cases hs
    · have hf := hFinish_status P Kn f ob s (hAdjust P s).1 (hAdjust P s).2 a b c d e g m
      rw [h2] at h; rw [h] at hf
      exact (hf.1 hs).2
  · rw [h1] at h; cases h

theorem hLoop_success_at_xend {σ : Type} (P : HParams K n) (Kn : HKernel K n) (f : Rhs K n) (ob : Obs σ K n) :
    ∀ (fuel : Nat) (s : HState σ K n), s.last = false → ∀ r, hLoop P Kn f ob fuel s = some r → r.status = .success →
      r.x = P.xend := by
  intro fuel
  induction fuel with
  | zero => intro s _ r h; simp [hLoop] at h
  | succ fuel ih =>
    intro s hl r h hs
    unfold hLoop at h
    split at h
    · rename_i r' heq
      injection h with h
      rw [← h] at hs ⊢
      exact hIter_success_at_xend P Kn f ob s hl r' heq hs
    · rename_i s' heq
      exact ih s' (hIter_last P Kn f ob s s' heq) r h hs

end
end Ctl

namespace Ctl
noncomputable section
variable {K : Type} [Field K] [LinearOrder K] [IsStrictOrderedRing K] [SqrtPow K] {n : Nat}

/-- DOPRI5 and DOP853 parameters have the Hairer guard -/
theorem dopri5Params_guard (L : HLits K) (xend posneg uround safety smin smax beta hmax : K) (nmax nstiff : Nat) (d : Bool) :
    HairerGuard (dopri5Params (n := n) L xend posneg uround safety smin smax beta hmax nmax nstiff d) := by
  intro x h; exact dopri5_lastGuard_iff x h xend posneg
theorem dop853Params_guard (L : HLits K) (xend posneg uround safety smin smax beta hmax : K) (nmax nstiff : Nat) (d : Bool) :
    HairerGuard (dop853Params (n := n) L xend posneg uround safety smin smax beta hmax nmax nstiff d) := by
  intro x h; exact dop853_lastGuard_iff x h xend posneg

end
end Ctl
