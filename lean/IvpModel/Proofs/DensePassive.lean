import IvpModel.Proofs.ScaleBase
import IvpModel.Model.Kernels
set_option linter.unusedSectionVars false
set_option linter.unusedSimpArgs false
set_option linter.unusedTactic false
set_option linter.unnecessarySeqFocus false
set_option linter.unusedVariables false

/-!
  C12 at the solver interface (DOPRI5 / DOP853 skeleton): for a kernel whose state update and right-hand-side calls do not depend on
  the `dense_output` flag (`DensePassive`; DOPRI5's is one, DOP853's is not — its three extra stages are evaluated only on request)
  and an observer that does not read the interpolant, the run with `dense_output = false` is the run with `dense_output = true` with
  the interpolant samples erased from the log: the same step points, states, step sizes, statuses and counters.
-/
namespace Ctl
noncomputable section
variable {K : Type} [Field K] [LinearOrder K] [IsStrictOrderedRing K] [SqrtPow K] {n : Nat}

/-- erase the interpolant samples of the callback events -/
def eEv : Ev K n → Ev K n
  | .ode i t y => .ode i t y
  | .cb xo x y _ => .cb xo x y #[]
def eMeter (m : Meter K n) : Meter K n := { m with log := m.log.map eEv }
def eResult {σ : Type} (r : Result σ K n) : Result σ K n := { r with m := eMeter r.m }
def eHS {σ : Type} (s : HState σ K n) : HState σ K n := { s with m := eMeter s.m }
def eOut {σ : Type} : Sum (HState σ K n) (Result σ K n) → Sum (HState σ K n) (Result σ K n)
  | .inl s => .inl (eHS s)
  | .inr r => .inr (eResult r)
def setDense (P : HParams K n) (d : Bool) : HParams K n := { P with dense := d }

/-- the kernel's state update and calls do not depend on the dense flag -/
def DensePassive (Kn : HKernel K n) : Prop := ∀ (f : Rhs K n) (a : Kn.SA) (x h : K) (y k1 : Vec K n),
  (Kn.acceptB f false a x h y k1).1 = (Kn.acceptB f true a x h y k1).1 ∧
  (Kn.acceptB f false a x h y k1).2.1 = (Kn.acceptB f true a x h y k1).2.1 ∧
  (Kn.acceptB f false a x h y k1).2.2.2 = (Kn.acceptB f true a x h y k1).2.2.2
/-- the observer does not read the interpolant -/
def IgnoresIp {σ : Type} (ob : Obs σ K n) : Prop := ∀ s xold x y ip, ob s xold x y ip = ob s xold x y none

theorem eMeter_ncalls (m : Meter K n) : (eMeter m).ncalls = m.ncalls := rfl
theorem eMeter_cnt (m : Meter K n) : (eMeter m).cnt = m.cnt := rfl

theorem logCalls_emap (log : Array (Ev K n)) (base : Nat) (calls : Array (K × Vec K n)) :
    (logCalls log base calls).map eEv = logCalls (log.map eEv) base calls := by
  unfold logCalls
  rw [← Array.foldl_toList, ← Array.foldl_toList]
  generalize calls.zipIdx.toList = xs
  induction xs generalizing log with
  | nil => simp
  | cons a xs ih =>
    simp only [List.foldl_cons]
    rw [ih]
    congr 1
    simp [eEv]

theorem eMeter_bump (m : Meter K n) (calls : Array (K × Vec K n)) (lit : Nat) : eMeter (m.bump calls lit) = (eMeter m).bump calls lit := by
  unfold Meter.bump eMeter
  simp [logCalls_emap]
theorem eMeter_cb (m : Meter K n) (xold x : K) (y : Vec K n) (smp : Array (Vec K n)) :
    eMeter (m.cb xold x y smp) = (eMeter m).cb xold x y #[] := by
  unfold Meter.cb eMeter; simp [eEv]
theorem eMeter_incTotal (m : Meter K n) : eMeter m.incTotal = (eMeter m).incTotal := rfl
theorem eMeter_incAccepted (m : Meter K n) : eMeter m.incAccepted = (eMeter m).incAccepted := rfl
theorem eMeter_decAccepted (m : Meter K n) : eMeter m.decAccepted = (eMeter m).decAccepted := rfl
theorem eMeter_incRejected (m : Meter K n) : eMeter m.incRejected = (eMeter m).incRejected := rfl
theorem eMeter_refresh (m : Meter K n) (x : K) (y : Vec K n) : eMeter (m.refresh x y) = (eMeter m).refresh x y := by
  unfold Meter.refresh eMeter; simp [eEv]

def eAfter {σ : Type} : AfterCb σ K n → AfterCb σ K n
  | .stop o y => .stop o y
  | .go o y k1 m => .go o y k1 (eMeter m)

theorem afterCb_erase {σ : Type} (f : Rhs K n) (ob : Obs σ K n) (hob : IgnoresIp ob) (obs : σ) (m : Meter K n) (xold x : K) (y : Vec K n)
    (ip ip' : Option (K → Vec K n)) (kNext : Vec K n) :
    afterCb f ob obs (eMeter m) xold x y ip' kNext = eAfter (afterCb f ob obs m xold x y ip kNext) := by
  unfold afterCb
  rw [hob obs xold x y ip', hob obs xold x y ip]
  generalize ob obs xold x y none = r
  obtain ⟨r1, r2, r3⟩ := r
  cases r2 <;> simp [eAfter, eMeter_refresh, eMeter_ncalls]


theorem hTrial_erase {σ : Type} (P : HParams K n) (d d' : Bool) (Kn : HKernel K n) (f : Rhs K n) (s : HState σ K n) (h : K) (L : Bool) :
    hTrial (setDense P d) Kn f (eHS s) h L = { hTrial (setDense P d') Kn f s h L with m := eMeter (hTrial (setDense P d') Kn f s h L).m } := by
  unfold hTrial
  simp only [eHS, setDense, eMeter_ncalls, eMeter_bump, eMeter_incTotal]

theorem hRejected_erase {σ : Type} (P : HParams K n) (d d' : Bool) (s : HState σ K n) (h : K) (m : Meter K n) (fac11 : K) :
    hRejected (setDense P d) (eHS s) h (eMeter m) fac11 = eHS (hRejected (setDense P d') s h m fac11) := by
  unfold hRejected
  simp only [eHS, eMeter_cnt, setDense]
  congr 1
  by_cases hc : m.cnt.accepted > 1
  · simp only [hc, if_true, eMeter_incRejected]
  · simp only [hc, if_false]

theorem hFinish_erase {σ : Type} (P : HParams K n) (Kn : HKernel K n) (hK : DensePassive Kn) (f : Rhs K n) (ob : Obs σ K n) (hob : IgnoresIp ob)
    (d : Bool) (s : HState σ K n) (h : K) (last : Bool) (hnew facold hlamb : K) (nonstiff iasti : Nat) (sa : Kn.SA) (m : Meter K n) :
    hFinish (setDense P false) Kn f ob (eHS s) h last hnew facold hlamb nonstiff iasti sa (eMeter m)
      = eOut (hFinish (setDense P d) Kn f ob s h last hnew facold hlamb nonstiff iasti sa m) := by
  obtain ⟨xend, posneg, uround, safety, facc1, facc2, beta, expo1, hmax, nmax, nstiff, dns, stiffLimit, one, q1, q2, q3, uf, ufd, lg, lgd, hcalc, hr, fo⟩ := P
  obtain ⟨x, hs, y, k1, facold0, last0, reject, nonstiff0, iasti0, hlamb0, m0, obs⟩ := s
  unfold hFinish
  dsimp (config := { instances := true }) only [eHS, setDense]
  simp only [eMeter_ncalls, Bool.false_eq_true, if_false]
  have hs0 : sampleInterp (none : Option (K → Vec K n)) x (landX last xend x h) q1 q2 q3 = #[] := rfl
  cases d with
  | true =>
    simp only [if_true]
    obtain ⟨p1, p2, p3⟩ := hK (fun j => f (m.ncalls + j)) sa x h y k1
    rw [p1, p2, p3]
    generalize Kn.acceptB (fun j => f (m.ncalls + j)) true sa x h y k1 = B
    obtain ⟨b1, b2, b3, b4, b5⟩ := B
    dsimp only
    rw [hs0, ← eMeter_bump, ← eMeter_cb (m.bump b4 b5) x (landX last xend x h) b1 (sampleInterp (some (Kn.interp b3 x h)) x (landX last xend x h) q1 q2 q3)]
    rw [afterCb_erase f ob hob obs _ x (landX last xend x h) b1 (some (Kn.interp b3 x h)) none b2]
    cases afterCb f ob obs ((m.bump b4 b5).cb x (landX last xend x h) b1 (sampleInterp (some (Kn.interp b3 x h)) x (landX last xend x h) q1 q2 q3)) x (landX last xend x h) b1 (some (Kn.interp b3 x h)) b2 with
    | stop o yy => rfl
    | go o yy kk mm =>
      simp only [eAfter]
      cases last with
      | true => rfl
      | false => rfl
  | false =>
    simp only [Bool.false_eq_true, if_false]
    generalize Kn.acceptB (fun j => f (m.ncalls + j)) false sa x h y k1 = B
    obtain ⟨b1, b2, b3, b4, b5⟩ := B
    dsimp only
    rw [hs0, ← eMeter_bump, ← eMeter_cb (m.bump b4 b5) x (landX last xend x h) b1 #[]]
    rw [afterCb_erase f ob hob obs _ x (landX last xend x h) b1 none none b2]
    cases afterCb f ob obs ((m.bump b4 b5).cb x (landX last xend x h) b1 #[]) x (landX last xend x h) b1 none b2 with
    | stop o yy => rfl
    | go o yy kk mm =>
      simp only [eAfter]
      cases last with
      | true => rfl
      | false => rfl

theorem hAccepted_erase {σ : Type} (P : HParams K n) (Kn : HKernel K n) (hK : DensePassive Kn) (f : Rhs K n) (ob : Obs σ K n) (hob : IgnoresIp ob)
    (d : Bool) (s : HState σ K n) (h : K) (last : Bool) (T : HTrial K n Kn.S) :
    hAccepted (setDense P false) Kn f ob (eHS s) h last { T with m := eMeter T.m } = eOut (hAccepted (setDense P d) Kn f ob s h last T) := by
  unfold hAccepted
  have e0 : ({ T with m := eMeter T.m } : HTrial K n Kn.S).m.incAccepted.ncalls = T.m.incAccepted.ncalls := rfl
  have e1 : ({ T with m := eMeter T.m } : HTrial K n Kn.S).S = T.S := rfl
  have e2 : ({ T with m := eMeter T.m } : HTrial K n Kn.S).m.incAccepted = eMeter T.m.incAccepted := rfl
  have e3 : ({ T with m := eMeter T.m } : HTrial K n Kn.S).hnew = T.hnew := rfl
  have e4 : ({ T with m := eMeter T.m } : HTrial K n Kn.S).err = T.err := rfl
  have ex : (eHS s).x = s.x := rfl
  have ey : (eHS s).y = s.y := rfl
  have ek : (eHS s).k1 = s.k1 := rfl
  have eo : (eHS s).obs = s.obs := rfl
  have est : ∀ (a : Kn.SA) (acc : Nat), hStiffTest (setDense P false) Kn (eHS s) h a acc = hStiffTest (setDense P d) Kn s h a acc := fun _ _ => rfl
  have ef : (setDense P false).facoldNew = P.facoldNew := rfl
  have ef' : (setDense P d).facoldNew = P.facoldNew := rfl
  simp only [e0, e1, e2, e3, e4, ex, ey, ek, eo, est, ef, ef', eMeter_ncalls, ← eMeter_bump, eMeter_cnt]
  generalize Kn.acceptA (fun j => f (T.m.incAccepted.ncalls + j)) T.S s.x h s.y s.k1 = A
  obtain ⟨a1, a2, a3⟩ := A
  dsimp only
  generalize hStiffTest (setDense P d) Kn s h a1 (T.m.incAccepted.bump a2 a3).cnt.accepted = ST
  obtain ⟨st1, st2, st3, st4⟩ := ST
  dsimp only
  cases st4 with
  | true => rfl
  | false =>
    simp only [Bool.false_eq_true, if_false]
    exact hFinish_erase P Kn hK f ob hob d s h last T.hnew (P.facoldNew T.err) st1 st2 st3 a1 (T.m.incAccepted.bump a2 a3)

/-- one pass with `dense_output = false` from the erased state is the pass with `dense_output = d`, the interpolant samples erased -/
theorem hIter_erase {σ : Type} (P : HParams K n) (Kn : HKernel K n) (hK : DensePassive Kn) (f : Rhs K n) (ob : Obs σ K n) (hob : IgnoresIp ob)
    (d : Bool) (s : HState σ K n) :
    hIter (setDense P false) Kn f ob (eHS s) = eOut (hIter (setDense P d) Kn f ob s) := by
  unfold hIter
  have hg : hGuard (setDense P false) (eHS s) = hGuard (setDense P d) s := rfl
  have ha : hAdjust (setDense P false) (eHS s) = hAdjust (setDense P d) s := rfl
  rw [hg]
  cases hgq : hGuard (setDense P d) s with
  | some st => rfl
  | none =>
    dsimp only
    rw [ha, hTrial_erase P false d Kn f s]
    generalize hTrial (setDense P d) Kn f s (hAdjust (setDense P d) s).1 (hAdjust (setDense P d) s).2 = T
    have ho : (setDense P false).one = (setDense P d).one := rfl
    dsimp only
    rw [ho]
    by_cases hacc : T.err ≤ (setDense P d).one
    · rw [if_pos hacc, if_pos hacc]
      exact hAccepted_erase P Kn hK f ob hob d s _ _ T
    · rw [if_neg hacc, if_neg hacc]
      show Sum.inl _ = Sum.inl _
      congr 1
      exact hRejected_erase P false d s _ T.m T.fac11

theorem hLoop_erase {σ : Type} (P : HParams K n) (Kn : HKernel K n) (hK : DensePassive Kn) (f : Rhs K n) (ob : Obs σ K n) (hob : IgnoresIp ob)
    (d : Bool) : ∀ (fuel : Nat) (s : HState σ K n),
      hLoop (setDense P false) Kn f ob fuel (eHS s) = (hLoop (setDense P d) Kn f ob fuel s).map eResult := by
  intro fuel
  induction fuel with
  | zero => intro s; rfl
  | succ fuel ih =>
    intro s
    unfold hLoop
    rw [hIter_erase P Kn hK f ob hob d s]
    cases hq : hIter (setDense P d) Kn f ob s with
    | inr r => rfl
    | inl s' => exact ih s'

/-- the initial callback carries no samples: the two starts agree (up to the erasure, which does nothing there) -/
theorem hStart_erase {σ : Type} (P : HParams K n) (f : Rhs K n) (ob : Obs σ K n) (hob : IgnoresIp ob) (obs0 : σ) (x0 : K) (y0 : Vec K n)
    (firstStep : Option K) (hinit : Rhs K n → Vec K n → K × Array (K × Vec K n)) (fo hl : K) :
    hStart (setDense P false) f ob obs0 x0 y0 firstStep hinit fo hl = hStart (setDense P true) f ob obs0 x0 y0 firstStep hinit fo hl := rfl


/-- **C12 at the solver interface**: with a kernel whose update does not depend on the flag and an observer that does not read the
    interpolant, `dense_output` changes only the interpolant samples in the log — step points, states, step sizes, statuses and
    counters of the two runs coincide. -/
theorem hSolve_dense_passive {σ : Type} (P : HParams K n) (Kn : HKernel K n) (hK : DensePassive Kn) (f : Rhs K n) (ob : Obs σ K n)
    (hob : IgnoresIp ob) (obs0 : σ) (x0 : K) (y0 : Vec K n) (firstStep : Option K) (hinit : Rhs K n → Vec K n → K × Array (K × Vec K n))
    (fo hl : K) (fuel : Nat) :
    (hSolve (setDense P false) Kn f ob obs0 x0 y0 firstStep hinit fo hl fuel).map eResult
      = (hSolve (setDense P true) Kn f ob obs0 x0 y0 firstStep hinit fo hl fuel).map eResult := by
  unfold hSolve
  rw [hStart_erase P f ob hob obs0 x0 y0 firstStep hinit fo hl]
  cases hq : hStart (setDense P true) f ob obs0 x0 y0 firstStep hinit fo hl with
  | inr r => rfl
  | inl s =>
    dsimp only
    have h1 := hLoop_erase P Kn hK f ob hob false fuel s
    have h2 := hLoop_erase P Kn hK f ob hob true fuel s
    rw [← h1, h2]

/-- DOPRI5's kernel is passive in the dense flag (DOP853's is not: its three extra stages are evaluated on request only) -/
theorem dopri5_densePassive (atol rtol : Vec K n) : DensePassive (dopri5Kernel (α := K) atol rtol) := by
  intro f a x h y k1
  simp [dopri5Kernel]

end
end Ctl
