import IvpModel.Proofs.ReflectRk4
set_option linter.unusedSectionVars false
set_option linter.unusedSimpArgs false
set_option linter.unusedTactic false
set_option linter.unnecessarySeqFocus false

/-!
  C13, whole runs (RK23, adaptive): the run of the time-reflected problem is the mirror image of the run — same accepted and
  rejected steps, mirrored calls and callbacks, same error estimates and step-size factors — for every right-hand side,
  observer, tolerance vector and fuel (exact arithmetic).
-/
namespace Ctl
noncomputable section
variable {K : Type} [Field K] [LinearOrder K] [IsStrictOrderedRing K] [SqrtPow K] {n : Nat}

def rP23 (P : R23Params K n) : R23Params K n := { P with xend := -P.xend, posneg := -P.posneg }
def rS23 {σ : Type} (s : R23State σ K n) : R23State σ K n := { s with x := -s.x, h := -s.h, k1 := vneg s.k1, m := rMeter s.m }
def rOut23 {σ : Type} : Sum (R23State σ K n) (Result σ K n) → Sum (R23State σ K n) (Result σ K n)
  | .inl s => .inl (rS23 s)
  | .inr r => .inr (rResult r)

theorem rk23Guard_reflect {σ : Type} (P : R23Params K n) (s : R23State σ K n) : rk23Guard (rP23 P) (rS23 s) = rk23Guard P s := by
  unfold rk23Guard
  have hu := rk23_underflow_reflect s.h s.x
  by_cases hb : s.m.cnt.total ≥ P.nmax
  · have hb' : (rS23 s).m.cnt.total ≥ (rP23 P).nmax := hb
    rw [if_pos hb, if_pos hb']
  · have hb' : ¬ (rS23 s).m.cnt.total ≥ (rP23 P).nmax := hb
    rw [if_neg hb, if_neg hb']
    by_cases hg : Gen.Rk23.underflowGuard s.h s.x
    · rw [if_pos hg, if_pos (show Gen.Rk23.underflowGuard (rS23 s).h (rS23 s).x from hu.mpr hg)]
    · rw [if_neg hg, if_neg (show ¬ Gen.Rk23.underflowGuard (rS23 s).h (rS23 s).x from fun h => hg (hu.mp h))]

theorem rk23Adjust_reflect {σ : Type} (P : R23Params K n) (s : R23State σ K n) :
    rk23Adjust (rP23 P) (rS23 s) = -(rk23Adjust P s) ∧ rk23Last (rP23 P) (rS23 s) = rk23Last P s := by
  unfold rk23Adjust rk23Last
  have hg := rk23_lastGuard_reflect s.x s.h P.xend P.posneg
  by_cases hl : Gen.Rk23.lastGuard s.x s.h P.xend P.posneg
  · have hl' : Gen.Rk23.lastGuard (rS23 s).x (rS23 s).h (rP23 P).xend (rP23 P).posneg := hg.mpr hl
    rw [if_pos hl, if_pos hl']
    refine ⟨?_, by simp [hl, hl']⟩
    show -P.xend - -s.x = -(P.xend - s.x); ring
  · have hl' : ¬ Gen.Rk23.lastGuard (rS23 s).x (rS23 s).h (rP23 P).xend (rP23 P).posneg := fun h => hl (hg.mp h)
    rw [if_neg hl, if_neg hl']
    exact ⟨rfl, by simp [hl, hl']⟩
section regions
open Gen.Rk23

theorem l1_reflect (y k1 : Vector K n) (h : K) : stages_loop1 (y := y) (h := -h) (k1 := vneg k1) = stages_loop1 (y := y) (h := h) (k1 := k1) := by
  ext i hi; simp [stages_loop1, vneg]
theorem l2_reflect (y k2 : Vector K n) (h : K) : stages_loop2 (y := y) (h := -h) (k2 := vneg k2) = stages_loop2 (y := y) (h := h) (k2 := k2) := by
  ext i hi; simp [stages_loop2, vneg]
theorem l3_reflect (y k1 k2 k3 : Vector K n) (h : K) :
    stages_loop3 (y := y) (h := -h) (k1 := vneg k1) (k2 := vneg k2) (k3 := vneg k3) = stages_loop3 (y := y) (h := h) (k1 := k1) (k2 := k2) (k3 := k3) := by
  ext i hi; simp [stages_loop3, vneg]; ring

theorem stages23_reflect_off (F : Rhs K n) (c : Nat) (y k1 : Vector K n) (x h : K) (last : Bool) (xend : K) :
    let o := stages (f := fun j => F (c + j)) (y := y) (h := h) (k1 := k1) (x := x) (last := last) (xend := xend)
    let o' := stages (f := fun j => rRhs F (c + j)) (y := y) (h := -h) (k1 := vneg k1) (x := -x) (last := last) (xend := -xend)
    o'.yt = o.yt ∧ o'.k2 = vneg o.k2 ∧ o'.k3 = vneg o.k3 ∧ o'.k4 = vneg o.k4 ∧ o'.xph = -o.xph ∧ o'.calls = o.calls.map mirror := by
  intro o o'
  have t1 : -(-x + (C2 : K) * -h) = x + C2 * h := by ring
  have t2 : -(-x + (C3 : K) * -h) = x + C3 * h := by ring
  have t3 : (if last = true then -xend else -x + -h) = -(if last = true then xend else x + h) := by
    cases last <;> simp; ring
  simp only [o, o', stages, rRhs, l1_reflect, t1, l2_reflect, t2, l3_reflect, t3, neg_neg]
  simp [mirror]
  constructor <;> ring

theorem errvec_reflect (k1 k2 k3 k4 : Vector K n) (h : K) :
    (errvec (h := -h) (k1 := vneg k1) (k2 := vneg k2) (k3 := vneg k3) (k4 := vneg k4)).ye = (errvec (h := h) (k1 := k1) (k2 := k2) (k3 := k3) (k4 := k4)).ye := by
  ext i hi; simp [errvec, errvec_loop1, vneg]; ring

theorem dense23_reflect (ye k1 k2 k3 k4 : Vector K n) :
    let d := dense (ye := ye) (k1 := k1) (k2 := k2) (k3 := k3) (k4 := k4)
    let d' := dense (ye := ye) (k1 := vneg k1) (k2 := vneg k2) (k3 := vneg k3) (k4 := vneg k4)
    d'.cont0 = d.cont0 ∧ d'.cont1 = vneg d.cont1 ∧ d'.cont2 = vneg d.cont2 ∧ d'.cont3 = vneg d.cont3 := by
  intro d d'
  refine ⟨rfl, ?_, ?_, ?_⟩ <;> (ext i hi; simp [d, d', dense, dense_loop1, vneg]; try ring)

theorem interp23_reflect (c0 c1 c2 c3 : Vector K n) (xold h xi : K) :
    interpolate (xi := -xi) (xold := -xold) (h := -h) (cont0 := c0) (cont1 := vneg c1) (cont2 := vneg c2) (cont3 := vneg c3)
      = interpolate (xi := xi) (xold := xold) (h := h) (cont0 := c0) (cont1 := c1) (cont2 := c2) (cont3 := c3) := by
  have ht : (-xi - -xold) / -h = (xi - xold) / h := by
    rw [show -xi - -xold = -(xi - xold) by ring, neg_div_neg_eq]
  simp only [interpolate, interpolate_loop1, ht]
  generalize (xi - xold) / h = t
  ext i hi
  simp [vneg]
  ring
end regions

/-- the part of a pass after the guards, for the adjusted step `h` and landing decision `L` -/
def rk23Pass {σ : Type} (P : R23Params K n) (f : Rhs K n) (ob : Obs σ K n) (s : R23State σ K n) (h : K) (L : Bool) :
    Sum (R23State σ K n) (Result σ K n) :=
  let T := rk23Trial P f s h L
  if T.err ≤ P.one then rk23Accepted P f ob s h L T
  else
    .inl { s with h := h * Gen.Rk23.hRejectFactor P.safety T.err (Gen.Rk23.errorExponent : K) P.scaleMin,
                  m := T.m.incRejected }

theorem rk23Iter_eq_pass {σ : Type} (P : R23Params K n) (f : Rhs K n) (ob : Obs σ K n) (s : R23State σ K n) :
    rk23Iter P f ob s = match rk23Guard P s with
      | some st => .inr (s.result st)
      | none => rk23Pass P f ob s (rk23Adjust P s) (rk23Last P s) := rfl

theorem ip23_reflect (dn : Bool) (y0 k1 k2 k3 k4 : Vec K n) (x h : K) :
    (if dn = true then
        some fun xi => Gen.Rk23.interpolate (xi := xi) (xold := -x) (h := -h)
          (cont0 := (Gen.Rk23.dense (ye := y0) (k1 := vneg k1) (k2 := vneg k2) (k3 := vneg k3) (k4 := vneg k4)).cont0)
          (cont1 := (Gen.Rk23.dense (ye := y0) (k1 := vneg k1) (k2 := vneg k2) (k3 := vneg k3) (k4 := vneg k4)).cont1)
          (cont2 := (Gen.Rk23.dense (ye := y0) (k1 := vneg k1) (k2 := vneg k2) (k3 := vneg k3) (k4 := vneg k4)).cont2)
          (cont3 := (Gen.Rk23.dense (ye := y0) (k1 := vneg k1) (k2 := vneg k2) (k3 := vneg k3) (k4 := vneg k4)).cont3)
      else none)
    = rIp (if dn = true then
        some fun xi => Gen.Rk23.interpolate (xi := xi) (xold := x) (h := h)
          (cont0 := (Gen.Rk23.dense (ye := y0) (k1 := k1) (k2 := k2) (k3 := k3) (k4 := k4)).cont0)
          (cont1 := (Gen.Rk23.dense (ye := y0) (k1 := k1) (k2 := k2) (k3 := k3) (k4 := k4)).cont1)
          (cont2 := (Gen.Rk23.dense (ye := y0) (k1 := k1) (k2 := k2) (k3 := k3) (k4 := k4)).cont2)
          (cont3 := (Gen.Rk23.dense (ye := y0) (k1 := k1) (k2 := k2) (k3 := k3) (k4 := k4)).cont3)
      else none) := by
  obtain ⟨d0, d1, d2, d3⟩ := dense23_reflect y0 k1 k2 k3 k4
  cases dn with
  | false => rfl
  | true =>
    simp only [if_true, rIp, Option.map]
    congr 1
    funext xi
    rw [d0, d1, d2, d3]
    have := interp23_reflect (Gen.Rk23.dense (ye := y0) (k1 := k1) (k2 := k2) (k3 := k3) (k4 := k4)).cont0
      (Gen.Rk23.dense (ye := y0) (k1 := k1) (k2 := k2) (k3 := k3) (k4 := k4)).cont1
      (Gen.Rk23.dense (ye := y0) (k1 := k1) (k2 := k2) (k3 := k3) (k4 := k4)).cont2
      (Gen.Rk23.dense (ye := y0) (k1 := k1) (k2 := k2) (k3 := k3) (k4 := k4)).cont3 x h (-xi)
    rw [neg_neg] at this
    exact this

theorem rMeter_incRejected (m : Meter K n) : rMeter m.incRejected = (rMeter m).incRejected := rfl

/-- the step proposed after an accepted step, mirrored -/
theorem rk23NextStep_reflect (P : R23Params K n) (h err : K) :
    rk23NextStep (rP23 P) (-h) err = -(rk23NextStep P h err) := by
  unfold rk23NextStep
  have hn : -h * Gen.Rk23.hAcceptFactor P.safety err (Gen.Rk23.errorExponent : K) P.scaleMax P.scaleMin
      = -(h * Gen.Rk23.hAcceptFactor P.safety err (Gen.Rk23.errorExponent : K) P.scaleMax P.scaleMin) := by ring
  show (if Gen.Rk23.hmaxExceeded (-h * Gen.Rk23.hAcceptFactor P.safety err (Gen.Rk23.errorExponent : K) P.scaleMax P.scaleMin) P.hmax
      then P.hmax * -P.posneg else -h * Gen.Rk23.hAcceptFactor P.safety err (Gen.Rk23.errorExponent : K) P.scaleMax P.scaleMin) = _
  rw [hn]
  have hx : Gen.Rk23.hmaxExceeded (-(h * Gen.Rk23.hAcceptFactor P.safety err (Gen.Rk23.errorExponent : K) P.scaleMax P.scaleMin)) P.hmax
      ↔ Gen.Rk23.hmaxExceeded (h * Gen.Rk23.hAcceptFactor P.safety err (Gen.Rk23.errorExponent : K) P.scaleMax P.scaleMin) P.hmax := by
    unfold Gen.Rk23.hmaxExceeded; simp [num_abs]
  by_cases hc : Gen.Rk23.hmaxExceeded (h * Gen.Rk23.hAcceptFactor P.safety err (Gen.Rk23.errorExponent : K) P.scaleMax P.scaleMin) P.hmax
  · rw [if_pos hc, if_pos (hx.mpr hc)]; ring
  · rw [if_neg hc, if_neg (fun h' => hc (hx.mp h'))]

/-- mirror image of the outputs of the stage region -/
def rStages (o : Gen.Rk23.StagesOut K n) : Gen.Rk23.StagesOut K n :=
  { yt := o.yt, k2 := vneg o.k2, calls := o.calls.map mirror, k3 := vneg o.k3, xph := -o.xph, k4 := vneg o.k4 }
def rTrial (T : R23Trial K n) : R23Trial K n := { o := rStages T.o, m := rMeter T.m, err := T.err }

theorem rk23Trial_reflect {σ : Type} (P : R23Params K n) (f : Rhs K n) (s : R23State σ K n) (h : K) (L : Bool) :
    rk23Trial (rP23 P) (rRhs f) (rS23 s) (-h) L = rTrial (rk23Trial P f s h L) := by
  obtain ⟨e1, e2, e3, e4, e5, e6⟩ := stages23_reflect_off f s.m.ncalls s.y s.k1 s.x h L P.xend
  have hO : Gen.Rk23.stages (f := fun j => rRhs f (s.m.ncalls + j)) (y := s.y) (h := -h) (k1 := vneg s.k1) (x := -s.x) (last := L) (xend := -P.xend)
      = rStages (Gen.Rk23.stages (f := fun j => f (s.m.ncalls + j)) (y := s.y) (h := h) (k1 := s.k1) (x := s.x) (last := L) (xend := P.xend)) := by
    generalize Gen.Rk23.stages (f := fun j => rRhs f (s.m.ncalls + j)) (y := s.y) (h := -h) (k1 := vneg s.k1) (x := -s.x) (last := L) (xend := -P.xend) = O' at *
    generalize Gen.Rk23.stages (f := fun j => f (s.m.ncalls + j)) (y := s.y) (h := h) (k1 := s.k1) (x := s.x) (last := L) (xend := P.xend) = O at *
    obtain ⟨a1, a2, a3, a4, a5, a6⟩ := O
    obtain ⟨b1, b2, b3, b4, b5, b6⟩ := O'
    simp only at e1 e2 e3 e4 e5 e6
    subst e1 e2 e3 e4 e5 e6
    rfl
  unfold rk23Trial rTrial
  dsimp only [rS23, rP23]
  simp only [rMeter_ncalls, hO]
  congr 1
  · simp only [rStages, rMeter_bump]
  · simp only [rStages, errvec_reflect]

/-- the accepted branch under reflection, for any trial outcome -/
theorem rk23Accepted_reflect {σ : Type} (P : R23Params K n) (f : Rhs K n) (ob : Obs σ K n) (x hs : K) (y k1 : Vec K n) (m : Meter K n)
    (obs : σ) (h : K) (L : Bool) (T : R23Trial K n) :
    rk23Accepted (rP23 P) (rRhs f) (rObs ob) (rS23 { x := x, h := hs, y := y, k1 := k1, m := m, obs := obs }) (-h) L (rTrial T)
      = rOut23 (rk23Accepted P f ob { x := x, h := hs, y := y, k1 := k1, m := m, obs := obs } h L T) := by
  have hns := rk23NextStep_reflect P h T.err
  obtain ⟨xend, posneg, safety, smin, smax, hmax, nmax, dns, atol, rtol, one, q1, q2, q3⟩ := P
  obtain ⟨⟨oyt, ok2, ocalls, ok3, oxph, ok4⟩, tm, terr⟩ := T
  unfold rk23Accepted
  dsimp (config := { instances := true }) only [rS23, rP23, rTrial, rStages]
  have hland : landX L (-xend) (-x) (-h) = -(landX L xend x h) := by
    unfold landX; cases L <;> simp; ring
  rw [hland, ip23_reflect]
  generalize (if dns = true then
      some fun xi => Gen.Rk23.interpolate (xi := xi) (xold := x) (h := h)
        (cont0 := (Gen.Rk23.dense (ye := y) (k1 := k1) (k2 := ok2) (k3 := ok3) (k4 := ok4)).cont0)
        (cont1 := (Gen.Rk23.dense (ye := y) (k1 := k1) (k2 := ok2) (k3 := ok3) (k4 := ok4)).cont1)
        (cont2 := (Gen.Rk23.dense (ye := y) (k1 := k1) (k2 := ok2) (k3 := ok3) (k4 := ok4)).cont2)
        (cont3 := (Gen.Rk23.dense (ye := y) (k1 := k1) (k2 := ok2) (k3 := ok3) (k4 := ok4)).cont3)
    else none) = IP
  rw [sampleInterp_reflect, ← rMeter_incTotal, ← rMeter_incAccepted, ← rMeter_cb, afterCb_reflect]
  simp only [rP23] at hns
  have heq : Num.eqb (-(landX L xend x h)) (-xend) = Num.eqb (landX L xend x h) xend := by
    apply Bool.eq_iff_iff.mpr
    rw [num_eqb, num_eqb]
    constructor <;> intro hh <;> linarith
  cases afterCb f ob obs (tm.incTotal.incAccepted.cb x (landX L xend x h) oyt (sampleInterp IP x (landX L xend x h) q1 q2 q3)) x (landX L xend x h) oyt IP ok4 with
  | stop o yy => rfl
  | go o yy kk mm =>
    simp only [rAfter, heq, hns]
    by_cases hx : (L || Num.eqb (landX L xend x h) xend) = true
    · rw [if_pos hx, if_pos hx]; rfl
    · rw [if_neg hx, if_neg hx]; rfl

/-- **C13, one RK23 trial (accepted or rejected) under time reflection.** -/
theorem rk23Pass_reflect {σ : Type} (P : R23Params K n) (f : Rhs K n) (ob : Obs σ K n) (x hs : K) (y k1 : Vec K n) (m : Meter K n)
    (obs : σ) (h : K) (L : Bool) :
    rk23Pass (rP23 P) (rRhs f) (rObs ob) (rS23 { x := x, h := hs, y := y, k1 := k1, m := m, obs := obs }) (-h) L
      = rOut23 (rk23Pass P f ob { x := x, h := hs, y := y, k1 := k1, m := m, obs := obs } h L) := by
  unfold rk23Pass
  rw [rk23Trial_reflect]
  generalize rk23Trial P f { x := x, h := hs, y := y, k1 := k1, m := m, obs := obs } h L = T
  have he : (rTrial T).err = T.err := rfl
  have ho : (rP23 P).one = P.one := rfl
  dsimp only
  rw [he, ho]
  by_cases hacc : T.err ≤ P.one
  · rw [if_pos hacc, if_pos hacc]
    exact rk23Accepted_reflect P f ob x hs y k1 m obs h L T
  · rw [if_neg hacc, if_neg hacc]
    show Sum.inl _ = Sum.inl _
    congr 1
    show ({ x := -x, h := -h * Gen.Rk23.hRejectFactor (rP23 P).safety T.err (Gen.Rk23.errorExponent : K) (rP23 P).scaleMin, y := y, k1 := vneg k1,
            m := (rTrial T).m.incRejected, obs := obs } : R23State σ K n) = _
    simp only [rS23, rP23, rTrial, rMeter_incRejected]
    congr 1
    ring

/-- **C13, one pass of RK23 under time reflection.** -/
theorem rk23Iter_reflect {σ : Type} (P : R23Params K n) (f : Rhs K n) (ob : Obs σ K n) (s : R23State σ K n) :
    rk23Iter (rP23 P) (rRhs f) (rObs ob) (rS23 s) = rOut23 (rk23Iter P f ob s) := by
  rw [rk23Iter_eq_pass, rk23Iter_eq_pass, rk23Guard_reflect]
  obtain ⟨ha, hl⟩ := rk23Adjust_reflect P s
  cases hg : rk23Guard P s with
  | some st => rfl
  | none =>
    dsimp only
    rw [ha, hl]
    obtain ⟨x, hs, y, k1, m, obs⟩ := s
    exact rk23Pass_reflect P f ob x hs y k1 m obs _ _

/-- **C13, whole RK23 runs (from any state) under time reflection.**  Accepted and rejected trials, error estimates,
    step-size factors, callbacks, interpolant samples, status and counters of the mirrored problem are the mirror image. -/
theorem rk23Loop_reflect {σ : Type} (P : R23Params K n) (f : Rhs K n) (ob : Obs σ K n) :
    ∀ (fuel : Nat) (s : R23State σ K n),
      rk23Loop (rP23 P) (rRhs f) (rObs ob) fuel (rS23 s) = (rk23Loop P f ob fuel s).map rResult := by
  intro fuel
  induction fuel with
  | zero => intro s; rfl
  | succ fuel ih =>
    intro s
    unfold rk23Loop
    rw [rk23Iter_reflect P f ob s]
    cases hq : rk23Iter P f ob s with
    | inr r => rfl
    | inl s' => exact ih s'

/-- the automatic first step of the mirrored problem (any right-hand side): the negated step, the mirrored probe -/
theorem hinit_reflect_gen (F : Rhs K n) (atol rtol y f0 : Vector K n) (hmax posneg x : K) (iord : Nat) (hp : posneg ≠ 0) :
    (Gen.Common.hinit (f := rRhs F) (atol := atol) (rtol := rtol) (y := y) (f0 := vneg f0) (hmax := hmax) (posneg := -posneg) (x := -x) (iord := iord)).1
      = -(Gen.Common.hinit (f := F) (atol := atol) (rtol := rtol) (y := y) (f0 := f0) (hmax := hmax) (posneg := posneg) (x := x) (iord := iord)).1
    ∧ (Gen.Common.hinit (f := rRhs F) (atol := atol) (rtol := rtol) (y := y) (f0 := vneg f0) (hmax := hmax) (posneg := -posneg) (x := -x) (iord := iord)).2
      = (Gen.Common.hinit (f := F) (atol := atol) (rtol := rtol) (y := y) (f0 := f0) (hmax := hmax) (posneg := posneg) (x := x) (iord := iord)).2.map mirror := by
  unfold Gen.Common.hinit
  have t : ∀ a b : K, -(-a + -b) = a + b := fun a b => by ring
  simp only [rRhs, hinit_loop1_even, hinit_loop3_even, signum_neg posneg hp, mul_neg, hinit_loop2_reflect, abs_neg, num_abs, t]
  refine ⟨trivial, ?_⟩
  simp only [Array.map_push, Array.map_empty, mirror, neg_add]

theorem rk23Start_reflect {σ : Type} (P : R23Params K n) (f : Rhs K n) (ob : Obs σ K n) (obs0 : σ) (x0 : K) (y0 : Vec K n)
    (firstStep : Option K) (hmaxArg : K) (hp : P.posneg ≠ 0) :
    rk23Start (rP23 P) (rRhs f) (rObs ob) obs0 (-x0) y0 firstStep hmaxArg = rOut23 (rk23Start P f ob obs0 x0 y0 firstStep hmaxArg) := by
  unfold rk23Start startMeter
  have hk : rRhs f 0 (-x0) y0 = vneg (f 0 x0 y0) := by simp [rRhs]
  have hm0 : (({} : Meter K n).bump #[(-x0, y0)] 1) = rMeter (({} : Meter K n).bump #[(x0, y0)] 1) := by
    rw [rMeter_bump]; simp [rMeter, mirror]
  cases firstStep with
  | some h0 =>
    dsimp only [rP23]
    rw [hk, hm0, ← rMeter_cb]
    have ha := afterCb_reflect f ob obs0 ((({} : Meter K n).bump #[(x0, y0)] 1).cb x0 x0 y0 #[]) x0 x0 y0 none (f 0 x0 y0)
    rw [show rIp (none : Option (K → Vec K n)) = none from rfl] at ha
    rw [ha]
    have hh : Num.fmin (Num.abs h0) P.hmax * -P.posneg = -(Num.fmin (Num.abs h0) P.hmax * P.posneg) := by ring
    cases afterCb f ob obs0 ((({} : Meter K n).bump #[(x0, y0)] 1).cb x0 x0 y0 #[]) x0 x0 y0 none (f 0 x0 y0) with
    | stop o yy => simp only [rAfter, rOut23, rResult, hh]
    | go o yy kk mm => simp only [rAfter, rOut23, rS23, hh]
  | none =>
    dsimp only [rP23]
    obtain ⟨g1, g2⟩ := hinit_reflect_gen (fun j => f (1 + j)) P.atol P.rtol y0 (f 0 x0 y0) hmaxArg P.posneg x0 Gen.Static.rk23_hinitOrder hp
    rw [hk, hm0]
    have e1 : (Gen.Common.hinit (f := fun j => rRhs f (1 + j)) (atol := P.atol) (rtol := P.rtol) (y := y0) (f0 := vneg (f 0 x0 y0)) (hmax := hmaxArg)
        (posneg := -P.posneg) (x := -x0) (iord := Gen.Static.rk23_hinitOrder)).1 = _ := g1
    have e2 : (Gen.Common.hinit (f := fun j => rRhs f (1 + j)) (atol := P.atol) (rtol := P.rtol) (y := y0) (f0 := vneg (f 0 x0 y0)) (hmax := hmaxArg)
        (posneg := -P.posneg) (x := -x0) (iord := Gen.Static.rk23_hinitOrder)).2 = _ := g2
    rw [e1, e2, ← rMeter_bump, ← rMeter_cb]
    have ha := afterCb_reflect f ob obs0 (((({} : Meter K n).bump #[(x0, y0)] 1).bump
      (Gen.Common.hinit (f := fun j => f (1 + j)) (atol := P.atol) (rtol := P.rtol) (y := y0) (f0 := f 0 x0 y0) (hmax := hmaxArg)
        (posneg := P.posneg) (x := x0) (iord := Gen.Static.rk23_hinitOrder)).2 1).cb x0 x0 y0 #[]) x0 x0 y0 none (f 0 x0 y0)
    rw [show rIp (none : Option (K → Vec K n)) = none from rfl] at ha
    rw [ha]
    cases afterCb f ob obs0 (((({} : Meter K n).bump #[(x0, y0)] 1).bump
      (Gen.Common.hinit (f := fun j => f (1 + j)) (atol := P.atol) (rtol := P.rtol) (y := y0) (f0 := f 0 x0 y0) (hmax := hmaxArg)
        (posneg := P.posneg) (x := x0) (iord := Gen.Static.rk23_hinitOrder)).2 1).cb x0 x0 y0 #[]) x0 x0 y0 none (f 0 x0 y0) with
    | stop o yy => rfl
    | go o yy kk mm => rfl

/-- **C13 (RK23, whole run from the start, automatic or given first step).** -/
theorem rk23Solve_reflect {σ : Type} (P : R23Params K n) (f : Rhs K n) (ob : Obs σ K n) (obs0 : σ) (x0 : K) (y0 : Vec K n)
    (firstStep : Option K) (hmaxArg : K) (hp : P.posneg ≠ 0) (fuel : Nat) :
    rk23Solve (rP23 P) (rRhs f) (rObs ob) obs0 (-x0) y0 firstStep hmaxArg fuel
      = (rk23Solve P f ob obs0 x0 y0 firstStep hmaxArg fuel).map rResult := by
  unfold rk23Solve
  rw [rk23Start_reflect P f ob obs0 x0 y0 firstStep hmaxArg hp]
  cases hq : rk23Start P f ob obs0 x0 y0 firstStep hmaxArg with
  | inr r => rfl
  | inl s => exact rk23Loop_reflect P f ob fuel s

end
end Ctl
