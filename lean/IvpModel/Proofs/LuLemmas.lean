/-
  Exact-arithmetic facts about the LU model (Model/LU.lean) over any ordered field: shape and pivot-length
  rejections for every size; sizes 1 and 2 completely (solution exact, singular ⇔ det = 0, multiplier ≤ 1).
-/
import IvpModel.Proofs.FieldNum
import IvpModel.Model.LU
import Mathlib.Tactic.LinearCombination
import Mathlib.Tactic.FieldSimp
import Mathlib.Tactic.Ring

namespace LU
noncomputable section
variable {K : Type} [Field K] [LinearOrder K] [IsStrictOrderedRing K] [SqrtPow K]

omit [IsStrictOrderedRing K] in
theorem num_eqb_false (a b : K) : (Num.eqb a b = false) ↔ a ≠ b := by
  show (decide (a = b) = false) ↔ _
  simp

theorem decomp_nonSquare (rows cols l : Nat) (a : Array K) (h : rows ≠ cols) :
    decomp rows cols l a = .error .nonSquare := by
  simp [decomp, h]

theorem decomp_pivotSize (n l : Nat) (a : Array K) (h : l ≠ n) : decomp n n l a = .error .pivotSize := by
  simp [decomp, h]

theorem decompC_pivotSize (n l : Nat) (ar ai : Array K) (h : l ≠ n) : decompC n l ar ai = .error .pivotSize := by
  simp [decompC, h]

theorem decomp_one (a : K) : decomp 1 1 1 #[a] = if a = 0 then .error .singular else .ok (#[a], #[0]) := by
  by_cases h : a = 0 <;> simp [decomp, rd, ix, h, Num.zero]

theorem solve_one (a b : K) (h : a ≠ 0) : a * (solve 1 #[a] #[0] #[b]).getD 0 0 = b := by
  simp [solve, rd, ix, Num.zero]
  field_simp

/-- 2×2: the value of `A·x = b` with the computed factors, or `False` if the factorisation is refused -/
def Correct2 (a b c d b1 b2 : K) : Prop :=
  match decomp 2 2 2 #[a, b, c, d] with
  | .ok (F, ip) =>
    let x := solve 2 F ip #[b1, b2]
    (a * x.getD 0 0 + b * x.getD 1 0 = b1 ∧ c * x.getD 0 0 + d * x.getD 1 0 = b2) ∧ |F.getD 2 0| ≤ 1
  | .error _ => False

set_option maxHeartbeats 4000000 in
theorem lu2_noswap (a b c d b1 b2 : K) (hdet : a * d - b * c ≠ 0) (hp : ¬ |c| > |a|) : Correct2 a b c d b1 b2 := by
  have ha : a ≠ 0 := by
    intro h; subst h
    have : c = 0 := by
      have : |c| ≤ 0 := by simpa using hp
      exact abs_eq_zero.mp (le_antisymm this (abs_nonneg c))
    subst this; simp at hdet
  have hm : |c| * |a|⁻¹ ≤ 1 := by
    rw [← div_eq_mul_inv, div_le_one (abs_pos.mpr ha)]
    exact not_lt.mp hp
  unfold Correct2
  by_cases hb : b = 0
  · subst hb
    have hd : d ≠ 0 := by intro h; subst h; simp at hdet
    simp [decomp, solve, rd, ix, wr, Num.zero, Num.one, num_eqb_false, hp, ha, hd]
    refine ⟨by constructor <;> field_simp <;> ring, hm⟩
  · have hd : d + -(c * a⁻¹ * b) ≠ 0 := by
      intro h
      apply hdet
      have : a * (d + -(c * a⁻¹ * b)) = 0 := by rw [h]; ring
      field_simp at this
      linarith
    have hdet2 : -(c * b) + a * d ≠ 0 := by intro h; apply hdet; linear_combination h
    simp [decomp, solve, rd, ix, wr, Num.zero, Num.one, num_eqb_false, hp, ha, hb, hd]
    have hdet3 : a * d + -(c * b) ≠ 0 := by intro h; apply hdet; linear_combination h
    refine ⟨by constructor <;> field_simp <;> ring, hm⟩

set_option maxHeartbeats 4000000 in
theorem lu2_swap (a b c d b1 b2 : K) (hdet : a * d - b * c ≠ 0) (hp : |c| > |a|) : Correct2 a b c d b1 b2 := by
  have hc : c ≠ 0 := by
    intro h; subst h; simp at hp; exact absurd hp (not_lt.mpr (abs_nonneg a))
  have hm : |a| * |c|⁻¹ ≤ 1 := by
    rw [← div_eq_mul_inv, div_le_one (abs_pos.mpr hc)]
    exact le_of_lt hp
  unfold Correct2
  by_cases hdz : d = 0
  · subst hdz
    have hb : b ≠ 0 := by intro h; subst h; simp at hdet
    simp [decomp, solve, rd, ix, wr, Num.zero, Num.one, num_eqb_false, hp, hc, hb]
    refine ⟨by constructor <;> field_simp <;> ring, hm⟩
  · have hd : b + -(a * c⁻¹ * d) ≠ 0 := by
      intro h
      apply hdet
      have : c * (b + -(a * c⁻¹ * d)) = 0 := by rw [h]; ring
      field_simp at this
      linarith
    have hdet2 : -(a * d) + c * b ≠ 0 := by intro h; apply hdet; linear_combination -h
    simp [decomp, solve, rd, ix, wr, Num.zero, Num.one, num_eqb_false, hp, hc, hdz, hd]
    have hdet3 : c * b + -(a * d) ≠ 0 := by intro h; apply hdet; linear_combination -h
    refine ⟨by constructor <;> field_simp <;> ring, hm⟩

set_option maxHeartbeats 4000000 in
/-- a singular 2×2 matrix is refused -/
theorem lu2_singular (a b c d : K) (hdet : a * d - b * c = 0) : decomp 2 2 2 #[a, b, c, d] = .error .singular := by
  by_cases hp : |c| > |a|
  · have hc : c ≠ 0 := by
      intro h; subst h; simp at hp; exact absurd hp (not_lt.mpr (abs_nonneg a))
    by_cases hdz : d = 0
    · subst hdz
      have hb : b = 0 := by
        have : b * c = 0 := by linear_combination -hdet
        rcases mul_eq_zero.mp this with h | h
        · exact h
        · exact absurd h hc
      subst hb
      simp [decomp, rd, ix, wr, Num.zero, Num.one, num_eqb_false, hp, hc]
    · have hd : b + -(a * c⁻¹ * d) = 0 := by field_simp; linear_combination -hdet
      simp [decomp, rd, ix, wr, Num.zero, Num.one, num_eqb_false, hp, hc, hdz, hd]
  · by_cases ha : a = 0
    · subst ha
      have hc : c = 0 := by
        have : |c| ≤ 0 := by simpa using hp
        exact abs_eq_zero.mp (le_antisymm this (abs_nonneg c))
      subst hc
      simp [decomp, rd, ix, wr, Num.zero, Num.one, num_eqb_false]
    · by_cases hb : b = 0
      · subst hb
        have hd : d = 0 := by
          have : a * d = 0 := by linear_combination hdet
          rcases mul_eq_zero.mp this with h | h
          · exact absurd h ha
          · exact h
        subst hd
        simp [decomp, rd, ix, wr, Num.zero, Num.one, num_eqb_false, hp, ha]
      · have hd : d + -(c * a⁻¹ * b) = 0 := by field_simp; linear_combination hdet
        simp [decomp, rd, ix, wr, Num.zero, Num.one, num_eqb_false, hp, ha, hb, hd]

theorem abs_add_abs_eq_zero (a b : K) : |a| + |b| = 0 ↔ a = 0 ∧ b = 0 := by
  constructor
  · intro h
    have h1 := abs_nonneg a
    have h2 := abs_nonneg b
    exact ⟨abs_eq_zero.mp (by linarith), abs_eq_zero.mp (by linarith)⟩
  · rintro ⟨rfl, rfl⟩; simp

theorem decompC_one (a b : K) :
    decompC 1 1 #[a] #[b] = if a = 0 ∧ b = 0 then .error .singular else .ok (#[a], #[b], #[0]) := by
  by_cases h : a = 0 ∧ b = 0
  · obtain ⟨rfl, rfl⟩ := h
    simp [decompC, rd, ix, Num.zero]
  · have : ¬ (|a| + |b| = 0) := by rwa [abs_add_abs_eq_zero]
    simp [decompC, rd, ix, Num.zero, h, this]

/-- (a + ib)(x + iy) = p + iq -/
theorem solveC_one (a b p q : K) (h : ¬ (a = 0 ∧ b = 0)) :
    let r := solveC 1 #[a] #[b] #[0] #[p] #[q]
    a * r.1.getD 0 0 - b * r.2.getD 0 0 = p ∧ a * r.2.getD 0 0 + b * r.1.getD 0 0 = q := by
  have hden : a * a + b * b ≠ 0 := by
    intro h0
    apply h
    have h1 := mul_self_nonneg a
    have h2 := mul_self_nonneg b
    exact ⟨mul_self_eq_zero.mp (by linarith), mul_self_eq_zero.mp (by linarith)⟩
  have hden3 : a ^ 2 + b ^ 2 ≠ 0 := by simpa [sq] using hden
  simp [solveC, rd, ix, Num.zero]
  constructor <;> field_simp <;> ring

end
end LU
