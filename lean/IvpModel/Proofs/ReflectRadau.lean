import IvpModel.Proofs.RadauStep
import IvpModel.Proofs.SymLemmas
set_option linter.unusedSectionVars false
set_option linter.unusedVariables false
set_option linter.unusedSimpArgs false
set_option linter.unusedTactic false
set_option linter.unnecessarySeqFocus false

/-!
  C13 for Radau's control logic: for every answer of the numeric kernel (factorisations, Newton increments, error estimates) and
  of the callback, the control decisions of the time-reflected run (mirrored x, h, xend, opposite direction, the same answers)
  are those of the run: same statuses, same counters, mirrored step points and step sizes.  The scratch variable `hhfac` (a ratio
  on some paths and a step size on others, read by the numeric kernel only) is left out of the comparison.
-/
namespace RadauCtl
noncomputable section
variable {K : Type} [Field K] [LinearOrder K] [IsStrictOrderedRing K] [SqrtPow K]

def rP (P : Params K) : Params K := { P with xend := -P.xend, posneg := -P.posneg }
/-- mirror image of a state, with `hhfac` set to a given value -/
def rSt (s : State K) (hh : K) : State K := { s with x := -s.x, h := -s.h, hAcc := -s.hAcc, hhfac := hh }
def rRes (r : Result K) : Result K := { r with x := -r.x, h := -r.h }
/-- `t` is a mirror image of `s` up to `hhfac` -/
def Mir (s t : State K) : Prop := t = rSt s t.hhfac
/-- the outcomes of a pass are mirror images up to `hhfac` -/
def MirOut : Sum (State K) (Result K) → Sum (State K) (Result K) → Prop
  | .inl s, .inl t => Mir s t
  | .inr r, .inr q => q = rRes r
  | _, _ => False

theorem mir_mk (s : State K) (hh : K) : Mir s (rSt s hh) := by
  unfold Mir rSt; rfl

theorem failure_mir (L : Lits K) (s : State K) (hh : K) (cnt : Counters) (b : Bool) :
    MirOut (failure L s cnt b) (failure L (rSt s hh) cnt b) := by
  unfold failure
  have e : (rSt s hh).singular = s.singular := rfl
  rw [e]
  by_cases hs : s.singular + 1 > 5
  · rw [if_pos hs, if_pos hs]; simp [MirOut, rRes, rSt]
  · rw [if_neg hs, if_neg hs]
    simp only [MirOut, Mir, rSt]
    congr 1
    ring

theorem newton_mir (L : Lits K) (P : Params K) : ∀ (fuel : Nat) (dynos : List K) (newt : Nat) (theta thqold dynold faccon h hhfac hh' : K)
    (rejected : Nat) (last : Bool) (ode : Nat),
    (match newtonLoop L P fuel dynos newt theta thqold dynold faccon h hhfac rejected last ode with
     | .done a b c d e hx hf r l o => ∃ hf', newtonLoop L (rP P) fuel dynos newt theta thqold dynold faccon (-h) hh' rejected last ode = .done a b c d e (-hx) hf' r l o
     | .slow a b c d e hx hf r o => newtonLoop L (rP P) fuel dynos newt theta thqold dynold faccon (-h) hh' rejected last ode = .slow a b c d e (-hx) hf r o
     | .failed a b c d e o => newtonLoop L (rP P) fuel dynos newt theta thqold dynold faccon (-h) hh' rejected last ode = .failed a b c d e o
     | .starved => newtonLoop L (rP P) fuel dynos newt theta thqold dynold faccon (-h) hh' rejected last ode = .starved) := by
  intro fuel
  induction fuel with
  | zero => intro dynos newt theta thqold dynold faccon h hhfac hh' rejected last ode; simp [newtonLoop]
  | succ fuel ih =>
    intro dynos newt theta thqold dynold faccon h hhfac hh' rejected last ode
    unfold newtonLoop
    have eM : (rP P).maxNewton = P.maxNewton := rfl
    have eU : (rP P).uround = P.uround := rfl
    have eT : (rP P).newtonTol = P.newtonTol := rfl
    simp only [eM, eU, eT]
    by_cases h1 : newt ≥ P.maxNewton
    · simp only [h1, if_true]
    · simp only [h1, if_false]
      cases dynos with
      | nil => simp
      | cons dyno rest =>
        dsimp only
        by_cases h2 : newt + 1 > 1 ∧ newt + 1 < P.maxNewton
        · simp only [h2, and_self, if_true]
          by_cases h3 : (if newt + 1 = 2 then dyno / dynold else Num.sqrt (dyno / dynold * thqold)) < L.p99
          · simp only [h3, if_true]
            by_cases h4 : (if newt + 1 = 2 then dyno / dynold else Num.sqrt (dyno / dynold * thqold)) / (L.one - (if newt + 1 = 2 then dyno / dynold else Num.sqrt (dyno / dynold * thqold))) * dyno *
                Num.pow (if newt + 1 = 2 then dyno / dynold else Num.sqrt (dyno / dynold * thqold)) (Num.ofNat (P.maxNewton - 1 - (newt + 1))) / P.newtonTol ≥ L.one
            · simp only [h4, if_true]
              congr 1
              ring
            · simp only [h4, if_false]
              by_cases h5 : (if newt + 1 = 2 then dyno / dynold else Num.sqrt (dyno / dynold * thqold)) / (L.one - (if newt + 1 = 2 then dyno / dynold else Num.sqrt (dyno / dynold * thqold))) * dyno > P.newtonTol
              · simp only [h5, if_true]
                exact ih rest (newt + 1) _ _ _ _ h hhfac hh' rejected last (ode + 3)
              · simp only [h5, if_false]
                exact ⟨hh', rfl⟩
          · simp only [h3, if_false]
        · simp only [h2, if_false]
          by_cases h5 : faccon * dyno > P.newtonTol
          · simp only [h5, if_true]
            exact ih rest (newt + 1) _ _ _ _ h hhfac hh' rejected last (ode + 3)
          · simp only [h5, if_false]
            exact ⟨hh', rfl⟩


/-- the Gustafsson pair `(quot, hnew)` and the memory `(hAcc, errAcc)` -/
def gus (L : Lits K) (P : Params K) (s : State K) (h err quot hnew : K) (acc : Nat) : K × K × K × K :=
  if P.predictive then
    let qh : K × K :=
      if acc > 1 then
        let facgus := (s.hAcc / h) * Num.pow (err * err / s.errAcc) L.quarter / P.safety
        let facgus := Num.fmax P.facr (Num.fmin P.facl facgus)
        let quot := Num.fmax quot facgus
        (quot, h / quot)
      else (quot, hnew)
    (qh.1, qh.2, h, Num.fmax err L.em2)
  else (quot, hnew, s.hAcc, s.errAcc)

theorem gus_mir (L : Lits K) (P : Params K) (s : State K) (hh h err quot hnew : K) (acc : Nat) :
    gus L (rP P) (rSt s hh) (-h) err quot (-hnew) acc
      = ((gus L P s h err quot hnew acc).1, -(gus L P s h err quot hnew acc).2.1, -(gus L P s h err quot hnew acc).2.2.1,
         (gus L P s h err quot hnew acc).2.2.2) := by
  unfold gus
  simp only [rP, rSt, neg_div_neg_eq]
  cases P.predictive <;> by_cases ha : acc > 1 <;> simp [ha, neg_div]

/-- exit test, limits on the next step and the reuse decision after an accepted step -/
def accNext (L : Lits K) (P : Params K) (s : State K) (h theta thqold dynold faccon : K) (hnew hAcc errAcc : K)
    (cnt : Counters) (last : Bool) (x : K) : Sum (State K) (Result K) :=
  if last then .inr { status := .success, h := hnew, x := x, cnt := cnt }
  else
    let hnew := Num.fmin (Num.fmax (Num.abs hnew) P.hmin) P.hmax * P.posneg
    let hnew := if s.reject then P.posneg * Num.fmin (Num.abs hnew) (Num.abs h) else hnew
    let base : State K :=
      { s with x := x, first := false, reject := false, singular := 0, theta := theta, thqold := thqold, dynold := dynold,
               faccon := faccon, hAcc := hAcc, errAcc := errAcc, cnt := cnt, last := last }
    if (x + L.stretch * hnew / L.quot1 - P.xend) * P.posneg ≥ L.zero then
      { base with h := P.xend - x, last := true, hhfac := P.xend - x, callDecomp := true, callJac := decide (theta ≥ L.thet) } |> .inl
    else
      let qt := hnew / h
      if theta < L.thet ∧ qt > L.quot1 ∧ qt < L.quot2 then
        { base with h := h, hhfac := h, callDecomp := false, callJac := false } |> .inl
      else
        { base with h := hnew, hhfac := hnew, callDecomp := true, callJac := decide (theta ≥ L.thet) } |> .inl

/-- the part of `accepted` after the controller -/
def accTail (L : Lits K) (P : Params K) (s : State K) (o : PassOracle K) (h theta thqold dynold faccon : K) (hnew hAcc errAcc : K)
    (cnt : Counters) (last : Bool) (x : K) : Sum (State K) (Result K) :=
  match o.cb with
  | .interrupt => .inr { status := .userInterrupt, h := h, x := x, cnt := cnt }
  | fl => accNext L P s h theta thqold dynold faccon hnew hAcc errAcc (if fl = .modified then { cnt with ode := cnt.ode + 1 } else cnt) last x

theorem accepted_eq (L : Lits K) (P : Params K) (s : State K) (o : PassOracle K) (h hhfac theta thqold dynold faccon err : K)
    (newt : Nat) (quot hnew : K) (cnt : Counters) (last : Bool) (xph : K) :
    accepted L P s o h hhfac theta thqold dynold faccon err newt quot hnew cnt last xph
      = accTail L P s o h theta thqold dynold faccon (gus L P s h err quot hnew (cnt.accepted + 1)).2.1
          (gus L P s h err quot hnew (cnt.accepted + 1)).2.2.1 (gus L P s h err quot hnew (cnt.accepted + 1)).2.2.2
          { cnt with accepted := cnt.accepted + 1, ode := cnt.ode + 1 } last xph := by
  unfold accepted accTail accNext gus
  cases o.cb <;> rfl

theorem accNext_mir (L : Lits K) (P : Params K) (s : State K) (hh : K) (h theta thqold dynold faccon hnew hAcc errAcc : K)
    (cnt : Counters) (last : Bool) (x : K) :
    MirOut (accNext L P s h theta thqold dynold faccon hnew hAcc errAcc cnt last x)
      (accNext L (rP P) (rSt s hh) (-h) theta thqold dynold faccon (-hnew) (-hAcc) errAcc cnt last (-x)) := by
  unfold accNext
  cases last with
  | true => simp [MirOut, rRes]
  | false =>
    simp only [Bool.false_eq_true, if_false, rP, rSt, num_abs, abs_neg, num_fmin, num_fmax]
    -- the limited next step, mirrored
    have e1 : min (max |hnew| P.hmin) P.hmax * -P.posneg = -(min (max |hnew| P.hmin) P.hmax * P.posneg) := by ring
    rw [e1]
    have e2 : (if s.reject = true then -P.posneg * min |-(min (max |hnew| P.hmin) P.hmax * P.posneg)| |h| else -(min (max |hnew| P.hmin) P.hmax * P.posneg))
        = -(if s.reject = true then P.posneg * min |min (max |hnew| P.hmin) P.hmax * P.posneg| |h| else min (max |hnew| P.hmin) P.hmax * P.posneg) := by
      cases s.reject <;> simp [abs_neg]
    rw [e2]
    generalize (if s.reject = true then P.posneg * min |min (max |hnew| P.hmin) P.hmax * P.posneg| |h| else min (max |hnew| P.hmin) P.hmax * P.posneg) = HN
    have e3 : (-x + L.stretch * -HN / L.quot1 - -P.xend) * -P.posneg = (x + L.stretch * HN / L.quot1 - P.xend) * P.posneg := by ring
    rw [e3, neg_div_neg_eq]
    by_cases hl : (x + L.stretch * HN / L.quot1 - P.xend) * P.posneg ≥ L.zero
    · rw [if_pos hl, if_pos hl]
      simp only [MirOut, Mir, rSt]
      congr 1
      ring
    · rw [if_neg hl, if_neg hl]
      by_cases hq : theta < L.thet ∧ HN / h > L.quot1 ∧ HN / h < L.quot2
      · rw [if_pos hq, if_pos hq]
        simp only [MirOut, Mir, rSt]
      · rw [if_neg hq, if_neg hq]
        simp only [MirOut, Mir, rSt]

theorem accTail_mir (L : Lits K) (P : Params K) (s : State K) (hh : K) (o : PassOracle K) (h theta thqold dynold faccon hnew hAcc errAcc : K)
    (cnt : Counters) (last : Bool) (x : K) :
    MirOut (accTail L P s o h theta thqold dynold faccon hnew hAcc errAcc cnt last x)
      (accTail L (rP P) (rSt s hh) o (-h) theta thqold dynold faccon (-hnew) (-hAcc) errAcc cnt last (-x)) := by
  unfold accTail
  cases o.cb with
  | interrupt => simp [MirOut, rRes]
  | cont => exact accNext_mir L P s hh h theta thqold dynold faccon hnew hAcc errAcc _ last x
  | modified => exact accNext_mir L P s hh h theta thqold dynold faccon hnew hAcc errAcc _ last x

theorem accepted_mir (L : Lits K) (P : Params K) (s : State K) (hh : K) (o : PassOracle K) (h hhfac hf' theta thqold dynold faccon err : K)
    (newt : Nat) (quot hnew : K) (cnt : Counters) (last : Bool) (xph : K) :
    MirOut (accepted L P s o h hhfac theta thqold dynold faccon err newt quot hnew cnt last xph)
      (accepted L (rP P) (rSt s hh) o (-h) hf' theta thqold dynold faccon err newt quot (-hnew) cnt last (-xph)) := by
  rw [accepted_eq, accepted_eq, gus_mir]
  exact accTail_mir L P s hh o h theta thqold dynold faccon _ _ _ _ last xph


theorem finishStep_mir (L : Lits K) (P : Params K) (s : State K) (hh : K) (o : PassOracle K) (newt : Nat) (theta thqold dynold faccon h hhfac hf' : K)
    (last : Bool) (cnt : Counters) (xph : K) :
    MirOut (finishStep L P s o newt theta thqold dynold faccon h hhfac last cnt xph)
      (finishStep L (rP P) (rSt s hh) o newt theta thqold dynold faccon (-h) hf' last cnt (-xph)) := by
  unfold finishStep
  have e1 : (rSt s hh).first = s.first := rfl
  have e2 : (rSt s hh).reject = s.reject := rfl
  have e3 : (rP P).safety = P.safety := rfl
  have e4 : (rP P).cfac = P.cfac := rfl
  have e5 : (rP P).maxNewton = P.maxNewton := rfl
  have e6 : (rP P).facr = P.facr := rfl
  have e7 : (rP P).facl = P.facl := rfl
  simp only [e1, e2, e3, e4, e5, e6, e7, neg_div]
  by_cases hacc : (if (decide (o.err ≥ L.one) && (s.first || s.reject)) = true then o.err2 else o.err) ≤ L.one
  · rw [if_pos hacc, if_pos hacc]
    exact accepted_mir L P s hh o h hhfac hf' theta thqold dynold faccon _ newt _ _ _ last xph
  · rw [if_neg hacc, if_neg hacc]
    cases hf : s.first with
    | true =>
      simp only [if_true, MirOut, Mir, rSt]
      congr 1
      ring
    | false =>
      simp only [Bool.false_eq_true, if_false, MirOut, Mir, rSt]

theorem decompose_mir (L : Lits K) (s : State K) (hh : K) (o : PassOracle K) :
    (match decompose L s o with
     | .inl r => ∃ r', decompose L (rSt s hh) o = .inl r' ∧ MirOut r r'
     | .inr c => decompose L (rSt s hh) o = .inr c) := by
  unfold decompose
  have e1 : (rSt s hh).callJac = s.callJac := rfl
  have e2 : (rSt s hh).callDecomp = s.callDecomp := rfl
  have e3 : (rSt s hh).cnt = s.cnt := rfl
  simp only [e1, e2, e3]
  cases s.callDecomp with
  | false => simp
  | true =>
    simp only [if_true]
    by_cases h1 : o.dec = 1
    · simp only [h1, if_true]
      exact ⟨_, rfl, failure_mir L s hh _ false⟩
    · simp only [h1, if_false]
      by_cases h2 : o.dec = 2
      · simp only [h2, if_true]
        exact ⟨_, rfl, failure_mir L s hh _ false⟩
      · simp only [h2, if_false]

/-- **C13, one pass of Radau's control loop under time reflection**, for every answer of the numeric kernel. -/
theorem pass_mir (L : Lits K) (P : Params K) (s : State K) (hh : K) (o : PassOracle K) :
    MirOut (pass L P s o) (pass L (rP P) (rSt s hh) o) := by
  unfold pass
  have hd := decompose_mir L s hh o
  cases hdq : decompose L s o with
  | inl r =>
    rw [hdq] at hd
    obtain ⟨r', hr', hm⟩ := hd
    rw [hr']
    exact hm
  | inr cnt =>
    rw [hdq] at hd
    rw [hd]
    dsimp only
    have e1 : (rP P).nmax = P.nmax := rfl
    have e2 : (rP P).uround = P.uround := rfl
    have e3 : (rSt s hh).h = -s.h := rfl
    have e4 : (rSt s hh).x = -s.x := rfl
    simp only [e1, e2, e3, e4, num_abs, abs_neg]
    by_cases hb : cnt.total + 1 > P.nmax
    · simp only [hb, if_true, MirOut, rRes]
    · simp only [hb, if_false]
      by_cases hu : L.tenth * |s.h| ≤ |s.x| * P.uround
      · simp only [hu, if_true, MirOut, rRes]
      · simp only [hu, if_false]
        have e5 : (rSt s hh).last = s.last := rfl
        have e6 : (rSt s hh).faccon = s.faccon := rfl
        have e7 : (rSt s hh).thqold = s.thqold := rfl
        have e8 : (rSt s hh).dynold = s.dynold := rfl
        have e9 : (rP P).maxNewton = P.maxNewton := rfl
        have e10 : (rSt s hh).hhfac = hh := rfl
        have e11 : (rP P).xend = -P.xend := rfl
        simp only [e5, e6, e7, e8, e9, e10, e11]
        have hx : (if s.last = true then -P.xend else -s.x + -s.h) = -(if s.last = true then P.xend else s.x + s.h) := by
          cases s.last <;> simp; ring
        rw [hx]
        have hN := newton_mir L P (P.maxNewton + 1) o.dynos 0 |L.thet| s.thqold s.dynold (Num.pow (max s.faccon P.uround) L.p8) s.h s.hhfac hh
          cnt.rejected s.last cnt.ode
        simp only [num_fmax] at hN ⊢
        cases hq : newtonLoop L P (P.maxNewton + 1) o.dynos 0 |L.thet| s.thqold s.dynold (Num.pow (max s.faccon P.uround) L.p8) s.h s.hhfac
            cnt.rejected s.last cnt.ode with
        | starved =>
          rw [hq] at hN; rw [hN]; simp [MirOut, rRes]
        | failed a b c d e f =>
          rw [hq] at hN; rw [hN]
          exact failure_mir L { s with theta := b, thqold := c, dynold := d, faccon := e } hh _ true
        | slow a b c d e hx' hf r ode =>
          rw [hq] at hN; rw [hN]
          simp only [MirOut, Mir, rSt]
        | done a b c d e hx' hf r l ode =>
          rw [hq] at hN
          obtain ⟨hf', hN'⟩ := hN
          rw [hN']
          exact finishStep_mir L P s hh o a b c d e hx' hf hf' l _ _

/-- two states that differ in `hhfac` only take the same pass, up to `hhfac` -/
theorem mir_of (L : Lits K) (P : Params K) (s t : State K) (o : PassOracle K) (h : Mir s t) : MirOut (pass L P s o) (pass L (rP P) t o) := by
  unfold Mir at h
  rw [h]
  exact pass_mir L P s t.hhfac o

/-- **C13, whole runs of Radau's control model under time reflection**: for every list of per-pass answers of the numeric kernel
    and the callback, the mirrored run ends with the same status and counters at the mirrored point. -/
theorem run_mir (L : Lits K) (P : Params K) : ∀ (os : List (PassOracle K)) (s t : State K), Mir s t →
    run L (rP P) os t = (run L P os s).map rRes := by
  intro os
  induction os with
  | nil => intro s t _; rfl
  | cons o os ih =>
    intro s t h
    unfold run
    have hp := mir_of L P s t o h
    cases hq : pass L P s o with
    | inr r =>
      rw [hq] at hp
      cases hq' : pass L (rP P) t o with
      | inr q => rw [hq'] at hp; simp only [MirOut] at hp; simp [hp]
      | inl t' => rw [hq'] at hp; exact absurd hp (by simp [MirOut])
    | inl s' =>
      rw [hq] at hp
      cases hq' : pass L (rP P) t o with
      | inr q => rw [hq'] at hp; exact absurd hp (by simp [MirOut])
      | inl t' => rw [hq'] at hp; exact ih s' t' hp


def rSetup (S : Setup K) : Setup K := { S with x0 := -S.x0, xend := -S.xend }

theorem params_mir (L : Lits K) (S : Setup K) (hne : S.xend ≠ S.x0) : params L (rSetup S) = rP (params L S) := by
  unfold params rSetup rP
  have hs : Num.signum (-S.xend - -S.x0) = -Num.signum (S.xend - S.x0) := by
    rw [show -S.xend - -S.x0 = -(S.xend - S.x0) by ring]
    exact signum_neg _ (sub_ne_zero.mpr hne)
  have ha : Num.abs (-S.xend - -S.x0) = Num.abs (S.xend - S.x0) := by
    rw [show -S.xend - -S.x0 = -(S.xend - S.x0) by ring, num_abs, num_abs, abs_neg]
  simp only [hs, ha]

theorem clamp_neg (x M : K) (hM : 0 ≤ M) : clamp (-x) (-M) M = -clamp x (-M) M := by
  unfold clamp
  by_cases h1 : x < -M
  · have h2 : ¬ (-x < -M) := by intro h; linarith
    have h3 : -x > M := by linarith
    simp [h1, h2, h3]
  · by_cases h4 : x > M
    · have h5 : -x < -M := by linarith
      simp [h1, h4, h5]
    · have h6 : ¬ (-x < -M) := by intro h; linarith
      have h7 : ¬ (-x > M) := by intro h; linarith
      simp [h1, h4, h6, h7]

/-- `start` after the raw first step `h0` has been chosen -/
def startWith (L : Lits K) (P : Params K) (x0 xend : K) (cb0 : Flag) (h0 : K) : Sum (State K) (Result K) :=
  let h1 := clamp h0 (-P.hmax) P.hmax
  let lands := decide ((x0 + L.stretch * h1 - xend) * P.posneg ≥ L.zero)
  let h := if lands then xend - x0 else h1
  let cnt : Counters := { ode := 1 }
  match cb0 with
  | .interrupt => .inr { status := .userInterrupt, h := h, x := x0, cnt := cnt }
  | fl =>
    let cnt := if fl = .modified then { cnt with ode := cnt.ode + 1 } else cnt
    .inl { x := x0, h := h, hhfac := h, last := lands, faccon := L.one, theta := L.zero, dynold := L.zero, thqold := L.zero,
           hAcc := L.zero, errAcc := L.zero, cnt := cnt }

def rawFirst (L : Lits K) (S : Setup K) (posneg : K) : K :=
  match S.firstStep with | some h0 => Num.abs h0 * posneg | none => L.em6 * posneg

theorem start_eq (L : Lits K) (S : Setup K) :
    start L S = startWith L (params L S) S.x0 S.xend S.cb0 (rawFirst L S (params L S).posneg) := by
  unfold start startWith rawFirst
  cases S.cb0 <;> rfl

theorem startWith_mir (L : Lits K) (hz : L.zero = 0) (P : Params K) (hmax0 : 0 ≤ P.hmax) (x0 xend : K) (cb0 : Flag) (H0 : K) :
    MirOut (startWith L P x0 xend cb0 H0) (startWith L (rP P) (-x0) (-xend) cb0 (-H0)) := by
  unfold startWith
  have e1 : (rP P).posneg = -P.posneg := rfl
  have e2 : (rP P).hmax = P.hmax := rfl
  simp only [e1, e2]
  rw [clamp_neg _ _ hmax0]
  generalize clamp H0 (-P.hmax) P.hmax = H1
  have hl : ((-x0 + L.stretch * -H1 - -xend) * -P.posneg ≥ L.zero) ↔ ((x0 + L.stretch * H1 - xend) * P.posneg ≥ L.zero) := by
    rw [show (-x0 + L.stretch * -H1 - -xend) * -P.posneg = (x0 + L.stretch * H1 - xend) * P.posneg by ring]
  simp only [hl, decide_eq_true_eq]
  have hh : (if (x0 + L.stretch * H1 - xend) * P.posneg ≥ L.zero then -xend - -x0 else -H1)
      = -(if (x0 + L.stretch * H1 - xend) * P.posneg ≥ L.zero then xend - x0 else H1) := by
    by_cases hc : (x0 + L.stretch * H1 - xend) * P.posneg ≥ L.zero
    · simp only [hc, if_true]; ring
    · simp only [hc, if_false]
  rw [hh]
  cases cb0 <;> simp [MirOut, Mir, rSt, rRes, hz]

/-- **C13, the first pass of Radau's control model under time reflection.** -/
theorem start_mir (L : Lits K) (hz : L.zero = 0) (S : Setup K) (hne : S.xend ≠ S.x0) (hM : ∀ mx, S.maxStep = some mx → 0 ≤ mx) :
    MirOut (start L S) (start L (rSetup S)) := by
  rw [start_eq, start_eq, params_mir L S hne]
  have hmax0 : 0 ≤ (params L S).hmax := by
    unfold params
    cases hq : S.maxStep with
    | none => simp only [num_abs]; exact abs_nonneg _
    | some mx => exact hM mx hq
  have hr : rawFirst L (rSetup S) (rP (params L S)).posneg = -rawFirst L S (params L S).posneg := by
    unfold rawFirst rSetup rP
    cases S.firstStep <;> simp
  rw [hr]
  exact startWith_mir L hz (params L S) hmax0 S.x0 S.xend S.cb0 _

/-- **C13, Radau's control model from the start**: for every list of answers of the numeric kernel and the callback, the run on
    the mirrored span ends with the same status and counters at the mirrored point. -/
theorem solve_mir (L : Lits K) (hz : L.zero = 0) (S : Setup K) (hne : S.xend ≠ S.x0) (hM : ∀ mx, S.maxStep = some mx → 0 ≤ mx) (os : List (PassOracle K)) :
    (match start L (rSetup S) with
     | .inr q => some q
     | .inl t => run L (params L (rSetup S)) os t)
    = (match start L S with
       | .inr r => some r
       | .inl s => run L (params L S) os s).map rRes := by
  have hs := start_mir L hz S hne hM
  rw [params_mir L S hne]
  cases hq : start L S with
  | inr r =>
    rw [hq] at hs
    cases hq' : start L (rSetup S) with
    | inr q => rw [hq'] at hs; simp only [MirOut] at hs; simp [hs]
    | inl t => rw [hq'] at hs; exact absurd hs (by simp [MirOut])
  | inl s =>
    rw [hq] at hs
    cases hq' : start L (rSetup S) with
    | inr q => rw [hq'] at hs; exact absurd hs (by simp [MirOut])
    | inl t => rw [hq'] at hs; exact run_mir L (params L S) os s t hs

end
end RadauCtl
