import IvpModel.Proofs.DupRk23
import IvpModel.Proofs.ScaleRk4
set_option linter.unusedSectionVars false
set_option linter.unusedSimpArgs false
set_option linter.unusedTactic false
set_option linter.unnecessarySeqFocus false
set_option linter.unusedVariables false

/-!
  C13, whole runs of RK4 (fixed step) on `m` stacked copies of a system: the step points, statuses and counters of the single
  system; every state is the stacked state.
-/
namespace Ctl
noncomputable section
variable {K : Type} [Field K] [LinearOrder K] [IsStrictOrderedRing K] [SqrtPow K] {n : Nat}
variable (m : Nat) (hn : 0 < n)

def dS4 {σ : Type} (s : R4State σ K n) : R4State σ K (m * n) :=
  { x := s.x, h := s.h, y := dupV m hn s.y, k1 := dupV m hn s.k1, m := dMeter m hn s.m, obs := s.obs }
def dOut4 {σ : Type} : Sum (R4State σ K n) (Result σ K n) → Sum (R4State σ K (m * n)) (Result σ K (m * n))
  | .inl s => .inl (dS4 m hn s)
  | .inr r => .inr (dResult m hn r)

section stages
open Gen.Rk4
theorem r4l1_dup (y k1 : Vector K n) (h : K) : stages_loop1 (y := dupV m hn y) (h := h) (k1 := dupV m hn k1) = dupV m hn (stages_loop1 (y := y) (h := h) (k1 := k1)) := by
  ext i hi; simp [stages_loop1, dupV]
theorem r4l2_dup (y k2 : Vector K n) (h : K) : stages_loop2 (y := dupV m hn y) (h := h) (k2 := dupV m hn k2) = dupV m hn (stages_loop2 (y := y) (h := h) (k2 := k2)) := by
  ext i hi; simp [stages_loop2, dupV]
theorem r4l3_dup (y k3 : Vector K n) (h : K) : stages_loop3 (y := dupV m hn y) (h := h) (k3 := dupV m hn k3) = dupV m hn (stages_loop3 (y := y) (h := h) (k3 := k3)) := by
  ext i hi; simp [stages_loop3, dupV]

def dStages4 (o : StagesOut K n) : StagesOut K (m * n) :=
  { yt := dupV m hn o.yt, k2 := dupV m hn o.k2, calls := o.calls.map (dcl m hn), k3 := dupV m hn o.k3, xph := o.xph, k4 := dupV m hn o.k4 }

theorem stages4_dup (F : Rhs K (m * n)) (f : Rhs K n) (hF : DupRhs m hn F f) (y k1 : Vector K n) (x h : K) (last : Bool) (xend : K) :
    stages (f := F) (y := dupV m hn y) (h := h) (k1 := dupV m hn k1) (x := x) (last := last) (xend := xend)
      = dStages4 m hn (stages (f := f) (y := y) (h := h) (k1 := k1) (x := x) (last := last) (xend := xend)) := by
  simp only [stages, dStages4, r4l1_dup, r4l2_dup, r4l3_dup, hF _ _ _]
  simp [dcl]

theorem update_loop_dup (y k1 k2 k3 k4 : Vector K n) (h : K) :
    update_loop1 (h := h) (k1 := dupV m hn k1) (k2 := dupV m hn k2) (k3 := dupV m hn k3) (k4 := dupV m hn k4) (y := dupV m hn y)
      = dupV m hn (update_loop1 (h := h) (k1 := k1) (k2 := k2) (k3 := k3) (k4 := k4) (y := y)) := by
  ext i hi; simp [update_loop1, dupV]

def dUpdate (u : UpdateOut K n) : UpdateOut K (m * n) :=
  { x := u.x, y := dupV m hn u.y, k2 := dupV m hn u.k2, k1 := dupV m hn u.k1, calls := u.calls.map (dcl m hn) }

theorem update_dup (F : Rhs K (m * n)) (f : Rhs K n) (hF : DupRhs m hn F f) (y k1 k2 k3 k4 : Vector K n) (xph h : K) :
    update (f := F) (xph := xph) (h := h) (k1 := dupV m hn k1) (k2 := dupV m hn k2) (k3 := dupV m hn k3) (k4 := dupV m hn k4) (y := dupV m hn y)
      = dUpdate m hn (update (f := f) (xph := xph) (h := h) (k1 := k1) (k2 := k2) (k3 := k3) (k4 := k4) (y := y)) := by
  simp only [update, dUpdate, update_loop_dup, hF _ _ _]
  simp [dcl]

theorem interp4_dup (c0 c1 c2 c3 : Vector K n) (xold h xi : K) :
    interpolate (xi := xi) (xold := xold) (h := h) (cont0 := dupV m hn c0) (cont1 := dupV m hn c1) (cont2 := dupV m hn c2) (cont3 := dupV m hn c3)
      = dupV m hn (interpolate (xi := xi) (xold := xold) (h := h) (cont0 := c0) (cont1 := c1) (cont2 := c2) (cont3 := c3)) := by
  ext i hi; simp [interpolate, interpolate_loop1, dupV]

theorem dense4r_dup (yt k2 k1 y : Vector K n) :
    let d := dense (yt := yt) (k2 := k2) (k1 := k1) (y := y)
    let d' := dense (yt := dupV m hn yt) (k2 := dupV m hn k2) (k1 := dupV m hn k1) (y := dupV m hn y)
    d'.cont0 = dupV m hn d.cont0 ∧ d'.cont1 = dupV m hn d.cont1 ∧ d'.cont2 = dupV m hn d.cont2 ∧ d'.cont3 = dupV m hn d.cont3 := by
  intro d d'
  refine ⟨rfl, ?_, ?_, rfl⟩ <;> (ext i hi; simp [d, d', dense, dense_loop1, dupV])
end stages

theorem ip4_dup (dn : Bool) (y uk2 uk1 uy : Vec K n) (x h : K) :
    (if dn = true then
        some fun xi => Gen.Rk4.interpolate (xi := xi) (xold := x) (h := h) (cont0 := (Gen.Rk4.dense (yt := dupV m hn y) (k2 := dupV m hn uk2) (k1 := dupV m hn uk1) (y := dupV m hn uy)).cont0)
          (cont1 := (Gen.Rk4.dense (yt := dupV m hn y) (k2 := dupV m hn uk2) (k1 := dupV m hn uk1) (y := dupV m hn uy)).cont1)
          (cont2 := (Gen.Rk4.dense (yt := dupV m hn y) (k2 := dupV m hn uk2) (k1 := dupV m hn uk1) (y := dupV m hn uy)).cont2)
          (cont3 := (Gen.Rk4.dense (yt := dupV m hn y) (k2 := dupV m hn uk2) (k1 := dupV m hn uk1) (y := dupV m hn uy)).cont3)
      else none)
    = dIp m hn (if dn = true then
        some fun xi => Gen.Rk4.interpolate (xi := xi) (xold := x) (h := h) (cont0 := (Gen.Rk4.dense (yt := y) (k2 := uk2) (k1 := uk1) (y := uy)).cont0)
          (cont1 := (Gen.Rk4.dense (yt := y) (k2 := uk2) (k1 := uk1) (y := uy)).cont1)
          (cont2 := (Gen.Rk4.dense (yt := y) (k2 := uk2) (k1 := uk1) (y := uy)).cont2)
          (cont3 := (Gen.Rk4.dense (yt := y) (k2 := uk2) (k1 := uk1) (y := uy)).cont3)
      else none) := by
  obtain ⟨d0, d1, d2, d3⟩ := dense4r_dup m hn y uk2 uk1 uy
  cases dn with
  | false => rfl
  | true =>
    simp only [if_true, dIp, Option.map]
    congr 1
    funext xi
    rw [d0, d1, d2, d3]
    exact interp4_dup m hn _ _ _ _ x h xi

theorem rk4Body_dup {σ : Type} (P : R4Params K) (F : Rhs K (m * n)) (f : Rhs K n) (hF : DupRhs m hn F f) (Ob : Obs σ K (m * n))
    (ob : Obs σ K n) (hOb : DupObs m hn Ob ob) (x hs : K) (y k1 : Vec K n) (M : Meter K n) (obs : σ) (h : K) (L : Bool) :
    rk4Body P F Ob (dS4 m hn { x := x, h := hs, y := y, k1 := k1, m := M, obs := obs }) h L
      = dOut4 m hn (rk4Body P f ob { x := x, h := hs, y := y, k1 := k1, m := M, obs := obs } h L) := by
  obtain ⟨xend, nmax, dns, q1, q2, q3⟩ := P
  unfold rk4Body
  dsimp (config := { instances := true }) only [dS4]
  simp only [dMeter_ncalls, stages4_dup m hn _ _ (hF.shift m hn M.ncalls)]
  generalize Gen.Rk4.stages (f := fun j => f (M.ncalls + j)) (y := y) (h := h) (k1 := k1) (x := x) (last := L) (xend := xend) = O
  obtain ⟨oyt, ok2, ocalls, ok3, oxph, ok4⟩ := O
  dsimp only [dStages4]
  have hnc : ((dMeter m hn M).bump (Array.map (dcl m hn) ocalls) 3).ncalls = (M.bump ocalls 3).ncalls := by
    simp [Meter.bump, dMeter]
  rw [hnc, update_dup m hn _ _ (hF.shift m hn (M.bump ocalls 3).ncalls)]
  generalize Gen.Rk4.update (f := fun j => f ((M.bump ocalls 3).ncalls + j)) (xph := oxph) (h := h) (k1 := k1) (k2 := ok2) (k3 := ok3) (k4 := ok4) (y := y) = U
  obtain ⟨ux, uy, uk2, uk1, ucalls⟩ := U
  dsimp only [dUpdate]
  rw [ip4_dup]
  generalize (if dns = true then
        some fun xi => Gen.Rk4.interpolate (xi := xi) (xold := x) (h := h) (cont0 := (Gen.Rk4.dense (yt := y) (k2 := uk2) (k1 := uk1) (y := uy)).cont0)
          (cont1 := (Gen.Rk4.dense (yt := y) (k2 := uk2) (k1 := uk1) (y := uy)).cont1)
          (cont2 := (Gen.Rk4.dense (yt := y) (k2 := uk2) (k1 := uk1) (y := uy)).cont2)
          (cont3 := (Gen.Rk4.dense (yt := y) (k2 := uk2) (k1 := uk1) (y := uy)).cont3)
      else none) = IP
  rw [sampleInterp_dup, ← dMeter_bump, ← dMeter_bump, ← dMeter_incTotal, ← dMeter_incAccepted, ← dMeter_cb, afterCb_dup m hn F f hF Ob ob hOb]
  cases afterCb f ob obs (((M.bump ocalls 3).bump ucalls 1).incTotal.incAccepted.cb x ux uy (sampleInterp IP x ux q1 q2 q3)) x ux uy IP uk1 with
  | stop o yy => rfl
  | go o yy kk mm =>
    cases L <;> rfl

theorem rk4Iter_dup {σ : Type} (P : R4Params K) (F : Rhs K (m * n)) (f : Rhs K n) (hF : DupRhs m hn F f) (Ob : Obs σ K (m * n))
    (ob : Obs σ K n) (hOb : DupObs m hn Ob ob) (s : R4State σ K n) :
    rk4Iter P F Ob (dS4 m hn s) = dOut4 m hn (rk4Iter P f ob s) := by
  rw [rk4Iter_eq_body, rk4Iter_eq_body]
  have hA : rk4Adjust P (dS4 m hn s) = rk4Adjust P s := rfl
  by_cases hb : s.m.cnt.total ≥ P.nmax
  · have hb' : (dS4 m hn s).m.cnt.total ≥ P.nmax := hb
    rw [if_pos hb, if_pos hb']
    rfl
  · have hb' : ¬ (dS4 m hn s).m.cnt.total ≥ P.nmax := hb
    rw [if_neg hb, if_neg hb', hA]
    have hx : (dS4 m hn s).x = s.x := rfl
    rw [hx]
    by_cases hz : Num.eqb (s.x + (rk4Adjust P s).1) s.x = true
    · rw [if_pos hz, if_pos hz]; rfl
    · rw [if_neg hz, if_neg hz]
      obtain ⟨x, hs, y, k1, M, obs⟩ := s
      exact rk4Body_dup m hn P F f hF Ob ob hOb x hs y k1 M obs _ _

theorem rk4Loop_dup {σ : Type} (P : R4Params K) (F : Rhs K (m * n)) (f : Rhs K n) (hF : DupRhs m hn F f) (Ob : Obs σ K (m * n))
    (ob : Obs σ K n) (hOb : DupObs m hn Ob ob) :
    ∀ (fuel : Nat) (s : R4State σ K n),
      rk4Loop P F Ob fuel (dS4 m hn s) = (rk4Loop P f ob fuel s).map (dResult m hn) := by
  intro fuel
  induction fuel with
  | zero => intro s; rfl
  | succ fuel ih =>
    intro s
    unfold rk4Loop
    rw [rk4Iter_dup m hn P F f hF Ob ob hOb s]
    cases hq : rk4Iter P f ob s with
    | inr r => rfl
    | inl s' => exact ih s'

theorem rk4Start_dup {σ : Type} (F : Rhs K (m * n)) (f : Rhs K n) (hF : DupRhs m hn F f) (Ob : Obs σ K (m * n))
    (ob : Obs σ K n) (hOb : DupObs m hn Ob ob) (obs0 : σ) (x0 : K) (y0 : Vec K n) (h : K) :
    rk4Start F Ob obs0 x0 (dupV m hn y0) h = dOut4 m hn (rk4Start f ob obs0 x0 y0 h) := by
  unfold rk4Start
  have hm : ((({} : Meter K (m * n)).bump #[(x0, dupV m hn y0)] 1).cb x0 x0 (dupV m hn y0) #[]) = dMeter m hn ((({} : Meter K n).bump #[(x0, y0)] 1).cb x0 x0 y0 #[]) := by
    rw [dMeter_cb, dMeter_bump]
    simp [dMeter, dcl]
  have hk : F 0 x0 (dupV m hn y0) = dupV m hn (f 0 x0 y0) := hF 0 x0 y0
  have ha := afterCb_dup m hn F f hF Ob ob hOb obs0 ((({} : Meter K n).bump #[(x0, y0)] 1).cb x0 x0 y0 #[]) x0 x0 y0 none (f 0 x0 y0)
  rw [show dIp m hn (none : Option (K → Vec K n)) = none from rfl] at ha
  dsimp only
  rw [hm, hk, ha]
  cases afterCb f ob obs0 ((({} : Meter K n).bump #[(x0, y0)] 1).cb x0 x0 y0 #[]) x0 x0 y0 none (f 0 x0 y0) with
  | stop o yy => rfl
  | go o yy kk mm => rfl

/-- **C13 (RK4, whole run on `m` stacked copies).** -/
theorem rk4Solve_dup {σ : Type} (P : R4Params K) (F : Rhs K (m * n)) (f : Rhs K n) (hF : DupRhs m hn F f) (Ob : Obs σ K (m * n))
    (ob : Obs σ K n) (hOb : DupObs m hn Ob ob) (obs0 : σ) (x0 : K) (y0 : Vec K n) (h : K) (fuel : Nat) :
    rk4Solve P F Ob obs0 x0 (dupV m hn y0) h fuel = (rk4Solve P f ob obs0 x0 y0 h fuel).map (dResult m hn) := by
  unfold rk4Solve
  rw [rk4Start_dup m hn F f hF Ob ob hOb]
  cases hq : rk4Start f ob obs0 x0 y0 h with
  | inr r => rfl
  | inl s => exact rk4Loop_dup m hn P F f hF Ob ob hOb fuel s

end
end Ctl
