import IvpModel.Proofs.FieldNum
import IvpModel.Model.FdJac
import Mathlib.Tactic.Linarith
import Mathlib.Tactic.FieldSimp
import Mathlib.Algebra.BigOperators.Group.Finset.Piecewise

/-!
  The default finite-difference Jacobian (translated increment and difference quotient, `Model/FdJac.lean`):
  * the increment is at least `eps·|y_j|` and at least `eps` — relative to the size of the component whatever its sign, so
    that it is not absorbed when it is added to a large component (C14: the stiff solvers see the stiffness in J);
  * for an affine right-hand side the difference quotient is the matrix entry, exactly, for every `y` and every `eps > 0`.
-/
namespace FdJac
noncomputable section
variable {K : Type} [Field K] [LinearOrder K] [IsStrictOrderedRing K] [SqrtPow K]

theorem fdPerturbation_ge (eps yj : K) (he : 0 ≤ eps) :
    eps * |yj| ≤ Gen.Ivp.fdPerturbation eps yj ∧ eps ≤ Gen.Ivp.fdPerturbation eps yj := by
  unfold Gen.Ivp.fdPerturbation
  rw [num_fmax, num_abs, num_lit]
  have h1 : ((1 : Int) : K) / ((1 : Nat) : K) = 1 := by norm_num
  rw [h1]
  constructor
  · exact mul_le_mul_of_nonneg_left (le_max_left _ _) he
  · calc eps = eps * 1 := (mul_one _).symm
      _ ≤ eps * max |yj| 1 := mul_le_mul_of_nonneg_left (le_max_right _ _) he

theorem fdPerturbation_pos (eps yj : K) (he : 0 < eps) : 0 < Gen.Ivp.fdPerturbation eps yj :=
  lt_of_lt_of_le he (fdPerturbation_ge eps yj he.le).2

/-- **C14 / C15, default Jacobian of an affine right-hand side.**  If `f(y)_r = b_r + Σ_{c<n} A r c · y_c`, the default
    Jacobian is `A`, entry for entry, at every `y` and for every positive relative increment. -/
theorem entry_affine (n : Nat) (A : Nat → Nat → K) (b : Nat → K) (eps : K) (he : 0 < eps) (y : Nat → K) (r c : Nat) (hc : c < n) :
    entry (fun v r => b r + ∑ j ∈ Finset.range n, A r j * v j) eps y r c = A r c := by
  unfold entry Gen.Ivp.fdEntry
  have hp := fdPerturbation_pos eps (y c) he
  set p := Gen.Ivp.fdPerturbation eps (y c) with hpdef
  have hsum : ∑ j ∈ Finset.range n, A r j * perturbed y c p j = (∑ j ∈ Finset.range n, A r j * y j) + A r c * p := by
    have : ∀ j, A r j * perturbed y c p j = A r j * y j + (if j = c then A r c * p else 0) := by
      intro j
      unfold perturbed
      by_cases hj : j = c
      · subst hj; simp; ring
      · simp [hj]
    simp only [this, Finset.sum_add_distrib]
    congr 1
    rw [Finset.sum_ite_eq' (Finset.range n) c (fun _ => A r c * p)]
    simp [Finset.mem_range, hc]
  simp only
  rw [hsum]
  field_simp
  ring

end
end FdJac
