import IvpModel.Proofs.DupHairer
import IvpModel.Proofs.ScaleDopri5
set_option linter.unusedSectionVars false
set_option linter.unusedSimpArgs false
set_option linter.unusedTactic false
set_option linter.unnecessarySeqFocus false
set_option linter.unusedVariables false

/-!
  C13, whole runs of DOPRI5 on `m` stacked copies of a system (given first step): the translated regions of dopri5.rs obey the
  duplication laws of `Proofs/DupHairer.lean` between the kernels in dimension `n` and `m·n` with stacked tolerances.
-/
namespace Ctl
noncomputable section
variable {K : Type} [Field K] [LinearOrder K] [IsStrictOrderedRing K] [SqrtPow K] {n : Nat}

theorem foldl_pair_eq_sums : ∀ (n : Nat) (g1 g2 : Fin n → K) (a b : K),
    Fin.foldl n (fun (st : K × K) i => (st.1 + g1 i, st.2 + g2 i)) (a, b) = (a + ∑ i, g1 i, b + ∑ i, g2 i) := by
  intro n
  induction n with
  | zero => intro g1 g2 a b; simp [Fin.foldl_zero]
  | succ n ih =>
    intro g1 g2 a b
    rw [Fin.foldl_succ_last, ih (fun i => g1 i.castSucc) (fun i => g2 i.castSucc) a b, Fin.sum_univ_castSucc, Fin.sum_univ_castSucc]
    simp only [add_assoc]

variable (m : Nat) (hn : 0 < n)

section regions
open Gen.Dopri5

theorem d5l1_dup (y k1 : Vector K n) (h : K) :
    stages_loop1 (y := dupV m hn y) (h := h) (k1 := dupV m hn k1) = dupV m hn (stages_loop1 (y := y) (h := h) (k1 := k1)) := by
  ext i hi; simp [stages_loop1, dupV]
theorem d5l2_dup (y k1 k2 : Vector K n) (h : K) :
    stages_loop2 (y := dupV m hn y) (h := h) (k1 := dupV m hn k1) (k2 := dupV m hn k2) = dupV m hn (stages_loop2 (y := y) (h := h) (k1 := k1) (k2 := k2)) := by
  ext i hi; simp [stages_loop2, dupV]
theorem d5l3_dup (y k1 k2 k3 : Vector K n) (h : K) :
    stages_loop3 (y := dupV m hn y) (h := h) (k1 := dupV m hn k1) (k2 := dupV m hn k2) (k3 := dupV m hn k3)
      = dupV m hn (stages_loop3 (y := y) (h := h) (k1 := k1) (k2 := k2) (k3 := k3)) := by
  ext i hi; simp [stages_loop3, dupV]
theorem d5l4_dup (y k1 k2 k3 k4 : Vector K n) (h : K) :
    stages_loop4 (y := dupV m hn y) (h := h) (k1 := dupV m hn k1) (k2 := dupV m hn k2) (k3 := dupV m hn k3) (k4 := dupV m hn k4)
      = dupV m hn (stages_loop4 (y := y) (h := h) (k1 := k1) (k2 := k2) (k3 := k3) (k4 := k4)) := by
  ext i hi; simp [stages_loop4, dupV]
theorem d5l5_dup (y k1 k2 k3 k4 k5 : Vector K n) (h : K) :
    stages_loop5 (y := dupV m hn y) (h := h) (k1 := dupV m hn k1) (k2 := dupV m hn k2) (k3 := dupV m hn k3) (k4 := dupV m hn k4) (k5 := dupV m hn k5)
      = dupV m hn (stages_loop5 (y := y) (h := h) (k1 := k1) (k2 := k2) (k3 := k3) (k4 := k4) (k5 := k5)) := by
  ext i hi; simp [stages_loop5, dupV]
theorem d5l6_dup (y k1 k3 k4 k5 k6 : Vector K n) (h : K) :
    stages_loop6 (y := dupV m hn y) (h := h) (k1 := dupV m hn k1) (k3 := dupV m hn k3) (k4 := dupV m hn k4) (k5 := dupV m hn k5) (k6 := dupV m hn k6)
      = dupV m hn (stages_loop6 (y := y) (h := h) (k1 := k1) (k3 := k3) (k4 := k4) (k5 := k5) (k6 := k6)) := by
  ext i hi; simp [stages_loop6, dupV]

def dStages5 (o : StagesOut K n) : StagesOut K (m * n) :=
  { y1 := dupV m hn o.y1, k2 := dupV m hn o.k2, calls := o.calls.map (dcl m hn), k3 := dupV m hn o.k3, k4 := dupV m hn o.k4,
    k5 := dupV m hn o.k5, ysti := dupV m hn o.ysti, xph := o.xph, k6 := dupV m hn o.k6 }

theorem stages5_dup (F : Rhs K (m * n)) (f : Rhs K n) (hF : DupRhs m hn F f) (y k1 : Vector K n) (x h : K) (last : Bool) (xend : K) :
    stages (f := F) (y := dupV m hn y) (h := h) (k1 := dupV m hn k1) (x := x) (last := last) (xend := xend)
      = dStages5 m hn (stages (f := f) (y := y) (h := h) (k1 := k1) (x := x) (last := last) (xend := xend)) := by
  simp only [stages, dStages5, d5l1_dup, d5l2_dup, d5l3_dup, d5l4_dup, d5l5_dup, d5l6_dup, hF _ _ _]
  simp [dcl]

theorem errk4_dup (k1 k2 k3 k4 k5 k6 : Vector K n) (h : K) :
    (errk4 (k1 := dupV m hn k1) (k3 := dupV m hn k3) (k4 := dupV m hn k4) (k5 := dupV m hn k5) (k6 := dupV m hn k6) (k2 := dupV m hn k2) (h := h)).k4
      = dupV m hn (errk4 (k1 := k1) (k3 := k3) (k4 := k4) (k5 := k5) (k6 := k6) (k2 := k2) (h := h)).k4 := by
  ext i hi; simp [errk4, errk4_loop1, dupV]

theorem errnorm5_dup (hm : 0 < m) (atol rtol y y1 e : Vector K n) :
    errnorm (atol := dupV m hn atol) (rtol := dupV m hn rtol) (y := dupV m hn y) (y1 := dupV m hn y1) (k4 := dupV m hn e)
      = errnorm (atol := atol) (rtol := rtol) (y := y) (y1 := y1) (k4 := e) := by
  rw [dopri5_errnorm_spec, dopri5_errnorm_spec]
  congr 1
  have h1 : (fun i : Fin (m * n) => (dupV m hn e)[i]) = fun i => (fun j : Fin n => e[j]) ⟨i.val % n, Nat.mod_lt _ hn⟩ := by
    funext i; simp [dupV]
  have h2 : skMax (dupV m hn atol) (dupV m hn rtol) (dupV m hn y) (dupV m hn y1)
      = fun i : Fin (m * n) => skMax atol rtol y y1 ⟨i.val % n, Nat.mod_lt _ hn⟩ := by
    funext i; simp [skMax, dupV]
  rw [h1, h2]
  exact errSum_copies m n hm hn (fun j => e[j]) (skMax atol rtol y y1)

theorem stiff5_dup (hm : 0 < m) (k2 k6 y1 ysti : Vector K n) (h hl : K) :
    (stiff (k2 := dupV m hn k2) (k6 := dupV m hn k6) (y1 := dupV m hn y1) (ysti := dupV m hn ysti) (h := h) (hlamb := hl)).hlamb
      = (stiff (k2 := k2) (k6 := k6) (y1 := y1) (ysti := ysti) (h := h) (hlamb := hl)).hlamb := by
  have hq : (0 : K) < (m : K) := by exact_mod_cast hm
  simp only [stiff, stiff_loop1, dupV_get, num_lit, Int.cast_zero, zero_div]
  have k1' := foldl_pair_eq_sums (m * n) (fun i => (k2[i.val % n]'(Nat.mod_lt _ hn) - k6[i.val % n]'(Nat.mod_lt _ hn)) * (k2[i.val % n]'(Nat.mod_lt _ hn) - k6[i.val % n]'(Nat.mod_lt _ hn)))
    (fun i => (y1[i.val % n]'(Nat.mod_lt _ hn) - ysti[i.val % n]'(Nat.mod_lt _ hn)) * (y1[i.val % n]'(Nat.mod_lt _ hn) - ysti[i.val % n]'(Nat.mod_lt _ hn))) (0 : K) 0
  have k2' := foldl_pair_eq_sums n (fun i => (k2[i] - k6[i]) * (k2[i] - k6[i])) (fun i => (y1[i] - ysti[i]) * (y1[i] - ysti[i])) (0 : K) 0
  have s1 := sum_copies m n (fun j : Fin n => (k2[j] - k6[j]) * (k2[j] - k6[j])) hn
  have s2 := sum_copies m n (fun j : Fin n => (y1[j] - ysti[j]) * (y1[j] - ysti[j])) hn
  simp only [Fin.getElem_fin] at k1' k2' s1 s2 ⊢
  rw [k1', k2', s1, s2]
  simp only [zero_add]
  generalize (∑ j : Fin n, (k2[j.val] - k6[j.val]) * (k2[j.val] - k6[j.val])) = A
  generalize (∑ j : Fin n, (y1[j.val] - ysti[j.val]) * (y1[j.val] - ysti[j.val])) = B
  rw [mul_div_mul_left _ _ hq.ne']
  by_cases hB : B > 0
  · rw [if_pos hB, if_pos (mul_pos hq hB)]
  · have hB' : ¬ ((m : K) * B > 0) := fun h' => hB ((mul_pos_iff_of_pos_left hq).mp h')
    rw [if_neg hB, if_neg hB']

theorem dense5_dup (y1 y k1 k2 : Vector K n) (h : K) :
    let d := dense (y1 := y1) (y := y) (h := h) (k1 := k1) (k2 := k2)
    let d' := dense (y1 := dupV m hn y1) (y := dupV m hn y) (h := h) (k1 := dupV m hn k1) (k2 := dupV m hn k2)
    d'.cont0 = dupV m hn d.cont0 ∧ d'.cont1 = dupV m hn d.cont1 ∧ d'.cont2 = dupV m hn d.cont2 ∧ d'.cont3 = dupV m hn d.cont3 := by
  intro d d'
  refine ⟨?_, ?_, ?_, ?_⟩ <;> (ext i hi; simp [d, d', dense, dense_loop1, dupV])

theorem dense45_dup (k1 k2 k3 k4 k5 k6 : Vector K n) (h : K) :
    (dense4 (h := h) (k1 := dupV m hn k1) (k3 := dupV m hn k3) (k4 := dupV m hn k4) (k5 := dupV m hn k5) (k6 := dupV m hn k6) (k2 := dupV m hn k2)).cont4
      = dupV m hn (dense4 (h := h) (k1 := k1) (k3 := k3) (k4 := k4) (k5 := k5) (k6 := k6) (k2 := k2)).cont4 := by
  ext i hi; simp [dense4, dense4_loop1, dupV]

theorem interp5_dup (c0 c1 c2 c3 c4 : Vector K n) (xold h xi : K) :
    interpolate (xi := xi) (xold := xold) (h := h) (cont0 := dupV m hn c0) (cont1 := dupV m hn c1) (cont2 := dupV m hn c2) (cont3 := dupV m hn c3) (cont4 := dupV m hn c4)
      = dupV m hn (interpolate (xi := xi) (xold := xold) (h := h) (cont0 := c0) (cont1 := c1) (cont2 := c2) (cont3 := c3) (cont4 := c4)) := by
  ext i hi; simp [interpolate, interpolate_loop1, dupV]
end regions

def dD5S (S : D5S K n) : D5S K (m * n) :=
  { y1 := dupV m hn S.y1, k2 := dupV m hn S.k2, k3 := dupV m hn S.k3, k4 := dupV m hn S.k4, k5 := dupV m hn S.k5, k6 := dupV m hn S.k6,
    ek4 := dupV m hn S.ek4, ysti := dupV m hn S.ysti }

/-- **DOPRI5's kernels in dimension `n` and `m·n` (stacked tolerances) are related by the duplication laws.** -/
def dopri5KDup (hm : 0 < m) (atol rtol : Vec K n) : KDup m hn (dopri5Kernel (α := K) atol rtol) (dopri5Kernel (α := K) (dupV m hn atol) (dupV m hn rtol)) where
  dS := dD5S m hn
  dSA := dD5S m hn
  trial := by
    intro F f hF x h last xend y k1
    simp only [dopri5Kernel, dD5S, stages5_dup m hn F f hF, dStages5, errk4_dup]
  err := by
    intro s y h
    simp only [dopri5Kernel, dD5S, finiteGuard, vecFinite_field, if_true, errnorm5_dup m hn hm]
  acceptA := by
    intro F f hF s x h y k1
    simp [dopri5Kernel]
  hlamb := by
    intro a h y k1 old
    exact stiff5_dup m hn hm a.k2 a.k6 a.y1 a.ysti h old
  acceptB := by
    intro F f hF d a x h y k1
    obtain ⟨d0, d1, d2, d3⟩ := dense5_dup m hn a.y1 y k1 a.k2 h
    cases d <;> simp [dopri5Kernel, dD5S, d0, d1, d2, d3, dense45_dup]
  interp := by
    intro f a x h y k1 xold hh t
    simp [dopri5Kernel, interp5_dup]

theorem dopri5Params_cast (L : HLits K) (xend posneg uround safety scaleMin scaleMax beta hmax : K) (nmax nstiff : Nat) (dense : Bool) :
    castP m (dopri5Params (n := n) L xend posneg uround safety scaleMin scaleMax beta hmax nmax nstiff dense)
      = dopri5Params (n := m * n) L xend posneg uround safety scaleMin scaleMax beta hmax nmax nstiff dense := rfl

/-- **Whole runs of DOPRI5 on `m` stacked copies of a system, given first step**: the step points, step sizes, error estimates,
    statuses and counters of the single system; every state is the stacked state.  `F` is any right-hand side of dimension `m·n`
    that maps stacked states to the stacked derivative (the block-diagonal system does), `Ob` any observer that answers on
    stacked states as `ob` does on one copy. -/
theorem dopri5Solve_dup {σ : Type} (hm : 0 < m) (L : HLits K) (xend posneg uround safety scaleMin scaleMax beta hmax : K) (nmax nstiff : Nat) (dense : Bool)
    (atol rtol : Vec K n) (F : Rhs K (m * n)) (f : Rhs K n) (hF : DupRhs m hn F f) (Ob : Obs σ K (m * n)) (ob : Obs σ K n)
    (hOb : DupObs m hn Ob ob) (obs0 : σ) (x0 : K) (y0 : Vec K n) (h0 : K)
    (hinit : Rhs K n → Vec K n → K × Array (K × Vec K n)) (hinit' : Rhs K (m * n) → Vec K (m * n) → K × Array (K × Vec K (m * n)))
    (fo hl : K) (fuel : Nat) :
    hSolve (dopri5Params L xend posneg uround safety scaleMin scaleMax beta hmax nmax nstiff dense) (dopri5Kernel (dupV m hn atol) (dupV m hn rtol))
        F Ob obs0 x0 (dupV m hn y0) (some h0) hinit' fo hl fuel
      = (hSolve (dopri5Params L xend posneg uround safety scaleMin scaleMax beta hmax nmax nstiff dense) (dopri5Kernel atol rtol)
        f ob obs0 x0 y0 (some h0) hinit fo hl fuel).map (dResult m hn) := by
  rw [← dopri5Params_cast m]
  exact hSolve_dup m hn _ _ _ (dopri5KDup m hn hm atol rtol) F f hF Ob ob hOb obs0 x0 y0 h0 hinit hinit' fo hl fuel

/-! ### the hypotheses are met: the block-diagonal system, and an observer that looks at the first copy -/

/-- block `k` of a stacked vector -/
def blk (k : Nat) (hk : k < m) (z : Vector K (m * n)) : Vector K n :=
  Vector.ofFn fun j : Fin n => z[k * n + j.val]'(by
    have h1 : (k + 1) * n ≤ m * n := Nat.mul_le_mul_right n hk
    have h2 : k * n + j.val < (k + 1) * n := by rw [Nat.add_mul, Nat.one_mul]; exact Nat.add_lt_add_left j.isLt _
    exact lt_of_lt_of_le h2 h1)

theorem blk_dupV (k : Nat) (hk : k < m) (y : Vector K n) : blk m k hk (dupV m hn y) = y := by
  ext j hj
  simp [blk, dupV, Nat.mul_add_mod_self_right, Nat.mod_eq_of_lt hj]

/-- `m` independent copies of `y' = f(t, y)`: block `k` of the derivative is `f` of block `k` of the state -/
def blockRhs (f : Rhs K n) : Rhs K (m * n) := fun j t z =>
  Vector.ofFn fun i : Fin (m * n) =>
    (f j t (blk m (i.val / n) (Nat.div_lt_of_lt_mul (Nat.mul_comm m n ▸ i.isLt)) z))[i.val % n]'(Nat.mod_lt _ hn)

/-- the block-diagonal system is a duplicate in the sense of `DupRhs` -/
theorem blockRhs_dup (f : Rhs K n) : DupRhs m hn (blockRhs m hn f) f := by
  intro j t y
  ext i hi
  have hb : ∀ (k : Nat) (hk : k < m), blk m k hk (Vector.ofFn fun i : Fin (m * n) => y[i.val % n]'(Nat.mod_lt _ hn)) = y := fun k hk => blk_dupV m hn k hk y
  simp [blockRhs, dupV, hb]

/-- an observer of the stacked system that looks at the first copy and writes its answer to every copy -/
def firstCopyObs {σ : Type} (hm : 0 < m) (ob : Obs σ K n) : Obs σ K (m * n) := fun s xold x z ip =>
  ((ob s xold x (blk m 0 hm z) (ip.map fun e t => blk m 0 hm (e t))).1, (ob s xold x (blk m 0 hm z) (ip.map fun e t => blk m 0 hm (e t))).2.1,
   dupV m hn (ob s xold x (blk m 0 hm z) (ip.map fun e t => blk m 0 hm (e t))).2.2)

theorem firstCopyObs_dup {σ : Type} (hm : 0 < m) (ob : Obs σ K n) : DupObs m hn (firstCopyObs m hn hm ob) ob := by
  intro s xold x y ip
  have hip : (dIp m hn ip).map (fun e t => blk m 0 hm (e t)) = ip := by
    cases ip with
    | none => rfl
    | some e => simp [dIp, Option.map, blk_dupV m hn]
  simp only [firstCopyObs, blk_dupV m hn, hip]

end
end Ctl
