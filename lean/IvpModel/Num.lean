/-
  Number-system abstraction shared by every model file.

  All model code (generated kernels and hand-written control skeletons) is written once,
  over `[Num α]`.  It is *executed* at `α = Float` (IEEE binary64, bit-for-bit next to the
  Rust code) and *reasoned about* at an ordered field (instance in `Proofs/FieldNum.lean`).

  This file imports nothing outside core Lean, so the driver links as a `lean_exe`.
-/

/-- Operations the Rust numeric code uses on `Float` (= f64). -/
class Num (α : Type) extends Add α, Sub α, Mul α, Div α, Neg α, LT α, LE α where
  /-- A literal: exact rational meaning `num/den` and the binary64 bit pattern rustc computes
      for the source expression (filled in by the translator; Python's float parsing and IEEE
      division are correctly rounded, as rustc's are). -/
  lit    : Int → Nat → UInt64 → α
  /-- `k as Float` -/
  ofNat  : Nat → α
  abs    : α → α
  sqrt   : α → α
  /-- Rust `f64::max`: a NaN operand is ignored. -/
  fmax   : α → α → α
  /-- Rust `f64::min`: a NaN operand is ignored. -/
  fmin   : α → α → α
  /-- Rust `powf` (libm `pow`). -/
  pow    : α → α → α
  /-- Rust `signum`: `1.0` for `+0.0`, `-1.0` for `-0.0`, NaN for NaN. -/
  signum : α → α
  /-- `a == b` on floats (false if either is NaN). -/
  eqb    : α → α → Bool
  isNaN  : α → Bool
  /-- `round()` then `as usize` (saturating); used by the BDF interpolant's order marker only. -/
  toNat  : α → Nat
  decLt  : (a b : α) → Decidable (a < b)
  decLe  : (a b : α) → Decidable (a ≤ b)

namespace Num
variable {α : Type} [Num α]

instance (a b : α) : Decidable (a < b) := Num.decLt a b
instance (a b : α) : Decidable (a ≤ b) := Num.decLe a b

/-- integer literal as a number -/
@[inline] def int (k : Int) : α := Num.lit k 1 0
@[inline] def zero : α := Num.ofNat 0
@[inline] def one  : α := Num.ofNat 1
@[inline] def two  : α := Num.ofNat 2

instance : Inhabited α := ⟨Num.ofNat 0⟩

/-- Rust `clamp(lo, hi)` (panics if lo > hi or NaN bounds; callers guarantee lo ≤ hi). -/
@[inline] def clamp (x lo hi : α) : α :=
  if x < lo then lo else if hi < x then hi else x

end Num

/-! ### `Float` instance (execution) -/

@[inline] def Float.rustMax (a b : Float) : Float :=
  if a.isNaN then b else if b.isNaN then a else if a < b then b else a
@[inline] def Float.rustMin (a b : Float) : Float :=
  if a.isNaN then b else if b.isNaN then a else if b < a then b else a
@[inline] def Float.rustSignum (a : Float) : Float :=
  if a.isNaN then a
  else if (a.toBits >>> 63) == 1 then -1.0 else 1.0

instance : Num Float where
  lit _ _ bits := Float.ofBits bits
  ofNat k := Float.ofNat k
  abs := Float.abs
  sqrt := Float.sqrt
  fmax := Float.rustMax
  fmin := Float.rustMin
  pow := Float.pow
  signum := Float.rustSignum
  eqb a b := a == b
  isNaN := Float.isNaN
  toNat a := (Float.round a).toUInt64.toNat
  decLt _ _ := inferInstance
  decLe _ _ := inferInstance
