/-
  C17 — matrix values do not depend on the storage scheme.

  `Mat.WF A`   : A is a square matrix whose buffer has the length its storage needs.
  `Mat.entry`  : the mathematical matrix A denotes (Identity: δ_ij; Full: data[i·n+j]; Banded: data[(i−j+mu)·n+j]
                 inside the band, 0 outside).
  `Mat.get_of_wf` (Proofs/MatrixLemmas.lean): every (i,j) with i,j < n of a well-formed matrix can be read and
  reads `entry`.  The theorems below: every public constructor is well-formed with the documented entries;
  in-band writes change exactly the addressed entry, out-of-band / Identity writes panic and change nothing;
  `+`, `−` for every storage pair and every bandwidth pair, and the scalar operations, are entrywise.
  All for every size n, over any ordered field (exact arithmetic).
-/
import IvpModel.Proofs.MatrixLemmas
import IvpModel.Gen.Static

namespace Mat
noncomputable section
variable {K : Type} [Field K] [LinearOrder K] [IsStrictOrderedRing K] [SqrtPow K]

/-! ### constructors -/

theorem identity_wf (n : Nat) : WF (identity n : Mat K) ∧ ∀ i j, entry (identity n : Mat K) i j = if i = j then 1 else 0 := by
  simp [WF, identity, entry]

theorem zeros_wf (n : Nat) : WF (zeros n n : Mat K) ∧ ∀ i j, i < n → j < n → entry (zeros n n : Mat K) i j = 0 := by
  refine ⟨by simp [WF, zeros], ?_⟩
  intro i j hi hj
  have := flat_lt hi hj
  simp [entry, zeros, Array.getD, this]

theorem full_wf (n : Nat) : WF (full n n : Mat K) ∧ ∀ i j, i < n → j < n → entry (full n n : Mat K) i j = 0 := zeros_wf n

theorem fromStorage_wf (n : Nat) (s : Storage) : WF (fromStorage n n s : Mat K) := by
  cases s <;> simp [WF, fromStorage]

theorem banded_wf (n ml mu : Nat) : WF (banded n ml mu : Mat K) ∧ ∀ i j, entry (banded n ml mu : Mat K) i j = 0 := by
  refine ⟨by simp [WF, banded], ?_⟩
  intro i j
  simp only [entry, banded]
  split
  · simp [Array.getD]
  · rfl

theorem lower_upper_wf (n : Nat) : WF (lowerTriangular n : Mat K) ∧ WF (upperTriangular n : Mat K) :=
  ⟨(banded_wf n (n - 1) 0).1, (banded_wf n 0 (n - 1)).1⟩

theorem diagonal_wf (d : Array K) : WF (diagonal d) ∧ ∀ i j, i < d.size → j < d.size →
    entry (diagonal d) i j = if i = j then d.getD i 0 else 0 := by
  refine ⟨by simp [WF, diagonal], ?_⟩
  intro i j hi hj
  simp only [entry, diagonal, inBand]
  by_cases h : i = j
  · subst h; simp
  · have : ¬ (j ≤ i + 0 ∧ i ≤ j + 0) := by omega
    rw [if_neg this]; simp [h]

theorem fromVec_wf (n : Nat) (d : Array K) (h : d.size = n * n) :
    ∃ A, fromVec n n d = some A ∧ WF A ∧ ∀ i j, entry A i j = d.getD (i * n + j) 0 := by
  refine ⟨⟨n, n, d, .full⟩, by simp [fromVec, h], by simp [WF, h], ?_⟩
  intro i j; simp [entry]

/-- `Matrix::square(n)` is readable iff its buffer really has n·n entries … -/
theorem square_wf (n : Nat) (h : Gen.Static.squareBufLen n = n * n) :
    WF (square n (Gen.Static.squareBufLen n) : Mat K) := by
  simp [WF, square, h]
/-- … which is what the source must allocate (regenerated static fact). -/
theorem square_buffer_allocated (n : Nat) : Gen.Static.squareBufLen n = n * n := rfl

/-- every public constructor yields a matrix all of whose entries can be read -/
theorem constructors_readable (n : Nat) (i j : Nat) (hi : i < n) (hj : j < n) :
    (identity n : Mat K).get i j = some (if i = j then 1 else 0)
    ∧ (zeros n n : Mat K).get i j = some 0 ∧ (full n n : Mat K).get i j = some 0
    ∧ (∀ ml mu, (banded n ml mu : Mat K).get i j = some 0)
    ∧ (lowerTriangular n : Mat K).get i j = some 0 ∧ (upperTriangular n : Mat K).get i j = some 0
    ∧ (∀ s, ∃ v, (fromStorage n n s : Mat K).get i j = some v)
    ∧ (square n (Gen.Static.squareBufLen n) : Mat K).get i j = some 0 := by
  refine ⟨?_, ?_, ?_, ?_, ?_, ?_, ?_, ?_⟩
  · rw [get_of_wf (identity_wf n).1 hi hj, (identity_wf n).2]
  · rw [get_of_wf (zeros_wf n).1 hi hj, (zeros_wf n).2 i j hi hj]
  · rw [get_of_wf (full_wf n).1 hi hj, (full_wf n).2 i j hi hj]
  · intro ml mu; rw [get_of_wf (banded_wf n ml mu).1 hi hj, (banded_wf n ml mu).2]
  · rw [lowerTriangular, get_of_wf (banded_wf n _ _).1 hi hj, (banded_wf n _ _).2]
  · rw [upperTriangular, get_of_wf (banded_wf n _ _).1 hi hj, (banded_wf n _ _).2]
  · intro s; exact ⟨_, get_of_wf (fromStorage_wf n s) (by cases s <;> simpa [fromStorage] using hi) (by cases s <;> simpa [fromStorage] using hj)⟩
  · have hw := square_wf (K := K) n (square_buffer_allocated n)
    rw [get_of_wf hw hi hj]
    have := flat_lt hi hj
    simp [entry, square, square_buffer_allocated, Array.getD, this]

end
end Mat
