/-
  C17 — matrix values do not depend on the storage scheme.

  `Mat.WF A`   : A is a square matrix whose buffer has the length its storage needs.
  `Mat.entry`  : the mathematical matrix A denotes (Identity: δ_ij; Full: data[i·n+j]; Banded: data[(i−j+mu)·n+j]
                 inside the band, 0 outside).
  `Mat.get_of_wf` (Proofs/MatrixLemmas.lean): every (i,j) with i,j < n of a well-formed matrix can be read and
  reads `entry`.  The theorems below: every public constructor is well-formed with the documented entries;
  in-band writes change exactly the addressed entry, out-of-band / Identity writes panic and change nothing;
  `+`, `−` for every storage pair and every bandwidth pair, and the scalar operations, are entrywise.
  All for every size n, over any ordered field (exact arithmetic).
-/
import IvpModel.Proofs.MatrixLemmas
import IvpModel.Gen.Static

namespace Mat
noncomputable section
variable {K : Type} [Field K] [LinearOrder K] [IsStrictOrderedRing K] [SqrtPow K]

/-! ### constructors -/

theorem identity_wf (n : Nat) : WF (identity n : Mat K) ∧ ∀ i j, entry (identity n : Mat K) i j = if i = j then 1 else 0 := by
  simp [WF, identity, entry]

theorem zeros_wf (n : Nat) : WF (zeros n n : Mat K) ∧ ∀ i j, i < n → j < n → entry (zeros n n : Mat K) i j = 0 := by
  refine ⟨by simp [WF, zeros], ?_⟩
  intro i j hi hj
  have := flat_lt hi hj
  simp [entry, zeros, Array.getD, this]

theorem full_wf (n : Nat) : WF (full n n : Mat K) ∧ ∀ i j, i < n → j < n → entry (full n n : Mat K) i j = 0 := zeros_wf n

theorem fromStorage_wf (n : Nat) (s : Storage) : WF (fromStorage n n s : Mat K) := by
  cases s <;> simp [WF, fromStorage]

theorem banded_wf (n ml mu : Nat) : WF (banded n ml mu : Mat K) ∧ ∀ i j, entry (banded n ml mu : Mat K) i j = 0 := by
  refine ⟨by simp [WF, banded], ?_⟩
  intro i j
  simp only [entry, banded]
  split
  · simp [Array.getD]
  · rfl

theorem lower_upper_wf (n : Nat) : WF (lowerTriangular n : Mat K) ∧ WF (upperTriangular n : Mat K) :=
  ⟨(banded_wf n (n - 1) 0).1, (banded_wf n 0 (n - 1)).1⟩

theorem diagonal_wf (d : Array K) : WF (diagonal d) ∧ ∀ i j, i < d.size → j < d.size →
    entry (diagonal d) i j = if i = j then d.getD i 0 else 0 := by
  refine ⟨by simp [WF, diagonal], ?_⟩
  intro i j hi hj
  simp only [entry, diagonal, inBand]
  by_cases h : i = j
  · subst h; simp
  · have : ¬ (j ≤ i + 0 ∧ i ≤ j + 0) := by omega
    rw [if_neg this]; simp [h]

theorem fromVec_wf (n : Nat) (d : Array K) (h : d.size = n * n) :
    ∃ A, fromVec n n d = some A ∧ WF A ∧ ∀ i j, entry A i j = d.getD (i * n + j) 0 := by
  refine ⟨⟨n, n, d, .full⟩, by simp [fromVec, h], by simp [WF, h], ?_⟩
  intro i j; simp [entry]

/-- `Matrix::square(n)` is readable iff its buffer really has n·n entries … -/
theorem square_wf (n : Nat) (h : Gen.Static.squareBufLen n = n * n) :
    WF (square n (Gen.Static.squareBufLen n) : Mat K) := by
  simp [WF, square, h]
/-- … which is what the source must allocate (regenerated static fact). -/
theorem square_buffer_allocated (n : Nat) : Gen.Static.squareBufLen n = n * n := rfl

/-- every public constructor yields a matrix all of whose entries can be read -/
theorem constructors_readable (n : Nat) (i j : Nat) (hi : i < n) (hj : j < n) :
    (identity n : Mat K).get i j = some (if i = j then 1 else 0)
    ∧ (zeros n n : Mat K).get i j = some 0 ∧ (full n n : Mat K).get i j = some 0
    ∧ (∀ ml mu, (banded n ml mu : Mat K).get i j = some 0)
    ∧ (lowerTriangular n : Mat K).get i j = some 0 ∧ (upperTriangular n : Mat K).get i j = some 0
    ∧ (∀ s, ∃ v, (fromStorage n n s : Mat K).get i j = some v)
    ∧ (square n (Gen.Static.squareBufLen n) : Mat K).get i j = some 0 := by
  refine ⟨?_, ?_, ?_, ?_, ?_, ?_, ?_, ?_⟩
  · rw [get_of_wf (identity_wf n).1 hi hj, (identity_wf n).2]
  · rw [get_of_wf (zeros_wf n).1 hi hj, (zeros_wf n).2 i j hi hj]
  · rw [get_of_wf (full_wf n).1 hi hj, (full_wf n).2 i j hi hj]
  · intro ml mu; rw [get_of_wf (banded_wf n ml mu).1 hi hj, (banded_wf n ml mu).2]
  · rw [lowerTriangular, get_of_wf (banded_wf n _ _).1 hi hj, (banded_wf n _ _).2]
  · rw [upperTriangular, get_of_wf (banded_wf n _ _).1 hi hj, (banded_wf n _ _).2]
  · intro s; exact ⟨_, get_of_wf (fromStorage_wf n s) (by cases s <;> simpa [fromStorage] using hi) (by cases s <;> simpa [fromStorage] using hj)⟩
  · have hw := square_wf (K := K) n (square_buffer_allocated n)
    rw [get_of_wf hw hi hj]
    have := flat_lt hi hj
    simp [entry, square, square_buffer_allocated, Array.getD, this]


/-! ### reads and writes -/

/-- the band index map is injective on in-band pairs of one column count -/
theorem band_index_inj {n mu i j i' j' : Nat} (hj : j < n) (hj' : j' < n) (hb : j ≤ i + mu) (hb' : j' ≤ i' + mu)
    (h : (i + mu - j) * n + j = (i' + mu - j') * n + j') : i = i' ∧ j = j' := by
  have h1 := flat_index (r := i + mu - j) hj
  have h2 := flat_index (r := i' + mu - j') hj'
  rw [h] at h1
  have hjj : j = j' := by rw [← h1.2, h2.2]
  have hr : i + mu - j = i' + mu - j' := by rw [← h1.1, h2.1]
  subst hjj
  exact ⟨by omega, rfl⟩

theorem full_index_inj {n i j i' j' : Nat} (hj : j < n) (hj' : j' < n) (h : i * n + j = i' * n + j') : i = i' ∧ j = j' := by
  have h1 := flat_index (r := i) hj
  have h2 := flat_index (r := i') hj'
  rw [h] at h1
  exact ⟨by rw [← h1.1, h2.1], by rw [← h1.2, h2.2]⟩

/-- writes into an Identity matrix and writes outside the band panic (the matrix is left as it was: `set` returns
    no new value), as do out-of-range writes -/
theorem set_panics (A : Mat K) (i j : Nat) (v : K) :
    (A.storage = .identity → A.set i j v = none)
    ∧ (∀ ml mu, A.storage = .banded ml mu → ¬ inBand ml mu i j → A.set i j v = none)
    ∧ (¬ (i < A.n ∧ j < A.m) → A.set i j v = none) := by
  refine ⟨?_, ?_, ?_⟩
  · intro h; unfold set; rw [h]; split <;> rfl
  · intro ml mu h hb; unfold set; rw [h]; split
    · dsimp only; rw [if_neg hb]
    · rfl
  · intro h; unfold set; rw [if_neg h]

/-- an in-band (or Full) write updates exactly the addressed entry -/
theorem set_spec {A : Mat K} (hw : WF A) {i j : Nat} (hi : i < A.n) (hj : j < A.n) (v : K)
    (hok : match A.storage with | .identity => False | .full => True | .banded ml mu => inBand ml mu i j) :
    ∃ A', A.set i j v = some A' ∧ WF A' ∧ A'.n = A.n ∧ A'.storage = A.storage ∧
      ∀ i' j', i' < A.n → j' < A.n → entry A' i' j' = if i' = i ∧ j' = j then v else entry A i' j' := by
  obtain ⟨hm, hs⟩ := hw
  unfold set
  rw [hm, if_pos ⟨hi, hj⟩]
  cases hst : A.storage with
  | identity => rw [hst] at hok; exact hok.elim
  | full =>
    rw [hst] at hs; dsimp only at hs ⊢
    have hlt : i * A.n + j < A.data.size := by rw [hs]; exact flat_lt hi hj
    rw [if_pos hlt]
    refine ⟨_, rfl, ⟨rfl, by simp [hs]⟩, rfl, rfl, ?_⟩
    intro i' j' hi' hj'
    simp only [entry, hst]
    by_cases h : i' = i ∧ j' = j
    · obtain ⟨rfl, rfl⟩ := h
      simp [Array.getD, hlt]
    · have hne : i' * A.n + j' ≠ i * A.n + j := fun he => h (full_index_inj hj' hj he)
      rw [if_neg h]
      simp only [Array.getD_eq_getD_getElem?, Array.getElem?_setIfInBounds_ne (Ne.symm hne)]
  | banded ml mu =>
    rw [hst] at hs hok; dsimp only at hs hok ⊢
    have hlt : (i + mu - j) * A.n + j < A.data.size := by rw [hs]; exact flat_lt (band_row_lt hok) hj
    rw [if_pos hok, if_pos hlt]
    refine ⟨_, rfl, ⟨rfl, by simp [hs]⟩, rfl, rfl, ?_⟩
    intro i' j' hi' hj'
    simp only [entry, hst]
    by_cases hb' : inBand ml mu i' j'
    · rw [if_pos hb', if_pos hb']
      by_cases h : i' = i ∧ j' = j
      · obtain ⟨rfl, rfl⟩ := h
        simp [Array.getD, hlt]
      · have hne : (i' + mu - j') * A.n + j' ≠ (i + mu - j) * A.n + j :=
          fun he => h (band_index_inj hj' hj hb'.1 hok.1 he)
        rw [if_neg h]
        simp only [Array.getD_eq_getD_getElem?, Array.getElem?_setIfInBounds_ne (Ne.symm hne)]
    · rw [if_neg hb', if_neg hb']
      have : ¬ (i' = i ∧ j' = j) := fun h => hb' (h.1 ▸ h.2 ▸ hok)
      rw [if_neg this]


/-! ### Matrix ± Matrix for every storage pair -/

/-- result of the mixed (densifying) arm -/
theorem mixed_dense (isAdd : Bool) {A B : Mat K} (ha : WF A) (hb : WF B) (hn : A.n = B.n) :
    ∃ aa bb, toFull A.n A.data A.storage = some aa ∧ toFull A.n B.data B.storage = some bb ∧
      WF (⟨A.n, A.n, Array.zipWith (fun x y => if isAdd then x + y else x - y) aa bb, .full⟩ : Mat K) ∧
      ∀ i j, i < A.n → j < A.n →
        entry (⟨A.n, A.n, Array.zipWith (fun x y => if isAdd then x + y else x - y) aa bb, .full⟩ : Mat K) i j
          = if isAdd then entry A i j + entry B i j else entry A i j - entry B i j := by
  obtain ⟨da, hda, hsa, hea⟩ := toFull_wf ha
  obtain ⟨db, hdb, hsb, heb⟩ := toFull_wf hb
  rw [← hn] at hdb hsb heb
  refine ⟨da, db, hda, hdb, ⟨rfl, by simp [hsa, hsb]⟩, ?_⟩
  intro i j hi hj
  have hlt := flat_lt hi hj
  have he : entry (⟨A.n, A.n, Array.zipWith (fun x y => if isAdd then x + y else x - y) da db, .full⟩ : Mat K) i j
      = (Array.zipWith (fun x y => if isAdd then x + y else x - y) da db).getD (i * A.n + j) 0 := rfl
  rw [he, getD_zipWith (by rw [hsa]; exact hlt) (by rw [hsb]; exact hlt), hea i j hi hj, heb i j hi hj]

theorem addSub_dense (isAdd : Bool) {A B : Mat K} (ha : WF A) (hb : WF B) (hn : A.n = B.n) :
    ∃ C, addSub isAdd A B = some C ∧ WF C ∧ C.n = A.n ∧
      ∀ i j, i < A.n → j < A.n → entry C i j = if isAdd then entry A i j + entry B i j else entry A i j - entry B i j := by
  obtain ⟨aa, bb, haa, hbb, hmw, hme⟩ := mixed_dense isAdd ha hb hn
  unfold addSub
  rw [if_neg (by simpa using hn)]
  cases hA : A.storage with
  | identity =>
    cases hB : B.storage with
    | identity =>
      dsimp only
      refine ⟨_, rfl, wf_flat_full _ _, rfl, ?_⟩
      intro i j hi hj
      rw [entry_flat_full _ hi hj]
      simp only [entry, hA, hB]
      by_cases hij : i = j <;> cases isAdd <;> simp [hij]
    | full => rw [hA] at haa; rw [hB] at hbb; simp only [haa, hbb]; exact ⟨_, rfl, hmw, rfl, hme⟩
    | banded ml2 mu2 => rw [hA] at haa; rw [hB] at hbb; simp only [haa, hbb]; exact ⟨_, rfl, hmw, rfl, hme⟩
  | full =>
    cases hB : B.storage with
    | identity => rw [hA] at haa; rw [hB] at hbb; simp only [haa, hbb]; exact ⟨_, rfl, hmw, rfl, hme⟩
    | full =>
      dsimp only
      obtain ⟨_, hsa⟩ := ha; obtain ⟨_, hsb⟩ := hb
      rw [hA] at hsa; rw [hB] at hsb; dsimp only at hsa hsb
      rw [← hn] at hsb
      cases isAdd with
      | true =>
        refine ⟨_, rfl, ⟨rfl, by simp [hsa, hsb]⟩, rfl, ?_⟩
        intro i j hi hj
        have hlt := flat_lt hi hj
        simp only [entry, hA, hB, if_true]
        rw [getD_zipWith (by rw [hsa]; exact hlt) (by rw [hsb]; exact hlt), ← hn]
      | false =>
        refine ⟨_, rfl, ⟨rfl, by simp [hsa]⟩, rfl, ?_⟩
        intro i j hi hj
        have hlt := flat_lt hi hj
        have h1 : i * A.n + j < A.data.size := by rw [hsa]; exact hlt
        have h2 : i * A.n + j < B.data.size := by rw [hsb]; exact hlt
        simp [entry, hA, hB, Array.getD, h1, h2, ← hn]
    | banded ml2 mu2 => rw [hA] at haa; rw [hB] at hbb; simp only [haa, hbb]; exact ⟨_, rfl, hmw, rfl, hme⟩
  | banded ml mu =>
    cases hB : B.storage with
    | identity => rw [hA] at haa; rw [hB] at hbb; simp only [haa, hbb]; exact ⟨_, rfl, hmw, rfl, hme⟩
    | full => rw [hA] at haa; rw [hB] at hbb; simp only [haa, hbb]; exact ⟨_, rfl, hmw, rfl, hme⟩
    | banded ml2 mu2 =>
      dsimp only
      obtain ⟨_, hsa⟩ := ha; obtain ⟨_, hsb⟩ := hb
      rw [hA] at hsa; rw [hB] at hsb; dsimp only at hsa hsb
      rw [← hn] at hsb
      have hcell : ∀ ro c, ro < max ml ml2 + max mu mu2 + 1 → c < A.n →
          (bandedCell isAdd A.data B.data A.n ml mu ml2 mu2 ro c).isSome := by
        intro ro c _ hc
        rw [bandedCell_eq isAdd hsa hsb hc]; rfl
      rw [collectRows_some _ hcell]
      dsimp only
      refine ⟨_, rfl, wf_flat_banded _ _ _ _, rfl, ?_⟩
      intro i j hi hj
      rw [entry_flat_banded _ hj]
      simp only [entry, hA, hB]
      by_cases hbo : inBand (max ml ml2) (max mu mu2) i j
      · rw [if_pos hbo, bandedCell_eq isAdd hsa hsb hj]
        have hcond : max mu mu2 ≤ j + (i + max mu mu2 - j) ∧ j + (i + max mu mu2 - j) < A.n + max mu mu2 := by
          unfold inBand at hbo; omega
        have hidx : j + (i + max mu mu2 - j) - max mu mu2 = i := by unfold inBand at hbo; omega
        simp only [Option.getD_some, if_pos hcond, hidx, ← hn]
      · rw [if_neg hbo]
        have hb1 : ¬ inBand ml mu i j := by unfold inBand at hbo ⊢; omega
        have hb2 : ¬ inBand ml2 mu2 i j := by unfold inBand at hbo ⊢; omega
        rw [if_neg hb1, if_neg hb2]
        cases isAdd <;> simp

theorem add_dense {A B : Mat K} (ha : WF A) (hb : WF B) (hn : A.n = B.n) :
    ∃ C, add A B = some C ∧ WF C ∧ C.n = A.n ∧ ∀ i j, i < A.n → j < A.n → entry C i j = entry A i j + entry B i j := by
  simpa [add] using addSub_dense true ha hb hn
theorem sub_dense {A B : Mat K} (ha : WF A) (hb : WF B) (hn : A.n = B.n) :
    ∃ C, sub A B = some C ∧ WF C ∧ C.n = A.n ∧ ∀ i j, i < A.n → j < A.n → entry C i j = entry A i j - entry B i j := by
  simpa [sub] using addSub_dense false ha hb hn
/-- dimension mismatch panics -/
theorem addSub_mismatch (isAdd : Bool) (A B : Mat K) (h : A.n ≠ B.n) : addSub isAdd A B = none := by
  unfold addSub; rw [if_pos h]


/-! ### scalar operations -/

theorem componentAddSub_dense (isAdd : Bool) {A : Mat K} (ha : WF A) (c : K) :
    ∃ C, componentAddSub isAdd A c = some C ∧ WF C ∧ C.n = A.n ∧
      ∀ i j, i < A.n → j < A.n → entry C i j = if isAdd then entry A i j + c else entry A i j - c := by
  obtain ⟨hm, hs⟩ := ha
  unfold componentAddSub
  cases hA : A.storage with
  | identity =>
    dsimp only
    refine ⟨_, rfl, wf_flat_full _ _, rfl, ?_⟩
    intro i j hi hj
    rw [entry_flat_full _ hi hj]
    simp only [entry, hA]
    by_cases hij : i = j <;> cases isAdd <;> simp [hij] <;> ring
  | full =>
    rw [hA] at hs; dsimp only at hs ⊢
    refine ⟨_, rfl, ⟨hm, by simp [hs]⟩, rfl, ?_⟩
    intro i j hi hj
    have hlt : i * A.n + j < A.data.size := by rw [hs]; exact flat_lt hi hj
    cases isAdd <;> simp [entry, hA, Array.getD, hlt]
  | banded ml mu =>
    rw [hA] at hs; dsimp only at hs ⊢
    by_cases hc : c = 0
    · have : Num.eqb c (Num.zero : K) = true := by simp [hc]
      rw [if_pos this]
      refine ⟨A, rfl, ⟨hm, by rw [hA]; exact hs⟩, rfl, ?_⟩
      intro i j _ _; cases isAdd <;> simp [hc]
    · have : ¬ (Num.eqb c (Num.zero : K) = true) := by simp [hc]
      rw [if_neg this]
      have hsome : ∀ r cc, r < A.n → cc < A.n →
          ((fun (i j : Nat) => if inBand ml mu i j then (A.data[(i + mu - j) * A.n + j]?).map (fun v => if isAdd then v + c else v - c)
              else some (if isAdd then c else Num.zero - c)) r cc).isSome := by
        intro r cc _ hcc
        dsimp only
        by_cases hb : inBand ml mu r cc
        · rw [if_pos hb]
          have : (r + mu - cc) * A.n + cc < A.data.size := by rw [hs]; exact flat_lt (band_row_lt hb) hcc
          simp [this]
        · rw [if_neg hb]; rfl
      simp only [collect]
      rw [collectRows_some _ hsome]
      refine ⟨_, rfl, wf_flat_full _ _, rfl, ?_⟩
      intro i j hi hj
      rw [entry_flat_full _ hi hj]
      simp only [entry, hA]
      by_cases hb : inBand ml mu i j
      · rw [if_pos hb, if_pos hb]
        have : (i + mu - j) * A.n + j < A.data.size := by rw [hs]; exact flat_lt (band_row_lt hb) hj
        cases isAdd <;> simp [Array.getD, this]
      · rw [if_neg hb, if_neg hb]
        cases isAdd <;> simp

/-- `component_mul`: entrywise product; Banded stays Banded (also for the scalar 0), Identity becomes a diagonal band -/
theorem componentMul_dense {A : Mat K} (ha : WF A) (c : K) :
    WF (componentMul A c) ∧ (componentMul A c).n = A.n ∧
      ∀ i j, i < A.n → j < A.n → entry (componentMul A c) i j = entry A i j * c := by
  obtain ⟨hm, hs⟩ := ha
  unfold componentMul
  cases hA : A.storage with
  | identity =>
    dsimp only
    refine ⟨by simp [WF, diagonal], by simp [diagonal], ?_⟩
    intro i j hi hj
    simp only [entry, diagonal, hA, inBand]
    by_cases hij : i = j
    · subst hij; simp [Array.getD, hi]
    · have : ¬ (j ≤ i + 0 ∧ i ≤ j + 0) := by omega
      rw [if_neg this]; simp [hij]
  | full =>
    rw [hA] at hs; dsimp only at hs ⊢
    refine ⟨⟨hm, by simp [hs]⟩, rfl, ?_⟩
    intro i j hi hj
    have hlt : i * A.n + j < A.data.size := by rw [hs]; exact flat_lt hi hj
    simp [entry, hA, Array.getD, hlt]
  | banded ml mu =>
    rw [hA] at hs; dsimp only at hs ⊢
    refine ⟨⟨rfl, by simp [hs]⟩, rfl, ?_⟩
    intro i j hi hj
    simp only [entry, hA]
    by_cases hb : inBand ml mu i j
    · rw [if_pos hb, if_pos hb]
      have : (i + mu - j) * A.n + j < A.data.size := by rw [hs]; exact flat_lt (band_row_lt hb) hj
      simp [Array.getD, this]
    · rw [if_neg hb, if_neg hb]; simp

/-! ### `is_identity` agrees with the dense definition (stated through `entry`) -/

/-- Identity storage denotes the identity matrix, and `is_identity` says so -/
theorem isIdentity_of_identity (A : Mat K) (h : A.storage = .identity) :
    A.isIdentity = some true ∧ ∀ i j, entry A i j = if i = j then 1 else 0 := by
  unfold isIdentity entry; rw [h]; exact ⟨rfl, fun _ _ => rfl⟩

/-- `is_identity` on Full / Banded storage: it never panics on a well-formed matrix and answers `true` exactly when
    every entry of the denoted matrix is that of the identity (every n, every bandwidth pair) -/
theorem isIdentity_iff_dense {A : Mat K} (h : WF A) (hst : A.storage ≠ .identity) :
    ∃ b, A.isIdentity = some b ∧
      (b = true ↔ ∀ i j, i < A.n → j < A.n → entry A i j = if i = j then 1 else 0) := by
  refine ⟨_, by rw [isIdentity_unfold A hst, h.1, isIdStep_outer h true _ (fun i hi => List.mem_range.mp hi)], ?_⟩
  simp only [Bool.true_and, List.all_eq_true, List.mem_range, cellOk]
  constructor
  · intro hall i j hi hj
    have := hall i hi j hj
    by_cases hij : i = j
    · simpa [hij] using this
    · simpa [hij] using this
  · intro hall i hi j hj
    have := hall i j hi hj
    by_cases hij : i = j
    · simpa [hij] using this
    · simpa [hij] using this

/-- `fill`: the result is well-formed and every entry of the denoted matrix is the constant — for every storage, every
    bandwidth pair and every n (Identity and non-zero Banded fills switch to Full storage; nothing is corrupted) -/
theorem fill_dense {A : Mat K} (h : WF A) (v : K) :
    WF (A.fill v) ∧ ∀ i j, i < A.n → j < A.n → entry (A.fill v) i j = v := by
  obtain ⟨hm, hs⟩ := h
  unfold fill
  cases hst : A.storage with
  | full =>
    rw [hst] at hs; simp only at hs
    refine ⟨⟨hm, by simp [hs]⟩, ?_⟩
    intro i j hi hj
    have hlt : i * A.n + j < A.data.size := by rw [hs]; exact flat_lt hi hj
    simp [entry, Array.getD, hlt]
  | identity =>
    refine ⟨⟨hm, by simp [hm]⟩, ?_⟩
    intro i j hi hj
    have hlt : i * A.n + j < A.n * A.m := by rw [hm]; exact flat_lt hi hj
    simp [entry, Array.getD, hlt]
  | banded ml mu =>
    rw [hst] at hs; simp only at hs
    by_cases hv : v = 0
    · have he : Num.eqb v (Num.zero : K) = true := by rw [num_eqb]; simp [hv]
      simp only [he, if_true]
      refine ⟨⟨hm, by simp [hs]⟩, ?_⟩
      intro i j hi hj
      simp only [entry]
      split
      · rename_i hb
        have hlt : (i + mu - j) * A.n + j < A.data.size := by rw [hs]; exact flat_lt (band_row_lt hb) hj
        simp [Array.getD, hlt, hv]
      · exact hv.symm
    · have he : ¬ (Num.eqb v (Num.zero : K) = true) := by rw [num_eqb]; simpa using hv
      simp only [he, if_false]
      refine ⟨⟨hm, by simp [hm]⟩, ?_⟩
      intro i j hi hj
      have hlt : i * A.n + j < A.n * A.m := by rw [hm]; exact flat_lt hi hj
      simp [entry, Array.getD, hlt]

noncomputable local instance : SqrtPow ℚ := ⟨id, fun a _ => a⟩

/-- non-vacuity: a banded 3×3 matrix with a wide lower band and one sub-diagonal entry is not the identity -/
example : ∃ A : Mat ℚ, WF A ∧ A.storage = .banded 2 0 ∧ A.isIdentity = some false := by
  refine ⟨⟨3, 3, #[1, 1, 1, 0, 0, 0, 5, 0, 0], .banded 2 0⟩, by simp [WF], rfl, ?_⟩
  decide +kernel

end
end Mat
