/-
  C06 — dense output is continuous and matches the samples (per-step part).

  Endpoint identities of the translated `interpolate` ∘ dense-block code, for every dimension, every state and
  stage vector, every step size h ≠ 0 of either sign, in exact arithmetic:
  value at `xold` = state before the step, value at `xold + h` = accepted state.
  (`*_interp_left/right`, `rk4_dense_ends` in Proofs/DenseEqs*.lean.)  Consecutive steps share the stored
  state, so the piecewise interpolant is continuous and reproduces every stored sample.
  The segment lookup (`ContinuousOutput`, `Solution::sol`) is modelled in `Model/Cont.lean`.
-/
import IvpModel.Proofs.DenseEqs853

/-- C06 summary for DOPRI5 (the statement the other methods' lemmas share): with the dense block built from the
    step's own data, the interpolant is the old state at θ = 0 and the accepted state at θ = 1. -/
theorem C06_dopri5_endpoints {K : Type} [Field K] [LinearOrder K] [IsStrictOrderedRing K] [SqrtPow K] {n : Nat}
    (y1 y k1 k2 c4 : Vector K n) (xold h : K) (hh : h ≠ 0) :
    let d := Gen.Dopri5.dense (y1 := y1) (y := y) (h := h) (k1 := k1) (k2 := k2)
    Gen.Dopri5.interpolate (xi := xold) (xold := xold) (h := h) (cont0 := d.cont0) (cont1 := d.cont1) (cont2 := d.cont2)
        (cont3 := d.cont3) (cont4 := c4) = y
    ∧ Gen.Dopri5.interpolate (xi := xold + h) (xold := xold) (h := h) (cont0 := d.cont0) (cont1 := d.cont1)
        (cont2 := d.cont2) (cont3 := d.cont3) (cont4 := c4) = y1 := by
  intro d
  refine ⟨?_, (dopri5_interp_right y1 y k1 k2 c4 xold h hh).1⟩
  rw [dopri5_interp_left]
  exact (dopri5_interp_right y1 y k1 k2 c4 xold h hh).2
