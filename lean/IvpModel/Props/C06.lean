/-
  C06 — dense output is continuous and matches the samples (per-step part).

  Endpoint identities of the translated `interpolate` ∘ dense-block code, for every dimension, every state and
  stage vector, every step size h ≠ 0 of either sign, in exact arithmetic:
  value at `xold` = state before the step, value at `xold + h` = accepted state.
  (`*_interp_left/right`, `rk4_dense_ends` in Proofs/DenseEqs*.lean.)  Consecutive steps share the stored
  state, so the piecewise interpolant is continuous and reproduces every stored sample.
  The segment lookup (`ContinuousOutput`, `Solution::sol`) is modelled in `Model/Cont.lean`.
-/
import IvpModel.Proofs.DenseEqs853
import IvpModel.Proofs.ContLemmas
import IvpModel.Proofs.SolOutDense
import IvpModel.Proofs.BdfNumLemmas
import IvpModel.Proofs.RadauNumLemmas

/-- C06 summary for DOPRI5 (the statement the other methods' lemmas share): with the dense block built from the
    step's own data, the interpolant is the old state at θ = 0 and the accepted state at θ = 1. -/
theorem C06_dopri5_endpoints {K : Type} [Field K] [LinearOrder K] [IsStrictOrderedRing K] [SqrtPow K] {n : Nat}
    (y1 y k1 k2 c4 : Vector K n) (xold h : K) (hh : h ≠ 0) :
    let d := Gen.Dopri5.dense (y1 := y1) (y := y) (h := h) (k1 := k1) (k2 := k2)
    Gen.Dopri5.interpolate (xi := xold) (xold := xold) (h := h) (cont0 := d.cont0) (cont1 := d.cont1) (cont2 := d.cont2)
        (cont3 := d.cont3) (cont4 := c4) = y
    ∧ Gen.Dopri5.interpolate (xi := xold + h) (xold := xold) (h := h) (cont0 := d.cont0) (cont1 := d.cont1)
        (cont2 := d.cont2) (cont3 := d.cont3) (cont4 := c4) = y1 := by
  intro d
  refine ⟨?_, (dopri5_interp_right y1 y k1 k2 c4 xold h hh).1⟩
  rw [dopri5_interp_left]
  exact (dopri5_interp_right y1 y k1 k2 c4 xold h hh).2

/-! ### segment lookup: `ContinuousOutput` and `Solution::sol` / `sol_many` / `sol_span`

  The comparisons and literals are the regenerated `Gen.Cont.*`; `ContM` is tied to the code by X-cont.  A run's segments
  form a `Chain` (each starts where the previous one ended; steps have the sign of the direction) — that is what the
  callback protocol (C19) delivers to the handler, whose collection rule is `SolOutM.denseCollect`. -/
namespace ContM
open Gen.Cont
noncomputable section
variable {K : Type} [Field K] [LinearOrder K] [IsStrictOrderedRing K] [SqrtPow K]

/-- dense output disabled, or nothing collected: NotEnabled, never a value -/
theorem c06_not_enabled (t : K) (ts : List K) :
    sol (none : Option (List (Seg K))) t = .notEnabled ∧ sol (some ([] : List (Seg K))) t = .notEnabled ∧
    solMany (none : Option (List (Seg K))) ts = .notEnabled ∧ solMany (some ([] : List (Seg K))) ts = .notEnabled ∧
    solSpan (none : Option (List (Seg K))) = none := ⟨rfl, rfl, rfl, rfl, rfl⟩

/-- the slack of the range test of `Solution::sol`: the larger of the slacks of the two ends of the span -/
def spanSlack (x e : K) : K := max (tol (min x e)) (tol (max x e))

/-- no gaps: on the segments of a run, `sol_span` is (start, end); `sol t` succeeds for every `t` of the closed span
    widened at each end by the slack `time_tol` of that end (so also for a last sample that sits a rounding error beyond `xold + h` of
    its segment) and is evaluated by a segment whose closed interval (± that segment's slack) contains `t`; beyond the span widened
    by the slack of its larger end it is OutOfRange (in between, either).  Both directions, any number of steps, any step sizes. -/
theorem c06_cover (fwd : Bool) (x : K) (s : Seg K) (r : List (Seg K)) (hc : Chain fwd x (s :: r)) (t : K) :
    let e := endOf x (s :: r)
    solSpan (some (s :: r)) = some (x, e) ∧ x ≠ e ∧
    (min x e - tol (min x e) ≤ t → t ≤ max x e + tol (max x e) →
      ∃ s' ∈ s :: r, sol (some (s :: r)) t = .ok s'.id ∧
        min s'.xold (s'.xold + s'.h) - segSlack s' ≤ t ∧
        t ≤ max s'.xold (s'.xold + s'.h) + segSlack s') ∧
    ((t < min x e - spanSlack x e ∨ max x e + spanSlack x e < t) → sol (some (s :: r)) t = .outOfRange) := by
  intro e
  have hspan := tSpan_chain fwd x s r hc
  have hstrict := endOf_strict fwd x s r hc
  refine ⟨hspan, ?_, ?_, ?_⟩
  · cases fwd <;> simp only [if_true, if_false, Bool.false_eq_true] at hstrict
    · exact ne_of_gt hstrict
    · exact ne_of_lt hstrict
  · intro h1 h2
    have hex : ∃ a ∈ s :: r, hit t a = true := chain_cover_tol fwd x s r hc t h1 h2
    obtain ⟨s', hf⟩ := findSeg_complete (s :: r) t hex
    obtain ⟨hm', hh'⟩ := findSeg_sound (s :: r) t s' hf
    refine ⟨s', hm', ?_, (hit_iff t s').mp hh'⟩
    unfold sol
    dsimp only
    rw [hspan]
    have hno : ¬ outside t (spanLo x (endOf x (s :: r))) (spanHi x (endOf x (s :: r))) (segTol (tol (spanLo x (endOf x (s :: r)))) (tol (spanHi x (endOf x (s :: r))))) := by
      unfold outside spanLo spanHi segTol
      simp only [num_fmin, num_fmax, gt_iff_lt, not_or, not_lt]
      have a1 : tol (min x (endOf x (s :: r))) ≤ max (tol (min x (endOf x (s :: r)))) (tol (max x (endOf x (s :: r)))) := le_max_left _ _
      have a2 : tol (max x (endOf x (s :: r))) ≤ max (tol (min x (endOf x (s :: r)))) (tol (max x (endOf x (s :: r)))) := le_max_right _ _
      constructor <;> linarith
    simp only [hno, if_false]
    rw [hf]
  · intro hout
    unfold sol
    dsimp only
    rw [hspan]
    have : outside t (spanLo x (endOf x (s :: r))) (spanHi x (endOf x (s :: r))) (segTol (tol (spanLo x (endOf x (s :: r)))) (tol (spanHi x (endOf x (s :: r))))) := by
      unfold outside spanLo spanHi segTol
      simpa only [num_fmin, num_fmax, gt_iff_lt, spanSlack] using hout
    simp only [this, if_true]

/-- the evaluating segment is the first one (in step order) that contains `t`; if none contains it, the first one that
    contains it within the lookup slack -/
theorem c06_first_hit (segs : List (Seg K)) (t : K) (s : Seg K) (h : findSeg segs t = some s) :
    hit t s = true ∧ ∃ before after, segs = before ++ s :: after ∧
      ((hitExact t s = true ∧ ∀ a ∈ before, hitExact t a = false) ∨
       ((∀ a ∈ segs, hitExact t a = false) ∧ ∀ a ∈ before, hit t a = false)) := by
  have hs := findSeg_sound segs t s h
  refine ⟨hs.2, ?_⟩
  unfold findSeg at h
  split at h
  · rename_i s' hf
    injection h with h; subst h
    obtain ⟨hh, before, after, hsplit, hb⟩ := List.find?_eq_some_iff_append.mp hf
    exact ⟨before, after, hsplit, Or.inl ⟨hh, fun a ha => by simpa using hb a ha⟩⟩
  · rename_i hnone
    obtain ⟨hh, before, after, hsplit, hb⟩ := List.find?_eq_some_iff_append.mp h
    refine ⟨before, after, hsplit, Or.inr ⟨?_, fun a ha => by simpa using hb a ha⟩⟩
    intro a ha
    have := List.find?_eq_none.mp hnone a ha
    simpa using this

/-- `sol_many` has no `unwrap()` on `None` any more: on any segment list it answers OutOfRange, NotEnabled or one value per point,
    and on the segments of a run it returns one value per point whenever every point lies in the span widened at each end by the
    slack of that end -/
theorem c06_many_no_panic (fwd : Bool) (x : K) (s : Seg K) (r : List (Seg K)) (hc : Chain fwd x (s :: r)) (ts : List K) :
    solMany (some (s :: r)) ts ≠ .panic ∧
    ((∀ t ∈ ts, min x (endOf x (s :: r)) - tol (min x (endOf x (s :: r))) ≤ t ∧ t ≤ max x (endOf x (s :: r)) + tol (max x (endOf x (s :: r)))) →
      ∃ ids, solMany (some (s :: r)) ts = .ok ids ∧ ids.length = ts.length) := by
  have hspan := tSpan_chain fwd x s r hc
  constructor
  · unfold solMany
    dsimp only
    rw [hspan]
    dsimp only
    split
    · intro h; cases h
    · split <;> (intro h; cases h)
  · intro hall
    have hno : ∀ t ∈ ts, ¬ outside t (spanLo x (endOf x (s :: r))) (spanHi x (endOf x (s :: r))) (segTol (tol (spanLo x (endOf x (s :: r)))) (tol (spanHi x (endOf x (s :: r))))) := by
      intro t ht
      obtain ⟨h1, h2⟩ := hall t ht
      unfold outside spanLo spanHi segTol
      simp only [num_fmin, num_fmax, gt_iff_lt, not_or, not_lt]
      have a1 : tol (min x (endOf x (s :: r))) ≤ max (tol (min x (endOf x (s :: r)))) (tol (max x (endOf x (s :: r)))) := le_max_left _ _
      have a2 : tol (max x (endOf x (s :: r))) ≤ max (tol (min x (endOf x (s :: r)))) (tol (max x (endOf x (s :: r)))) := le_max_right _ _
      constructor <;> linarith
    have hany : ts.any (fun t => decide (outside t (spanLo x (endOf x (s :: r))) (spanHi x (endOf x (s :: r))) (segTol (tol (spanLo x (endOf x (s :: r)))) (tol (spanHi x (endOf x (s :: r))))))) = false := by
      rw [List.any_eq_false]; intro t ht; simpa using hno t ht
    have hsome : ∀ t ∈ ts, ∃ c, (fun t => (findSeg (s :: r) t).map (·.id)) t = some c := by
      intro t ht
      obtain ⟨h1, h2⟩ := hall t ht
      have hex : ∃ a ∈ s :: r, hit t a = true := chain_cover_tol fwd x s r hc t h1 h2
      obtain ⟨s', hf⟩ := findSeg_complete (s :: r) t hex
      exact ⟨s'.id, by simp [hf]⟩
    obtain ⟨ids, hids, hlen⟩ := mapM_some _ ts hsome
    refine ⟨ids, ?_, hlen⟩
    unfold solMany; dsimp only; rw [hspan]; simp only [hany]; rw [hids]; rfl

/-- `from_segments` drops the handler's zero-length steps and keeps a gap-free chain with the same ends -/
theorem c06_from_segments (fwd : Bool) (x : K) (raw : List (Seg K)) (hw : WeakChain fwd x raw) :
    Chain fwd x (fromSegments raw) ∧ endOf x (fromSegments raw) = endOf x raw := fromSegments_chain fwd x raw hw

/-- the zero-interval / empty-state shortcut: one tiny forward segment at `x0`; `sol x0` succeeds -/
theorem c06_constant (x0 : K) :
    Chain true x0 (constant x0) ∧ sol (some (constant x0)) x0 = .ok 0 := by
  have hpos : (0 : K) < constH := by unfold constH; rw [num_lit]; positivity
  have hc : Chain true x0 (constant x0) := ⟨rfl, by simpa [stepPos] using hpos, trivial⟩
  refine ⟨hc, ?_⟩
  obtain ⟨_, _, hcov, _⟩ := c06_cover true x0 ⟨0, x0, constH⟩ [] hc x0
  have he : endOf x0 [(⟨0, x0, constH⟩ : Seg K)] = x0 + constH := rfl
  have htp1 := tol_pos (min x0 (endOf x0 [(⟨0, x0, constH⟩ : Seg K)]))
  have htp2 := tol_pos (max x0 (endOf x0 [(⟨0, x0, constH⟩ : Seg K)]))
  obtain ⟨s', hm, hs, _⟩ := hcov
    (by have := min_le_left x0 (endOf x0 [(⟨0, x0, constH⟩ : Seg K)]); linarith)
    (by have := le_max_left x0 (endOf x0 [(⟨0, x0, constH⟩ : Seg K)]); linarith)
  simp only [List.mem_singleton] at hm
  rw [hm] at hs
  exact hs

/-- non-vacuity: three forward steps from 0 form a chain; a backward pair too -/
example : Chain true (0 : ℚ) [⟨0, 0, 1⟩, ⟨1, 1, 2⟩, ⟨2, 3, 1/2⟩] ∧ Chain false (5 : ℚ) [⟨0, 5, -1⟩, ⟨1, 4, -3⟩] := by
  refine ⟨⟨rfl, by simp [stepPos], by norm_num, by simp [stepPos], by norm_num, by simp [stepPos], trivial⟩,
          ⟨rfl, by simp [stepPos], by norm_num, by simp [stepPos], trivial⟩⟩

end
end ContM

/-! ### the handler's collection rule (`DefaultSolOut::solout`, "Dense Output Collection") -/
namespace SolOutM
noncomputable section
variable {K : Type} [Field K] [LinearOrder K] [IsStrictOrderedRing K] [SqrtPow K]

/-- one callback appends the step's `(xold, h)` to the collected segments exactly when collection is on, the callback
    reports a step (`x ≠ xold`, any length), an interpolant was passed and its `h ≠ 0`; nothing else in the callback
    (events, terminal early return, sampling, first-step enforcement) touches the list -/
theorem c06_collect (L : Lits K) (hz : L.zero = 0) (gEv : K → Array K → Array K) (s : St K) (xold x : K) (y : Array K)
    (ip : Option (Interp K)) (s' : St K) (f : Flag) (h : step L gEv s xold x y ip = some (s', f)) :
    s'.denseSegs =
      match ip with
      | some i => if s.collectDense = true ∧ x ≠ xold ∧ i.h ≠ 0 then s.denseSegs.push (i.xold, i.h) else s.denseSegs
      | none => s.denseSegs := by
  have hd : (denseCollect L s xold x ip).denseSegs =
      match ip with
      | some i => if s.collectDense = true ∧ x ≠ xold ∧ i.h ≠ 0 then s.denseSegs.push (i.xold, i.h) else s.denseSegs
      | none => s.denseSegs := by
    unfold denseCollect
    cases ip with
    | none => rfl
    | some i =>
      have e1 : (Num.eqb x xold = false) ↔ x ≠ xold := by
        constructor
        · intro hb he; rw [← num_eqb] at he; rw [he] at hb; exact absurd hb (by decide)
        · intro hne; cases hb : Num.eqb x xold with
          | false => rfl
          | true => exact absurd ((num_eqb x xold).mp hb) hne
      have e2 : (Num.eqb i.h L.zero = false) ↔ i.h ≠ 0 := by
        rw [hz]
        constructor
        · intro hb he; rw [← num_eqb] at he; rw [he] at hb; exact absurd hb (by decide)
        · intro hne; cases hb : Num.eqb i.h (0 : K) with
          | false => rfl
          | true => exact absurd ((num_eqb i.h 0).mp hb) hne
      simp only [e1, e2]
      split_ifs <;> rfl
  rw [← hd]
  unfold step at h
  split at h
  · cases h
  · rename_i s1 he
    injection h with h; injection h with h1 _
    rw [← h1]; exact eventPhase_denseSegs L gEv _ xold x y ip _ _ he
  · rename_i s1 he
    split at h
    · rename_i s2 ho
      injection h with h; injection h with h1 _
      rw [← h1, outputPhase_denseSegs _ _ _ _ _ _ ho]
      exact eventPhase_denseSegs L gEv _ xold x y ip s1 false he
    · cases h

end
end SolOutM

/-! ### BDF: the interpolant and the history rescaling (`Model/BdfNum.lean`, tied by the full co-simulation X-bdfnum)

  One component of `BDF::interpolate` is `interpScalar order c xi x_new h` with `c k` the k-th entry of the component's
  dense block (`denseCont_get`: the difference column up to `order`).  `bdiff j v` are the backward differences of the
  accepted values `v 0, v 1, …` (newest first), which is what the difference arrays hold (`update_bdiff`). -/
namespace BdfNum
noncomputable section
variable {K : Type} [Field K] [LinearOrder K] [IsStrictOrderedRing K] [SqrtPow K]

/-- the BDF step interpolant equals the stored state at both ends of its step: the accepted state at `x_new = xold + h`
    and the previous accepted state at `xold`, for every order 1..5 and every `h ≠ 0` of either sign -/
theorem c06_bdf_interp_ends (L : NLits K) (hL : LitOK L) (v : Nat → K) (xold h : K) (hh : h ≠ 0) (order : Nat)
    (ho : 1 ≤ order) (ho5 : order ≤ 5) :
    interpScalar L order (fun j => bdiff j v) (xold + h) (xold + h) h = v 0 ∧
    interpScalar L order (fun j => bdiff j v) xold (xold + h) h = v 1 := by
  constructor
  · have := interp_nodes L hL v (xold + h) h hh order 0 ho ho5 (Nat.zero_le _)
    simpa using this
  · have := interp_nodes L hL v (xold + h) h hh order 1 ho ho5 ho
    have e : xold + h - ((1 : Nat) : K) * h = xold := by push_cast; ring
    rw [e] at this; exact this

/-- BDF history rescaling preserves the interpolating polynomial (orders 1..5, every factor ≠ 0, every point) and leaves
    `D[0]`, the current state, alone -/
theorem c06_bdf_change_d (L : NLits K) (hL : LitOK L) (dcol : Nat → K) (f h xi xNew : K) (hf : f ≠ 0) (hh : h ≠ 0) (order : Nat)
    (ho : 1 ≤ order) (ho5 : order ≤ 5) :
    interpScalar L order (changedEntry L order f dcol) xi xNew (f * h) = interpScalar L order dcol xi xNew h ∧
    changedEntry L order f dcol 0 = dcol 0 :=
  ⟨changeD_poly L hL dcol f h xi xNew hf hh order ho ho5, changeD_keeps_d0 L hL dcol f order ho ho5⟩

end
end BdfNum

/-! ### Radau: the step interpolant at the ends of its step (`Model/RadauNum.lean`, tied by the full co-simulation X-radaunum) -/
namespace RadauNum
noncomputable section
variable {K : Type} [Field K] [LinearOrder K] [IsStrictOrderedRing K] [SqrtPow K]

/-- with the dense coefficients built from the stage increments of an accepted step, the interpolant is the state before
    the step at `xi = xold` and the accepted state at `xi = xold + h` (every `h ≠ 0`, every component) -/
theorem c06_radau_interp_ends (yold z1 z2 z3 xold h : K) (hh : h ≠ 0) :
    let d := denseCoeffs yold z1 z2 z3
    interpScalar ((xold - (xold + h)) / h) d.1 d.2.1 d.2.2.1 d.2.2.2 = yold ∧
    interpScalar (((xold + h) - (xold + h)) / h) d.1 d.2.1 d.2.2.1 d.2.2.2 = d.1 ∧ d.1 = yold + z3 := by
  intro d
  have h1 : (xold - (xold + h)) / h = -1 := by field_simp; ring
  have h2 : ((xold + h) - (xold + h)) / h = 0 := by simp
  obtain ⟨e1, _, _, e4, e5⟩ := interp_collocation yold z1 z2 z3
  rw [h1, h2]
  exact ⟨e1, by rw [e4]; exact e5.symm, e5⟩

end
end RadauNum
