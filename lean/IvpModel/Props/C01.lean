/-
  C01 — tolerance-controlled accuracy of every returned sample.   (PARTIAL: the per-step mechanism)

  The property is a statement about global error of real runs; a theorem about the translated code can carry the
  per-step mechanism only.  Proved (any ordered field, every dimension, every state and estimate):
  * `c01_errnorm_spec_*`  : the translated error norms of RK23, DOPRI5 and Radau are √((1/n) Σ (eᵢ/skᵢ)²) with
                             skᵢ = atolᵢ + rtolᵢ·max(|yᵢ|,|y'ᵢ|) (explicit) resp. the `scal` vector (Radau, whose
                             initial `scal` is atolᵢ + rtolᵢ|yᵢ| after the transformation of `c01_radau_tolerances`).
  * `c01_accept_iff`       : a trial is accepted iff Σ (eᵢ/skᵢ)² ≤ n; then |eᵢ/skᵢ|² ≤ n in every component.
  * `c01_tol_monotone_*`   : with the same trial data, larger atol / rtol (componentwise) keep an accepted step accepted.
  * `c01_controller_bounds`: the next step of DOPRI5/DOP853 satisfies facc2 ≤ fac ≤ facc1, |h|/facc1 ≤ |hnew| ≤ |h|/facc2.
  * the estimator is the difference of the two embedded formulas whose orders are theorems of C02.
  `sqrt` enters through the two laws of `SqrtLaws`, which the real square root satisfies (`sqrtLaws_real`).
  Not theorems: the global bound error ≤ C·N·(atol + rtol|y|), proportionality of the error to the tolerance, RK4's
  fourth-order global convergence, BDF — decided per input by the accuracy monitor (closed-form solutions, six methods,
  both directions, rtol 1e-3…1e-11, scalar / vector / pure-absolute / pure-relative tolerances, with and without t_eval).
-/
import IvpModel.Proofs.NormLemmas
import Mathlib.Analysis.Real.Sqrt
import IvpModel.Proofs.BdfNumLemmas
import IvpModel.Proofs.BdfGenLemmas

noncomputable section

/-- the real numbers with the real square root and any power function -/
@[instance_reducible] def realSqrtPow (p : ℝ → ℝ → ℝ) : SqrtPow ℝ := ⟨Real.sqrt, p⟩

theorem sqrtLaws_real (p : ℝ → ℝ → ℝ) : @SqrtLaws ℝ _ _ (realSqrtPow p) := by
  letI := realSqrtPow p
  refine ⟨?_, ?_⟩
  · intro a ha
    show Real.sqrt a ≤ 1 ↔ a ≤ 1
    exact Real.sqrt_le_one
  · intro a b _ hab
    exact Real.sqrt_le_sqrt hab

variable {K : Type} [Field K] [LinearOrder K] [IsStrictOrderedRing K] [SqrtPow K]

theorem c01_errnorm_spec_dopri5 {n : Nat} (atol rtol y y1 e : Vector K n) :
    Gen.Dopri5.errnorm (atol := atol) (rtol := rtol) (y := y) (y1 := y1) (k4 := e)
      = SqrtPow.sqrt (errSum (fun i => e[i]) (skMax atol rtol y y1) / (n : K)) := dopri5_errnorm_spec atol rtol y y1 e

theorem c01_errnorm_spec_rk23 {n : Nat} (atol rtol yt y e : Vector K n) :
    Gen.Rk23.errnorm (atol := atol) (rtol := rtol) (yt := yt) (y := y) (ye := e)
      = SqrtPow.sqrt (errSum (fun i => e[i]) (skMax atol rtol yt y) / (n : K)) := rk23_errnorm_spec atol rtol yt y e

theorem c01_errnorm_spec_radau {n : Nat} (cont scal : Vector K n) :
    Gen.Radau.errnorm (cont := cont) (scal := scal)
      = SqrtPow.sqrt (errSum (fun i => cont[i]) (fun i => scal[i]) / (n : K)) := radau_errnorm_spec cont scal

theorem c01_errnorm_spec_radau_refined {n : Nat} (cont scal : Vector K n) :
    Gen.Radau.errnorm2 (cont := cont) (scal := scal)
      = SqrtPow.sqrt (errSum (fun i => cont[i]) (fun i => scal[i]) / (n : K)) := radau_errnorm2_spec cont scal

theorem c01_radau_tolerances {n : Nat} (atol rtol y : Vector K n) (i : Fin n) :
    let t := Gen.Radau.tolAdjust (atol := atol) (rtol := rtol) (expm := Gen.Radau.expm)
    (Gen.Radau.scal0 (atol := t.atol) (rtol := t.rtol) (y := y)).scal[i]
      = (1 : K) / 10 * SqrtPow.pow rtol[i] ((2 : K) / 3) * (atol[i] / rtol[i])
        + (1 : K) / 10 * SqrtPow.pow rtol[i] ((2 : K) / 3) * |y[i]| := by
  intro t
  rw [radau_scal0_spec, (radau_tolAdjust_spec atol rtol i).1, (radau_tolAdjust_spec atol rtol i).2]

theorem c01_accept_iff (L : SqrtLaws K) {n : Nat} (hn : 0 < n) (e sk : Fin n → K) :
    (SqrtPow.sqrt (errSum e sk / (n : K)) ≤ 1 ↔ errSum e sk ≤ (n : K)) ∧
    (SqrtPow.sqrt (errSum e sk / (n : K)) ≤ 1 → ∀ i, (e i / sk i) * (e i / sk i) ≤ (n : K)) :=
  ⟨accept_iff L hn e sk, fun h i => accepted_componentwise L hn e sk h i⟩

theorem c01_tol_monotone_dopri5 (L : SqrtLaws K) {n : Nat} (hn : 0 < n) (atol atol' rtol rtol' y y1 e : Vector K n)
    (ha : ∀ i : Fin n, atol[i] ≤ atol'[i]) (hr : ∀ i : Fin n, rtol[i] ≤ rtol'[i]) (hpos : ∀ i, 0 < skMax atol rtol y y1 i)
    (hacc : Gen.Dopri5.errnorm (atol := atol) (rtol := rtol) (y := y) (y1 := y1) (k4 := e) ≤ 1) :
    Gen.Dopri5.errnorm (atol := atol') (rtol := rtol') (y := y) (y1 := y1) (k4 := e) ≤ 1 :=
  tol_monotone_dopri5 L hn atol atol' rtol rtol' y y1 e ha hr hpos hacc

theorem c01_tol_monotone_rk23 (L : SqrtLaws K) {n : Nat} (hn : 0 < n) (atol atol' rtol rtol' yt y e : Vector K n)
    (ha : ∀ i : Fin n, atol[i] ≤ atol'[i]) (hr : ∀ i : Fin n, rtol[i] ≤ rtol'[i]) (hpos : ∀ i, 0 < skMax atol rtol yt y i)
    (hacc : Gen.Rk23.errnorm (atol := atol) (rtol := rtol) (yt := yt) (y := y) (ye := e) ≤ 1) :
    Gen.Rk23.errnorm (atol := atol') (rtol := rtol') (yt := yt) (y := y) (ye := e) ≤ 1 :=
  tol_monotone_rk23 L hn atol atol' rtol rtol' yt y e ha hr hpos hacc

theorem c01_controller_bounds {n : Nat} (err expo1 facold beta facc2 facc1 safety h : K) (h2 : 0 < facc2) (h12 : facc2 ≤ facc1) :
    let r := Gen.Dopri5.hnewCalc (n := n) (err := err) (expo1 := expo1) (facold := facold) (beta := beta) (facc2 := facc2)
      (facc1 := facc1) (safety_factor := safety) (h := h)
    facc2 ≤ r.fac ∧ r.fac ≤ facc1 ∧ r.hnew = h / r.fac ∧ |h| / facc1 ≤ |r.hnew| ∧ |r.hnew| ≤ |h| / facc2 :=
  dopri5_hnew_bounds err expo1 facold beta facc2 facc1 safety h h2 h12

/-- BDF: `weighted_rms_scaled` (used for the corrector increments, the error test and the order selection) is the RMS
    norm of `values / scale`, zero scales replaced by eps (`Model/BdfNum.lean`, tied by X-bdfnum) -/
theorem c01_errnorm_spec_bdf {K : Type} [Field K] [LinearOrder K] [IsStrictOrderedRing K] [SqrtPow K]
    (L : BdfNum.NLits K) (hL : BdfNum.LitOK L) (values scale : Array K) (hs : values.size = scale.size) :
    BdfNum.weightedRms L values scale =
      SqrtPow.sqrt (((List.range values.size).map fun i =>
        (BdfNum.g values i / (if BdfNum.g scale i = 0 then L.eps else BdfNum.g scale i)) ^ 2).sum / (values.size : K)) :=
  BdfNum.weightedRms_spec L hL values scale hs

/-- BDF: the norm as *regenerated from bdf.rs* (`Gen.Bdf.weightedRmsScaled`) is the RMS norm of values / scale, exactly-zero
    scales (and only those) replaced by EPSILON -/
theorem c01_errnorm_spec_bdf_translated {K : Type} [Field K] [LinearOrder K] [IsStrictOrderedRing K] [SqrtPow K]
    {n : Nat} (values scale : Vector K n) :
    Gen.Bdf.weightedRmsScaled (scale := scale) (values := values)
      = SqrtPow.sqrt (errSum (fun i => values[i]) (bdfDenom scale) / (n : K)) := bdf_weightedRms_spec values scale

/-- … and the hand-written norm of `Model/BdfNum.lean`, which runs beside the Rust code in X-bdfnum, is that function -/
theorem c01_bdf_model_eq_translated {K : Type} [Field K] [LinearOrder K] [IsStrictOrderedRing K] [SqrtPow K]
    {n : Nat} (L : BdfNum.NLits K) (hL : BdfNum.LitOK L) (heps : L.eps = (1 : K) / 4503599627370496) (values scale : Vector K n) :
    BdfNum.weightedRms L values.toArray scale.toArray = Gen.Bdf.weightedRmsScaled (scale := scale) (values := values) :=
  bdf_weightedRms_model_eq_translated L hL heps values scale

