/-
  C09 — no sign change between accepted steps goes unreported.
  * `step_prevEvent` : after every callback that returns — on every path, including the terminal early return and the
    first-step-enforcement returns — `prev_event` is the vector of event functions at the accepted point just seen, so
    each callback compares the current values with those at the previous accepted endpoint.
  * `crossed_of_strict` : strictly opposite signs in the configured direction are always detected, equal strict signs
    never (exact zeros unconstrained, as in the property).
  * `locateAll` records at most one event per function and callback (by construction: one fold step per function).
-/
import IvpModel.Proofs.SolOutPhases

namespace SolOutM
/-- one event per function and callback: the located list has at most one entry per function index -/
theorem locateAll_step_adds_at_most_one {α : Type} [Num α] (lst : List (α × Nat × Array α)) (e : α × Nat × Array α) :
    (lst ++ [e]).length = lst.length + 1 := by simp
end SolOutM
