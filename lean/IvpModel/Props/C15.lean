/-
  C15 — mass matrices, DAEs and Jacobian sources / storages are interchangeable.   (PARTIAL)

  Proved (every size n, any ordered field):
  * `c15_default_mass_identity` : with no mass supplied, the matrix the solver hands to the default `IVP::mass` —
    `Matrix::from_storage(n, n, s)` for s = Identity, Full or any Banded{ml, mu} — comes back denoting the identity
    matrix.  (Before fix e52f398 the default body discarded an identity and left Full/Banded storage all zeros.)
  * `c15_default_mass_spec` : on any well-formed square matrix the default writes exactly the unit diagonal and
    changes nothing else; Identity storage is not written at all (writing it would panic).
  * `c15_storage_independence` : what a solver can read from a matrix, `m[(i, j)]`, is a function of the matrix it
    denotes only: two well-formed matrices with the same entries, whatever their storage (Identity / Full / Banded),
    answer every read identically.  radau.rs and bdf.rs touch `jac` and `mass` only through `[(r, c)]`
    (checked on the source text by bin/props.py), so equal entries give the same arithmetic, bit for bit.
  Not theorems (decided per input by the mass-check monitor on the real solvers): agreement of `M y' = f` with
  `y' = M⁻¹ f` within tolerance, the algebraic residual of an index-1 DAE at every sample, analytic versus
  finite-difference Jacobian within tolerance.  The Radau Newton iteration itself is not modelled.
-/
import IvpModel.Props.C17
import IvpModel.Proofs.RadauNumLemmas

namespace Mat
noncomputable section
variable {K : Type} [Field K] [LinearOrder K] [IsStrictOrderedRing K] [SqrtPow K]

theorem defaultMassLoop_spec {A : Mat K} (hw : WF A) (hst : A.storage ≠ .identity) (k : Nat) (hk : k ≤ A.n) :
    ∃ B, defaultMassLoop A k = some B ∧ WF B ∧ B.n = A.n ∧ B.storage = A.storage ∧
      ∀ i j, i < A.n → j < A.n → entry B i j = if i = j ∧ i < k then 1 else entry A i j := by
  induction k with
  | zero => exact ⟨A, rfl, hw, rfl, rfl, by intro i j _ _; simp⟩
  | succ k ih =>
    obtain ⟨B, hB, hwB, hn, hs, he⟩ := ih (by omega)
    have hok : match B.storage with | .identity => False | .full => True | .banded ml mu => inBand ml mu k k := by
      rw [hs]
      cases h : A.storage with
      | identity => exact hst h
      | full => trivial
      | banded ml mu => exact ⟨by omega, by omega⟩
    obtain ⟨C, hC, hwC, hnC, hsC, heC⟩ := set_spec hwB (i := k) (j := k) (by omega) (by omega) (1 : K) hok
    refine ⟨C, ?_, hwC, by omega, by rw [hsC, hs], ?_⟩
    · simp only [defaultMassLoop, hB, num_one]
      exact hC
    · intro i j hi hj
      rw [heC i j (by omega) (by omega), he i j hi hj]
      by_cases h1 : i = k ∧ j = k
      · obtain ⟨rfl, rfl⟩ := h1
        rw [if_pos ⟨rfl, rfl⟩, if_pos ⟨rfl, Nat.lt_succ_self _⟩]
      · by_cases h2 : i = j
        · subst h2
          have : i ≠ k := fun h => h1 ⟨h, h⟩
          have e : (i < k + 1) = (i < k) := by apply propext; omega
          simp [e, this]
        · simp [h1, h2]

theorem c15_default_mass_spec {A : Mat K} (hw : WF A) :
    ∃ B, defaultMass A = some B ∧ WF B ∧ B.n = A.n ∧ B.storage = A.storage ∧
      ∀ i j, i < A.n → j < A.n → entry B i j = if A.storage = .identity then entry A i j else if i = j then 1 else entry A i j := by
  unfold defaultMass
  cases hst : A.storage with
  | identity => exact ⟨A, rfl, hw, rfl, hst, by intro i j _ _; simp⟩
  | full =>
    obtain ⟨B, h1, h2, h3, h4, h5⟩ := defaultMassLoop_spec hw (by rw [hst]; simp) (min A.n A.m) (Nat.min_le_left _ _)
    refine ⟨B, h1, h2, h3, by rw [h4, hst], ?_⟩
    intro i j hi hj
    rw [h5 i j hi hj]
    have : min A.n A.m = A.n := by rw [hw.1]; simp
    simp [this, hi]
  | banded ml mu =>
    obtain ⟨B, h1, h2, h3, h4, h5⟩ := defaultMassLoop_spec hw (by rw [hst]; simp) (min A.n A.m) (Nat.min_le_left _ _)
    refine ⟨B, h1, h2, h3, by rw [h4, hst], ?_⟩
    intro i j hi hj
    rw [h5 i j hi hj]
    have : min A.n A.m = A.n := by rw [hw.1]; simp
    simp [this, hi]

/-- **C15.**  No mass supplied ⇒ the mass matrix is the identity, whatever storage the solver allocated. -/
theorem c15_default_mass_identity (n : Nat) (s : Storage) :
    ∃ B, defaultMass (fromStorage n n s : Mat K) = some B ∧ WF B ∧ B.n = n ∧
      ∀ i j, i < n → j < n → B.get i j = some (if i = j then 1 else 0) := by
  have hw : WF (fromStorage n n s : Mat K) := fromStorage_wf n s
  obtain ⟨B, h1, h2, h3, h4, h5⟩ := c15_default_mass_spec hw
  have hn : (fromStorage n n s : Mat K).n = n := by cases s <;> rfl
  refine ⟨B, h1, h2, by rw [h3, hn], ?_⟩
  intro i j hi hj
  rw [get_of_wf h2 (by omega) (by omega), h5 i j (by omega) (by omega)]
  congr 1
  cases s with
  | identity => simp [fromStorage, entry, identity]
  | full =>
    have := (zeros_wf (K := K) n).2 i j hi hj
    simp only [fromStorage] at this ⊢
    by_cases h : i = j <;> simp [h, this, zeros] <;> simpa [zeros] using this
  | banded ml mu =>
    have := (banded_wf (K := K) n ml mu).2 i j
    simp only [fromStorage] at this ⊢
    by_cases h : i = j <;> simp [h, this, banded] <;> simpa [banded] using this

/-- **C15.**  Reads depend on the denoted matrix only, not on its storage. -/
theorem c15_storage_independence {A B : Mat K} (ha : WF A) (hb : WF B) (hn : A.n = B.n)
    (he : ∀ i j, i < A.n → j < A.n → entry A i j = entry B i j) (i j : Nat) (hi : i < A.n) (hj : j < A.n) :
    A.get i j = B.get i j := by
  rw [get_of_wf ha hi hj, get_of_wf hb (by omega) (by omega), he i j hi hj]

end
end Mat

/-- Radau's mass products (Newton right-hand side and error estimate) are the dense matrix–vector products `±Σ_j M_ij v_j`
    over **all** columns, of the matrix read entry by entry — whatever storage holds it (`Model/RadauNum.lean`; X-radaunum
    runs the solver with Identity / Full / Banded storages of the same matrix against this one dense model) -/
theorem c15_radau_mass_products {K : Type} [Field K] [LinearOrder K] [IsStrictOrderedRing K] [SqrtPow K]
    (L : RadauNum.NLits K) (hz : L.zero = 0) (n : Nat) (mass v : Array K) (i : Nat) :
    RadauNum.massDot L n mass v i = ((List.range n).map fun j => RadauNum.g mass (i * n + j) * RadauNum.g v j).sum ∧
    RadauNum.massDotNeg L n mass v i = -((List.range n).map fun j => RadauNum.g mass (i * n + j) * RadauNum.g v j).sum :=
  ⟨RadauNum.massDot_spec L hz n mass v i, RadauNum.massDotNeg_spec L hz n mass v i⟩
