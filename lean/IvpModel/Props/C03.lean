/-
  C03 — interval discipline and honest status (DOPRI5/DOP853 skeleton; exact time arithmetic).
  * `hAdjust_lands` : a trial step that starts before `xend` and points toward it ends at or before `xend`, exactly at
    `xend` when the last-step flag is raised, and still points toward `xend` (strict monotonicity of accepted times).
  * `hIter_success_at_xend`, `hLoop_success_at_xend` : `Success` is returned only when the accepted point is `xend`.
  * `c03_success_is_xend_hairer`, `rk4Loop_success_exact`, `rk23Loop_success_exact`, `RadauCtl.run_success_exact` : the same for every
    instance of `Num` — no arithmetic is used since the landing step sets the time to `xend` itself (fix eaf3db1), so the
    statement covers the `Float` instance that runs beside the Rust code (RK23: `x = xend` or `x == xend`).
  * `SolOutM.runMode2_forward` (Proofs/SolOutMono.lean): at the output handler (solver-selected output), for every strictly
    increasing chain of accepted steps, every non-zero `first_step` and every interpolant, the recorded sample times are
    strictly increasing, start at `x0` and do not pass the end of the last step; `SolOutM.runMode2_backward`
    (Proofs/SolOutMonoBack.lean) is the mirror image for `xend < x0` (strictly decreasing, never below the last step end).  The non-monotone samples repaired in 3991143 were a failure of exactly this invariant.
  * `hSolve_protocol` (C19) : the accepted points form a chain from `x0`.
  * `rk23_landing_stage_at_xend`, `rk4_landing_stage_at_xend` : on the landing step the last stage of RK23 / RK4 is evaluated at
    `xend` itself (every arithmetic; before the repair it was `x + (xend − x)`, one ulp beyond xend for some spans).
  * `rowsum_*` (C02): stage times are `x + c_j h` with `0 ≤ c_j ≤ 1`, hence inside the step.
  RK23/RK4 landing, Radau/BDF, and the handler's sample bookkeeping are covered by co-simulation and the interval
  monitor (which found and led to the repair of eight defects, see known_findings.json).
  * RK23 and RK4 (`Proofs/CtlRkField.lean`): `rk23Adjust_lands`, `rk23Loop_success_at_xend`, `rk4Loop_success_at_xend` —
    the landing step ends at xend and Success is reported only there, for every right-hand side and observer.
  * Radau (`Proofs/RadauLemmas.lean`, control model tied by the X-radau trace co-simulation): `RadauCtl.pass_land`,
    `RadauCtl.run_success_at_xend`, `RadauCtl.start_land` — for every outcome of the factorisations, the Newton iteration, the
    error estimates and the callback, the landing flag is only raised on a step ending at xend and Success is reported only there.
    `RadauCtl.run_rinv` / `RadauCtl.start_rinv` (`Proofs/RadauStep.lean`): at the head of every pass the step points toward
    `xend` and `x + h` does not pass it (hypotheses: sign/monotonicity of `powf` at base ≥ 1, default-like settings).
  * BDF (`Proofs/BdfLemmas.lean`, control model tied by the X-bdf trace co-simulation): `BdfCtl.limits_spec`, `BdfCtl.pass_land`,
    `BdfCtl.run_success_at_xend`, `BdfCtl.start_inv` — the current point never passes xend, the landing step ends exactly
    there, Success is reported only there, for every oracle.
-/
import IvpModel.Proofs.BdfLemmas
import IvpModel.Proofs.RadauLemmas
import IvpModel.Proofs.CtlField
import IvpModel.Proofs.CtlRkField
import IvpModel.Props.C02
import IvpModel.Proofs.SolOutMono
import IvpModel.Proofs.SolOutMonoBack
import IvpModel.Proofs.RadauStep

/-! ### `Success` lands on `xend` itself — in every arithmetic

The landing step of every solver sets the new time to `xend` (fix eaf3db1; before, it was computed as `x + (xend − x)`,
which floating point does not make equal to `xend`).  The statements below therefore hold for every instance of `Num`,
in particular for the `Float` instance that is executed next to the Rust code, not just over ordered fields. -/
namespace Ctl
variable {α : Type} [Num α] {n : Nat}

/-- DOPRI5 / DOP853 (whole run, any kernel, right-hand side, observer, fuel): a run reported as `Success` ends at `xend`
    bit for bit -/
theorem c03_success_is_xend_hairer {σ : Type} (P : HParams α n) (Kn : HKernel α n) (f : Rhs α n) (ob : Obs σ α n) (obs0 : σ)
    (x0 : α) (y0 : Vec α n) (firstStep : Option α) (hinit : Rhs α n → Vec α n → α × Array (α × Vec α n)) (fo hl : α)
    (fuel : Nat) (r : Result σ α n) (h : hSolve P Kn f ob obs0 x0 y0 firstStep hinit fo hl fuel = some r)
    (hs : r.status = .success) : r.x = P.xend := by
  unfold hSolve at h
  split at h
  · rename_i r' heq
    injection h with h
    unfold hStart at heq
    dsimp only at heq
    split at heq
    · injection heq with heq; rw [← h, ← heq] at hs; cases hs
    · cases heq
  · rename_i s heq
    unfold hStart at heq
    dsimp only at heq
    split at heq
    · cases heq
    · injection heq with heq
      exact hLoop_success_at_xend P Kn f ob fuel s (by rw [← heq]) r h hs

end Ctl

namespace Ctl
variable {α : Type} [Num α] {n : Nat}

/-- **C03, evaluation times on the landing step (RK23, RK4; every arithmetic).**  The last stage of a step that lands on
    `xend` is evaluated at `xend` itself — not at `x + (xend − x)`, which binary64 can place one ulp beyond `xend`. -/
theorem rk23_landing_stage_at_xend (f : Nat → α → Vector α n → Vector α n) (y k1 : Vector α n) (x h xend : α) :
    ((Gen.Rk23.stages (f := f) (y := y) (h := h) (k1 := k1) (x := x) (last := true) (xend := xend)).calls[2]?).map (·.1) = some xend
    ∧ (Gen.Rk23.stages (f := f) (y := y) (h := h) (k1 := k1) (x := x) (last := true) (xend := xend)).xph = xend := by
  simp [Gen.Rk23.stages]

theorem rk4_landing_stage_at_xend (f : Nat → α → Vector α n → Vector α n) (y k1 : Vector α n) (x h xend : α) :
    ((Gen.Rk4.stages (f := f) (y := y) (h := h) (k1 := k1) (x := x) (last := true) (xend := xend)).calls[2]?).map (·.1) = some xend
    ∧ (Gen.Rk4.stages (f := f) (y := y) (h := h) (k1 := k1) (x := x) (last := true) (xend := xend)).xph = xend := by
  simp [Gen.Rk4.stages]
end Ctl
