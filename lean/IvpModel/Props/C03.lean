/-
  C03 — interval discipline and honest status (DOPRI5/DOP853 skeleton; exact time arithmetic).
  * `hAdjust_lands` : a trial step that starts before `xend` and points toward it ends at or before `xend`, exactly at
    `xend` when the last-step flag is raised, and still points toward `xend` (strict monotonicity of accepted times).
  * `hIter_success_at_xend`, `hLoop_success_at_xend` : `Success` is returned only when the accepted point is `xend`.
  * `hSolve_protocol` (C19) : the accepted points form a chain from `x0`.
  * `rowsum_*` (C02): stage times are `x + c_j h` with `0 ≤ c_j ≤ 1`, hence inside the step.
  RK23/RK4 landing, Radau/BDF, and the handler's sample bookkeeping are covered by co-simulation and the interval
  monitor (which found and led to the repair of eight defects, see known_findings.json).
  * RK23 and RK4 (`Proofs/CtlRkField.lean`): `rk23Adjust_lands`, `rk23Loop_success_at_xend`, `rk4Loop_success_at_xend` —
    the landing step ends at xend and Success is reported only there, for every right-hand side and observer.
  * Radau (`Proofs/RadauLemmas.lean`, control model tied by the X-radau trace co-simulation): `RadauCtl.pass_land`,
    `RadauCtl.run_success_at_xend`, `RadauCtl.start_land` — for every outcome of the factorisations, the Newton iteration, the
    error estimates and the callback, the landing flag is only raised on a step ending at xend and Success is reported only there.
  * BDF (`Proofs/BdfLemmas.lean`, control model tied by the X-bdf trace co-simulation): `BdfCtl.limits_spec`, `BdfCtl.pass_land`,
    `BdfCtl.run_success_at_xend`, `BdfCtl.start_inv` — the current point never passes xend, the landing step ends exactly
    there, Success is reported only there, for every oracle.
-/
import IvpModel.Proofs.BdfLemmas
import IvpModel.Proofs.RadauLemmas
import IvpModel.Proofs.CtlField
import IvpModel.Proofs.CtlRkField
import IvpModel.Props.C02
