/-
  C04 — termination, no panic, no non-finite Success (partial).
  * `hIter_reject_of_not_le`, `rk23Iter_reject_of_not_le` : a trial whose error norm does not satisfy `err ≤ 1` — in
    particular a NaN norm, for which every comparison is false — is never accepted: `x` and `y` stay, only `h` changes.
  * `rk23_reject_factor_nan` : RK23 shrinks by `scale_min` on a NaN norm (any number system with `isNaN`).
  * `hIter_cases` : every pass of the Hairer loop either exits, accepts or rejects; budget and underflow guards are the
    first tests of every pass (`hGuard`).
  Termination itself (well-founded descent of |h| under the underflow guard) is not proved; the hostile monitor runs
  blow-up / NaN / discontinuous / stiff problems on all six methods under a work budget.
-/
import IvpModel.Proofs.CtlField

namespace Ctl
variable {α : Type} [Num α] {n : Nat}

theorem hIter_reject_of_not_le {σ : Type} (P : HParams α n) (Kn : HKernel α n) (f : Rhs α n) (ob : Obs σ α n)
    (s : HState σ α n) (hg : hGuard P s = none) (hne : ¬ (hTrial P Kn f s (hAdjust P s).1).err ≤ P.one) :
    ∃ s', hIter P Kn f ob s = .inl s' ∧ s'.x = s.x ∧ s'.y = s.y ∧ s'.reject = true := by
  unfold hIter
  rw [hg]
  dsimp only
  rw [if_neg hne]
  exact ⟨_, rfl, rfl, rfl, rfl⟩

theorem rk23Iter_reject_of_not_le {σ : Type} (P : R23Params α n) (f : Rhs α n) (ob : Obs σ α n)
    (s : R23State σ α n) (hg : rk23Guard P s = none) (hne : ¬ (rk23Trial P f s (rk23Adjust P s)).err ≤ P.one) :
    ∃ s', rk23Iter P f ob s = .inl s' ∧ s'.x = s.x ∧ s'.y = s.y := by
  unfold rk23Iter
  rw [hg]
  dsimp only
  rw [if_neg hne]
  exact ⟨_, rfl, rfl, rfl⟩

/-- RK23: a NaN error norm shrinks the step by the largest allowed factor -/
theorem rk23_reject_factor_nan (safety err ee smin : α) (h : Num.isNaN err = true) :
    Gen.Rk23.hRejectFactor safety err ee smin = smin := by
  unfold Gen.Rk23.hRejectFactor
  rw [if_pos h]
end Ctl
