/-
  C04 — termination, no panic, no non-finite Success (partial).
  * `hIter_reject_of_not_le`, `rk23Iter_reject_of_not_le` : a trial whose error norm does not satisfy `err ≤ 1` — in
    particular a NaN norm, for which every comparison is false — is never accepted: `x` and `y` stay, only `h` changes.
  * `rk23_reject_factor_nan` : RK23 shrinks by `scale_min` on a NaN norm (any number system with `isNaN`).
  * `hIter_cases` : every pass of the Hairer loop either exits, accepts or rejects; budget and underflow guards are the
    first tests of every pass (`hGuard`).
  * `dopri5_guard_progress`, `dop853_guard_progress`, `rk23_guard_progress` : read in an ordered field, a step that passes
    the translated underflow guard is significant relative to the current abscissa — `|x|·uround < |h|/10`, hence `h ≠ 0`
    and `x + h ≠ x` — for every sign of `x` and `h`; `hGuard_none_progress` carries this to the loop head.
  Termination itself (well-founded descent of |h| under the underflow guard) is not proved; the hostile monitor runs
  blow-up / NaN / discontinuous / stiff problems on all six methods under a work budget.
-/
import IvpModel.Proofs.Termination
import IvpModel.Proofs.CtlField
import IvpModel.Proofs.RadauNumLemmas

namespace Ctl
variable {α : Type} [Num α] {n : Nat}

theorem hIter_reject_of_not_le {σ : Type} (P : HParams α n) (Kn : HKernel α n) (f : Rhs α n) (ob : Obs σ α n)
    (s : HState σ α n) (hg : hGuard P s = none) (hne : ¬ (hTrial P Kn f s (hAdjust P s).1 (hAdjust P s).2).err ≤ P.one) :
    ∃ s', hIter P Kn f ob s = .inl s' ∧ s'.x = s.x ∧ s'.y = s.y ∧ s'.reject = true := by
  unfold hIter
  rw [hg]
  dsimp only
  rw [if_neg hne]
  exact ⟨_, rfl, rfl, rfl, rfl⟩

theorem rk23Iter_reject_of_not_le {σ : Type} (P : R23Params α n) (f : Rhs α n) (ob : Obs σ α n)
    (s : R23State σ α n) (hg : rk23Guard P s = none) (hne : ¬ (rk23Trial P f s (rk23Adjust P s) (rk23Last P s)).err ≤ P.one) :
    ∃ s', rk23Iter P f ob s = .inl s' ∧ s'.x = s.x ∧ s'.y = s.y := by
  unfold rk23Iter
  rw [hg]
  dsimp only
  rw [if_neg hne]
  exact ⟨_, rfl, rfl, rfl⟩

/-- RK23: a NaN error norm shrinks the step by the largest allowed factor -/
theorem rk23_reject_factor_nan (safety err ee smin : α) (h : Num.isNaN err = true) :
    Gen.Rk23.hRejectFactor safety err ee smin = smin := by
  unfold Gen.Rk23.hRejectFactor
  rw [if_pos h]
end Ctl

namespace Ctl
noncomputable section
variable {K : Type} [Field K] [LinearOrder K] [IsStrictOrderedRing K] [SqrtPow K] {n : Nat}

private theorem progress_of (h x u : K) (hu : 0 ≤ u) (hg : |x| * u < (1 : K) / 10 * |h|) : h ≠ 0 ∧ x + h ≠ x := by
  have h0 : h ≠ 0 := by
    rintro rfl
    have := mul_nonneg (abs_nonneg x) hu
    simp at hg
    linarith
  exact ⟨h0, fun e => h0 (by linarith)⟩

/-- a step that passes the underflow guard of dopri5.rs is significant: |x|·uround < |h|/10, so it is non-zero and
    moves x (exact arithmetic), whatever the signs of x and h -/
theorem dopri5_guard_progress (h x u : K) (hu : 0 ≤ u) (hg : ¬ Gen.Dopri5.underflowGuard h x u) :
    |x| * u < (1 : K) / 10 * |h| ∧ h ≠ 0 ∧ x + h ≠ x := by
  unfold Gen.Dopri5.underflowGuard at hg
  simp only [num_lit, num_abs, not_le] at hg
  have hg' : |x| * u < (1 : K) / 10 * |h| := by simpa using hg
  exact ⟨hg', progress_of h x u hu hg'⟩

theorem dop853_guard_progress (h x u : K) (hu : 0 ≤ u) (hg : ¬ Gen.Dop853.underflowGuard h x u) :
    |x| * u < (1 : K) / 10 * |h| ∧ h ≠ 0 ∧ x + h ≠ x := by
  unfold Gen.Dop853.underflowGuard at hg
  simp only [num_lit, num_abs, not_le] at hg
  have hg' : |x| * u < (1 : K) / 10 * |h| := by simpa using hg
  exact ⟨hg', progress_of h x u hu hg'⟩

/-- rk23.rs uses the literal 2⁻⁵² as unit round-off -/
theorem rk23_guard_progress (h x : K) (hg : ¬ Gen.Rk23.underflowGuard h x) :
    |x| * ((1 : K) / 4503599627370496) < (1 : K) / 10 * |h| ∧ h ≠ 0 ∧ x + h ≠ x := by
  unfold Gen.Rk23.underflowGuard at hg
  simp only [num_lit, num_abs, not_le] at hg
  have hg' : |x| * ((1 : K) / 4503599627370496) < (1 : K) / 10 * |h| := by simpa using hg
  exact ⟨hg', progress_of h x _ (by positivity) hg'⟩

/-- loop head of DOPRI5 / DOP853: if neither guard fires, the step about to be tried is non-zero -/
theorem hGuard_none_progress {σ : Type} (P : HParams K n) (s : HState σ K n) (hu : 0 ≤ P.uround)
    (hP : ∀ h x u, P.underflow h x u ↔ (1 : K) / 10 * |h| ≤ |x| * u) (hg : hGuard P s = none) :
    s.h ≠ 0 ∧ s.x + s.h ≠ s.x ∧ s.m.cnt.total ≤ P.nmax := by
  unfold hGuard at hg
  split at hg
  · cases hg
  · split at hg
    · cases hg
    · rename_i h1 h2
      have h2' := (not_congr (hP s.h s.x P.uround)).mp h2
      exact ⟨(progress_of s.h s.x P.uround hu (not_le.mp h2')).1, (progress_of s.h s.x P.uround hu (not_le.mp h2')).2, not_lt.mp h1⟩

/-- the DOPRI5 / DOP853 parameter records carry exactly that guard -/
theorem dopri5Params_underflow (L : HLits K) (xend posneg uround safety smin smax beta hmax : K) (nmax nstiff : Nat) (dense : Bool)
    (h x u : K) :
    (dopri5Params (n := n) L xend posneg uround safety smin smax beta hmax nmax nstiff dense).underflow h x u
      ↔ (1 : K) / 10 * |h| ≤ |x| * u := by
  simp [dopri5Params, Gen.Dopri5.underflowGuard, num_lit]

theorem dop853Params_underflow (L : HLits K) (xend posneg uround safety smin smax beta hmax : K) (nmax nstiff : Nat) (dense : Bool)
    (h x u : K) :
    (dop853Params (n := n) L xend posneg uround safety smin smax beta hmax nmax nstiff dense).underflow h x u
      ↔ (1 : K) / 10 * |h| ≤ |x| * u := by
  simp [dop853Params, Gen.Dop853.underflowGuard, num_lit]

end
end Ctl

/-- Radau: a NaN error estimate is replaced by +∞ before the acceptance test, in every number system (so a step whose
    estimate is NaN is never accepted; `Model/RadauNum.lean`, tied by X-radaunum) -/
theorem c04_radau_nan_estimate {α : Type} [Num α] (L : RadauNum.NLits α) (e : α) (h : Num.isNaN e = true) :
    RadauNum.errGuard L e = L.inf := RadauNum.errGuard_nan L e h

/-! ### a step whose candidate state is not finite is never accepted (fixes 13bc1bc, 38d4d3b)

`finiteGuard` replaces the error estimate by `1.0 / 0.0` when the candidate state has a non-finite component.  So in any
arithmetic in which `1/0 ≤ 1` is false (IEEE: `inf ≤ 1` is false; the driver prints this comparison at `Float` in its
self-test) an accepted step has a finite new state — "Success with non-finite states" cannot arise from an accepted step. -/
namespace Ctl
variable {α : Type} [Num α] {n : Nat}

theorem c04_finiteGuard_accept (v : Vec α n) (e one : α) (hinf : ¬ ((Num.one / Num.zero : α) ≤ one))
    (h : finiteGuard v e ≤ one) : vecFinite v = true := by
  unfold finiteGuard at h
  by_cases hv : vecFinite v = true
  · exact hv
  · rw [if_neg hv] at h; exact absurd h hinf

/-- DOPRI5: the error test passes only for a finite candidate state `y1` -/
theorem c04_accept_finite_dopri5 (atol rtol : Vec α n) (S : D5S α n) (y : Vec α n) (h one : α)
    (hinf : ¬ ((Num.one / Num.zero : α) ≤ one)) (hacc : (dopri5Kernel atol rtol).err S y h ≤ one) : vecFinite S.y1 = true :=
  c04_finiteGuard_accept S.y1 _ one hinf hacc

/-- DOP853: the error test passes only for a finite candidate state `k5` -/
theorem c04_accept_finite_dop853 (atol rtol : Vec α n) (S : D8S α n) (y : Vec α n) (h one : α)
    (hinf : ¬ ((Num.one / Num.zero : α) ≤ one)) (hacc : (dop853Kernel atol rtol).err S y h ≤ one) : vecFinite S.c.k5 = true :=
  c04_finiteGuard_accept S.c.k5 _ one hinf hacc

/-- RK23: the error test passes only for a finite candidate state `yt` -/
theorem c04_accept_finite_rk23 {σ : Type} (P : R23Params α n) (f : Rhs α n) (s : R23State σ α n) (h : α) (last : Bool)
    (hinf : ¬ ((Num.one / Num.zero : α) ≤ P.one)) (hacc : (rk23Trial P f s h last).err ≤ P.one) :
    vecFinite (rk23Trial P f s h last).o.yt = true :=
  c04_finiteGuard_accept _ _ P.one hinf hacc

end Ctl
