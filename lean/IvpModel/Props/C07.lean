/-
  C07 — dense output is accurate to the interpolant's order inside every step.

  `*_dense_weights` (Proofs/DenseEqs*.lean): the translated dense code evaluates
  u(θ) = y + h Σ_i w_i(θ) K_i with the polynomial weights of `Model/DenseOrder.lean`, for every n, y, K, h ≠ 0, θ.
  The theorems below: those weights satisfy **every** continuous order condition
  Σ_i w_i(θ) Φ_i(t) = θ^|t|/γ(t), as polynomials in θ, for all rooted trees of order ≤ q
  (q = 3 RK4, 3 RK23, 4 DOPRI5, 7 DOP853 — DOP853 to 10⁻²⁰ per coefficient), and not for order q+1.
-/
import IvpModel.Proofs.TreesLemmas
import IvpModel.Proofs.DenseEqs853

open BTree

theorem rk4_dense_order3 : ∀ t : BTree, t.order ≤ 3 → rk4Dense.condTree t = true :=
  forall_of_all (p := 3) (by decide +kernel)
theorem rk23_dense_order3 : ∀ t : BTree, t.order ≤ 3 → rk23Dense.condTree t = true :=
  forall_of_all (p := 3) (by decide +kernel)
theorem dopri5_dense_order4 : ∀ t : BTree, t.order ≤ 4 → dopri5Dense.condTree t = true :=
  forall_of_all (p := 4) (by decide +kernel)
theorem dop853_dense_order7 : ∀ t : BTree, t.order ≤ 7 → dop853Dense.condTreeApprox (10 ^ 20) t = true :=
  forall_of_all (p := 7) (by decide +kernel)

/-! sharpness (the checker is not vacuous) -/
theorem rk4_dense_not_order4 : ∃ t : BTree, t.order = 4 ∧ rk4Dense.condTree t = false :=
  ⟨.graft (.graft (.graft .leaf .leaf) .leaf) .leaf, by decide +kernel⟩
theorem rk23_dense_not_order4 : ∃ t : BTree, t.order = 4 ∧ rk23Dense.condTree t = false :=
  ⟨.graft (.graft (.graft .leaf .leaf) .leaf) .leaf, by decide +kernel⟩
theorem dopri5_dense_not_order5 : ∃ t : BTree, t.order = 5 ∧ dopri5Dense.condTree t = false :=
  ⟨.graft (.graft (.graft (.graft .leaf .leaf) .leaf) .leaf) .leaf, by decide +kernel⟩
theorem dop853_dense_not_order8 : ∃ t : BTree, t.order = 8 ∧ dop853Dense.condTreeApprox (10 ^ 8) t = false :=
  ⟨.graft (.graft (.graft (.graft (.graft (.graft (.graft .leaf .leaf) .leaf) .leaf) .leaf) .leaf) .leaf) .leaf, by decide +kernel⟩
