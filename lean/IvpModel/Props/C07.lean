/-
  C07 — dense output is accurate to the interpolant's order inside every step.

  `*_dense_weights` (Proofs/DenseEqs*.lean): the translated dense code evaluates
  u(θ) = y + h Σ_i w_i(θ) K_i with the polynomial weights of `Model/DenseOrder.lean`, for every n, y, K, h ≠ 0, θ.
  The theorems below: those weights satisfy **every** continuous order condition
  Σ_i w_i(θ) Φ_i(t) = θ^|t|/γ(t), as polynomials in θ, for all rooted trees of order ≤ q
  (q = 3 RK4, 3 RK23, 4 DOPRI5, 7 DOP853 — DOP853 to 10⁻²⁰ per coefficient), and not for order q+1.
-/
import IvpModel.Proofs.TreesLemmas
import IvpModel.Proofs.DenseEqs853
import IvpModel.Proofs.BdfNumLemmas
import IvpModel.Proofs.RadauNumLemmas

open BTree

theorem rk4_dense_order3 : ∀ t : BTree, t.order ≤ 3 → rk4Dense.condTree t = true :=
  forall_of_all (p := 3) (by decide +kernel)
theorem rk23_dense_order3 : ∀ t : BTree, t.order ≤ 3 → rk23Dense.condTree t = true :=
  forall_of_all (p := 3) (by decide +kernel)
theorem dopri5_dense_order4 : ∀ t : BTree, t.order ≤ 4 → dopri5Dense.condTree t = true :=
  forall_of_all (p := 4) (by decide +kernel)
theorem dop853_dense_order7 : ∀ t : BTree, t.order ≤ 7 → dop853Dense.condTreeApprox (10 ^ 20) t = true :=
  forall_of_all (p := 7) (by decide +kernel)

/-! sharpness (the checker is not vacuous) -/
/-- the time arguments `x + C14 h`, `x + C15 h`, `x + C16 h` of DOP853's three extra dense stages are the nodes the order
    conditions assume (the row sums of the stages' `A` rows), to 1e-15: without this the interpolant of a non-autonomous problem
    loses its order strictly inside a step while both step ends stay exact -/
theorem c07_dop853_dense_nodes : dop853ExtraNodesOK (10 ^ 15) = true := by decide +kernel
/-- the check is not vacuous: a node off by 5e-3 fails it -/
theorem c07_dop853_dense_nodes_sharp :
    nodesMatchRows (dop853Dense.A.drop 15) [(7727777777777778, 10000000000000000)] (10 ^ 15) = false := by decide +kernel

theorem rk4_dense_not_order4 : ∃ t : BTree, t.order = 4 ∧ rk4Dense.condTree t = false :=
  ⟨.graft (.graft (.graft .leaf .leaf) .leaf) .leaf, by decide +kernel⟩
theorem rk23_dense_not_order4 : ∃ t : BTree, t.order = 4 ∧ rk23Dense.condTree t = false :=
  ⟨.graft (.graft (.graft .leaf .leaf) .leaf) .leaf, by decide +kernel⟩
theorem dopri5_dense_not_order5 : ∃ t : BTree, t.order = 5 ∧ dopri5Dense.condTree t = false :=
  ⟨.graft (.graft (.graft (.graft .leaf .leaf) .leaf) .leaf) .leaf, by decide +kernel⟩
theorem dop853_dense_not_order8 : ∃ t : BTree, t.order = 8 ∧ dop853Dense.condTreeApprox (10 ^ 8) t = false :=
  ⟨.graft (.graft (.graft (.graft (.graft (.graft (.graft .leaf .leaf) .leaf) .leaf) .leaf) .leaf) .leaf) .leaf, by decide +kernel⟩

/-! ### BDF: the interpolant is the polynomial the step itself is built on

  `Model/BdfNum.lean` (the full numeric model of `BDF::solve`, tied bit for bit by X-bdfnum): one component of
  `BDF::interpolate` with order marker k is `interpScalar k c xi x_new h`, `c` the component's difference column. -/
namespace BdfNum
noncomputable section
variable {K : Type} [Field K] [LinearOrder K] [IsStrictOrderedRing K] [SqrtPow K]

/-- with `c j = ∇ʲ` of the accepted values `v 0 = y_{n+1}, v 1 = y_n, …` the interpolant of order k returns `v m` at
    `x_{n+1} − m·h` for every `m ≤ k`: it is the degree-k polynomial through the last k+1 accepted values — the
    polynomial whose derivative the BDF formula of order k equates with f, hence as accurate as the step (k = 1..5) -/
theorem c07_bdf_interp_is_step_polynomial (L : NLits K) (hL : LitOK L) (v : Nat → K) (xNew h : K) (hh : h ≠ 0) (order m : Nat)
    (ho : 1 ≤ order) (ho5 : order ≤ 5) (hm : m ≤ order) :
    interpScalar L order (fun j => bdiff j v) (xNew - (m : K) * h) xNew h = v m :=
  interp_nodes L hL v xNew h hh order m ho ho5 hm

/-- the difference arrays hold those backward differences: an accepted step turns `∇ʲ` of the old history into `∇ᵏ` of
    the history with the new value prepended (`delta = y_new − predictor`), for k ≤ order + 1 -/
theorem c07_bdf_update_keeps_differences (v : Nat → K) (yNew : K) (order k : Nat) (ho : 1 ≤ order) (ho5 : order ≤ 5)
    (hk : k ≤ order + 1) :
    updCol (fun j => bdiff j v) (yNew - (List.range (order + 1)).foldl (fun s j => s + bdiff j v) 0) order k
      = bdiff k (consSeq yNew v) :=
  update_bdiff v yNew order k ho ho5 hk

noncomputable local instance : SqrtPow ℚ := ⟨id, fun a _ => a⟩

/-- the literals at ℚ -/
def qLits : NLits ℚ :=
  { zero := 0, one := 1, two := 2, half := 1/2, tenth := 1/10, safety := 9/10, minFactor := 1/5, maxFactor := 10, minPositive := 0,
    inf := 0, stretch := 101/100, kappa := fun _ => 0, eps := 0, ten := 10, p03 := 3/100, em9 := 0 }

/-- non-vacuity: for the cubic history v i = (3 − i)³ the order-3 interpolant reproduces v 2 = 1 two steps back -/
example : interpScalar qLits 3 (fun j => bdiff j (fun i => ((3 : ℚ) - i) ^ 3)) (5 - 2 * 1) 5 1 = 1 := by
  have := c07_bdf_interp_is_step_polynomial qLits ⟨rfl, rfl⟩ (fun i => ((3 : ℚ) - i) ^ 3) 5 1 (by norm_num) 3 2 (by norm_num) (by norm_num) (by norm_num)
  norm_num at this ⊢
  exact this

end
end BdfNum

/-! ### Radau: the interpolant is the collocation polynomial -/
namespace RadauNum
open Gen.Radau
noncomputable section
variable {K : Type} [Field K] [LinearOrder K] [IsStrictOrderedRing K] [SqrtPow K]

/-- the cubic `RADAU::interpolate` evaluates passes through the state before the step and the three stage values
    `y_old + z_i` at `xold + c_i·h` (c = C1, C2, 1): it is the collocation polynomial of the Radau IIA step, which
    approximates the solution to O(h⁴) uniformly over the step (q = 3); exact decimal values of the constants of radau.rs -/
theorem c07_radau_collocation (yold z1 z2 z3 xold h : K) (hh : h ≠ 0) :
    let d := denseCoeffs yold z1 z2 z3
    interpScalar (((xold + C1 * h) - (xold + h)) / h) d.1 d.2.1 d.2.2.1 d.2.2.2 = yold + z1 ∧
    interpScalar (((xold + C2 * h) - (xold + h)) / h) d.1 d.2.1 d.2.2.1 d.2.2.2 = yold + z2 ∧
    interpScalar (((xold + 1 * h) - (xold + h)) / h) d.1 d.2.1 d.2.2.1 d.2.2.2 = yold + z3 ∧
    interpScalar (((xold + 0 * h) - (xold + h)) / h) d.1 d.2.1 d.2.2.1 d.2.2.2 = yold := by
  intro d
  obtain ⟨e1, e2, e3, e4, _⟩ := interp_collocation yold z1 z2 z3
  rw [s_of_xi xold h C1 hh, s_of_xi xold h C2 hh, s_of_xi xold h 1 hh, s_of_xi xold h 0 hh]
  refine ⟨e2, e3, ?_, ?_⟩
  · simpa using e4
  · have : (0 : K) - 1 = -1 := by ring
    rw [this]; exact e1

end
end RadauNum
