/-
  C05 — t_eval: exactly the requested times, with the interpolated values.

  Model: `Model/SolOut.lean` (`sampleInitial`, `sampleStep`, terminal branch `dueBeforeEvent`), tied to the real handler by
  the bit-exact X-solout co-simulation.  Theorems (Proofs/TevalLemmas.lean), exact arithmetic, every history:
  * `sampleStep_spec`  : one accepted step appends exactly the still-unreported requests inside its upper window that
                         are inside its lower window (`stepKept`), each paired with the step interpolant evaluated at
                         the requested time itself, and leaves `stepRest`; `t`/`y` stay aligned (`sampleStep_lengths`).
  * `teval_exact_times_forward` : requests sorted in the direction of integration and inside the span ⇒ over a contiguous
                         history that reaches the end the reported times are the requested list itself (same values, same
                         order, duplicates included) — nothing is skipped by the lower-window filter.
  * `teval_exact_times_backward`: the same for descending requests on a backward run, obtained from the forward theorem
                         through `runTimes_mirror` (a backward run is the mirror image of a forward run on negated times).
  * `teval_early_stop_forward`  : after any prefix of the history, reported ++ unreported = requested: what has been
                         reported is a prefix and every unreported request lies strictly beyond the last window.
  * `popBeyond_last`, `popBeyond_prefix` : at a terminal event *every* trailing requested-time sample beyond the event (taken
                         early, through the tolerance window of the previous step) is taken back, not just one; only samples are
                         removed, from the end, and `next_idx` goes down by their number.
-/
import IvpModel.Proofs.SolOutPhases

/-- sqrt/pow are not used by the handler; any functions will do for the instance over ℚ -/
noncomputable instance : SqrtPow ℚ := ⟨id, fun a _ => a⟩

open SolOutM in
/-- non-vacuity: a concrete history meeting the hypotheses of `teval_exact_times_forward` (requests inside a step,
    on a boundary, duplicated, at the end) -/
example : runTimes true (1/1000000000000 : ℚ) [1/2, 1, 1, 3/2, 2] 0 [1, 2] = [1/2, 1, 1, 3/2, 2] := by
  apply teval_exact_times_forward (xlast := (2 : ℚ)) <;> norm_num [List.isChain_cons_cons]
