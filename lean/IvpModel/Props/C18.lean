/-
  C18 — reported statistics count what actually happened (explicit solvers; the models are tied to the code by the
  bit-exact X-solve co-simulation, which also compares the counters of every run).

  * `Meter.counted_*` : every way the skeletons touch the counters preserves  `evals.ode = calls made = call entries`.
  * `dopri5Kernel_ok`, `dop853Kernel_ok`, `rk23_stages_calls`, `rk4_stages_calls`, `rk4_update_calls`, `hinit_calls` :
    the literals the source adds to `evals.ode` (6, 11, +1, +3, 3, 4, +1) are the numbers of calls the translated
    regions make.
  * `hSolve_counted`, `rk23Solve_inv`, `rk4Solve_inv` : at every exit, for every right-hand side and every observer.
  * Radau control model (`Proofs/RadauLemmas.lean`, tied by X-radau): `RadauCtl.newtonLoop_ode`, `RadauCtl.pass_ode` — every Newton
    iteration started is counted with its three evaluations, abandoned or not.
  * BDF control model (`Proofs/BdfLemmas.lean`, tied by X-bdf): `BdfCtl.newtonLoop_ode` — every corrector iteration started is
    counted exactly once.
-/
import IvpModel.Proofs.AcceptedCount
import IvpModel.Proofs.BdfLemmas
import IvpModel.Proofs.RadauLemmas
import IvpModel.Proofs.CtlRk

namespace Ctl
variable {α : Type} [Num α] {n : Nat}

/-- C18 for DOPRI5 with the generated kernel and `hinit`: `nfev` is the number of right-hand-side calls -/
theorem C18_dopri5 {σ : Type} (P : HParams α n) (atol rtol : Vec α n) (f : Rhs α n) (ob : Obs σ α n) (obs0 : σ)
    (x0 : α) (y0 : Vec α n) (firstStep : Option α) (hmaxArg fo hl : α) (fuel : Nat) (r : Result σ α n)
    (h : hSolve P (dopri5Kernel atol rtol) f ob obs0 x0 y0 firstStep (hinitCall atol rtol x0 y0 P.posneg hmaxArg 5) fo hl fuel = some r) :
    r.m.cnt.ode = r.m.ncalls ∧ nOde r.m.log = r.m.ncalls :=
  hSolve_counted P _ (dopri5Kernel_ok atol rtol) f ob obs0 x0 y0 firstStep _ (fun _ _ => hinit_calls ..) fo hl fuel r h

theorem C18_dop853 {σ : Type} (P : HParams α n) (atol rtol : Vec α n) (f : Rhs α n) (ob : Obs σ α n) (obs0 : σ)
    (x0 : α) (y0 : Vec α n) (firstStep : Option α) (hmaxArg fo hl : α) (fuel : Nat) (r : Result σ α n)
    (h : hSolve P (dop853Kernel atol rtol) f ob obs0 x0 y0 firstStep (hinitCall atol rtol x0 y0 P.posneg hmaxArg 8) fo hl fuel = some r) :
    r.m.cnt.ode = r.m.ncalls ∧ nOde r.m.log = r.m.ncalls :=
  hSolve_counted P _ (dop853Kernel_ok atol rtol) f ob obs0 x0 y0 firstStep _ (fun _ _ => hinit_calls ..) fo hl fuel r h
end Ctl
