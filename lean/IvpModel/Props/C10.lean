/-
  C10 — a terminal event stops the run at the event.
  * `step_flag` : the callback returns `Interrupt` exactly when a terminal event reached its count in this callback.
  * `eventPhase_fired_last_sample`, `processEvs_fired` : then the event point (time, state) is the final sample.
  * `processEvs_prefix` : events sorted before it in the same step are kept, those after it are not recorded.
  * `processEvs_stops_at_first` : the stop is at the *first* event of the step whose function reaches its count once recorded; an
    occurrence of a counted terminal event (`terminal_count(n)`, n ≥ 2) that does not reach the count hides nothing after it, and
    without an interrupt every located event of the step is recorded.
  * `terminalSamples_tEvents`, `dueBeforeEvent_tEvents` : reporting the requested times that precede the event does
    not touch the event lists.
  The solver side (Interrupt ⇒ UserInterrupt, no further call) is C19.
-/
import IvpModel.Proofs.SolOutPhases
import IvpModel.Props.C05

/-! non-vacuity of `processEvs_stops_at_first`, on a concrete handler state over ℚ with two event functions: event 0 is terminal
    with count 2 (or 1), event 1 is not terminal; the step contains an occurrence of event 0 at 1/4 and one of event 1 at 1/2 -/
open SolOutM in
def c10State (count : Nat) : St ℚ :=
  { tEval := none, tol := 0, tEvents := #[#[], #[]], yEvents := #[#[], #[]], collectDense := false,
    cfg := #[⟨.all, some count⟩, ⟨.all, none⟩], prevEvent := #[0, 0], eventHits := #[0, 0], firstStep := none, x0 := 0 }

open SolOutM in
/-- count 2: the first occurrence does not stop the run and hides nothing — both events are recorded, no interrupt -/
example : (processEvs true 0 1 none (c10State 2) [(1/4, 0, #[]), (1/2, 1, #[])]).2 = false
    ∧ (processEvs true 0 1 none (c10State 2) [(1/4, 0, #[]), (1/2, 1, #[])]).1.tEvents = #[#[1/4], #[1/2]] := by
  simp [processEvs, fires, recordEv, c10State]

open SolOutM in
/-- count 1: the run stops at 1/4 and the later event is not recorded -/
example : (processEvs true 0 1 none (c10State 1) [(1/4, 0, #[]), (1/2, 1, #[])]).2 = true
    ∧ (processEvs true 0 1 none (c10State 1) [(1/4, 0, #[]), (1/2, 1, #[])]).1.tEvents = #[#[1/4], #[]] := by
  simp [processEvs, fires, recordEv, c10State, pushTerminal, terminalSamples, pushSample]
