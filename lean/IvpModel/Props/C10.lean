/-
  C10 — a terminal event stops the run at the event.
  * `step_flag` : the callback returns `Interrupt` exactly when a terminal event reached its count in this callback.
  * `eventPhase_fired_last_sample`, `processEvs_fired` : then the event point (time, state) is the final sample.
  * `processEvs_prefix` : events sorted before it in the same step are kept, those after it are not recorded.
  * `processEvs_stops_at_first` : the stop is at the *first* event of the step whose function reaches its count once recorded; an
    occurrence of a counted terminal event (`terminal_count(n)`, n ≥ 2) that does not reach the count hides nothing after it, and
    without an interrupt every located event of the step is recorded.
  * `terminalSamples_tEvents`, `dueBeforeEvent_tEvents` : reporting the requested times that precede the event does
    not touch the event lists.
  The solver side (Interrupt ⇒ UserInterrupt, no further call) is C19.
-/
import IvpModel.Proofs.SolOutPhases
