/-
  C13 — equivalent problems get equivalent answers.   (PARTIAL: exact arithmetic, step-level; runs compared bitwise by sym-check)

  The property claims bit-identical trajectories under exact symmetries.  A Lean theorem over ordered fields cannot say
  "bit-identical"; what is proved is that the *translated code* has each symmetry exactly (any ordered field, every
  dimension, every right-hand-side value), and the sym-check monitor compares paired runs of the real solvers bit for
  bit (reflection, 2^k scaling, scalar/vector tolerances) or to rounding (copies).

  * time reflection, explicit methods (`c13_reflect_*`): with abscissa, step and stage derivatives negated, the
    translated stage code of RK4 / RK23 / DOPRI5 / DOP853 evaluates the right-hand side at the mirrored times and the
    *same* states and produces the same new state; the error norm is even in the estimate; the last-step and
    step-size-underflow guards are mirror-symmetric.
  * state scaling (`c13_scale_*`): stage arguments and the new state scale with the state; the error norm is
    invariant when state, estimate and atol are scaled by c > 0 (in particular c = 2^k).
  * scalar versus vector tolerance (`c13_tolerance_scalar_vector`): the solvers read tolerances by index; a scalar and
    the equal constant vector have the same expansion, hence every translated region sees the same input.  For Radau,
    which *writes* its tolerances, the transformation acts per component (`c13_radau_tolAdjust`; the translator refuses
    the region unless the code expands a scalar first — the defect fixed in 7ba12e0).
  * duplication (`c13_copies_norm`): the mean under the square root of the RMS norm is the same for m stacked copies;
    `c13_copies_radau_norms`: both of Radau's translated error norms take the same value on m copies as on one.
  Not proved: the whole-run statement (induction over the loop with a reflected oracle), hinit under the symmetries,
  Radau/BDF (not modelled), event-time mirroring.  Open finding: the automatic first step depends on the number of
  copies (Hairer's HINIT uses unnormalised sums), see known_findings.json c13-copies-autostep.
-/
import IvpModel.Proofs.NormLemmas
import IvpModel.Proofs.BdfGenLemmas
import IvpModel.Proofs.ReflectRk4
import IvpModel.Proofs.ReflectRk23
import IvpModel.Proofs.ReflectHairer
import IvpModel.Proofs.ReflectDopri5
import IvpModel.Proofs.ReflectDop853
import IvpModel.Proofs.ScaleDopri5
import IvpModel.Proofs.ScaleDop853
import IvpModel.Proofs.ScaleRk23
import IvpModel.Proofs.ScaleRk4
import IvpModel.Proofs.DupDopri5
import IvpModel.Proofs.DupRk23
import IvpModel.Proofs.DupRk4
import IvpModel.Proofs.DupDop853
import IvpModel.Proofs.ReflectRadau
import IvpModel.Proofs.ReflectBdf
import Mathlib.Analysis.Real.Sqrt

noncomputable section
variable {K : Type} [Field K] [LinearOrder K] [IsStrictOrderedRing K] [SqrtPow K]

/-- `Tolerance` of methods/mod.rs with its `Index` implementation -/
inductive Tol (α : Type) where
  | scalar (v : α)
  | vector (vs : Array α)

def Tol.get {α : Type} [Inhabited α] : Tol α → Nat → α
  | .scalar v, _ => v
  | .vector vs, i => vs[i]!

/-- what the translated regions receive: the tolerance read at every index -/
def Tol.expand {α : Type} [Inhabited α] (t : Tol α) (n : Nat) : Vector α n := Vector.ofFn fun i => t.get i

theorem c13_tolerance_scalar_vector {α : Type} [Inhabited α] (v : α) (n : Nat) :
    (Tol.scalar v).expand n = (Tol.vector (Array.replicate n v)).expand n := by
  ext i hi
  simp [Tol.expand, Tol.get, hi]

theorem c13_radau_tolAdjust {n : Nat} (atol rtol : Vector K n) (i : Fin n) :
    (Gen.Radau.tolAdjust (atol := atol) (rtol := rtol) (expm := Gen.Radau.expm)).rtol[i]
        = (1 : K) / 10 * SqrtPow.pow rtol[i] ((2 : K) / 3) ∧
    (Gen.Radau.tolAdjust (atol := atol) (rtol := rtol) (expm := Gen.Radau.expm)).atol[i]
        = (1 : K) / 10 * SqrtPow.pow rtol[i] ((2 : K) / 3) * (atol[i] / rtol[i]) := radau_tolAdjust_spec atol rtol i

theorem c13_reflect_rk4 {n : Nat} (Kc : Nat → Vector K n) (y k1 : Vector K n) (x h : K) (last : Bool) (xend : K)
    (hl : last = true → xend = x + h) :
    (Gen.Rk4.stages (f := openF fun j => vneg (Kc j)) (y := y) (h := -h) (k1 := vneg k1) (x := -x) (last := last) (xend := -xend)).calls
      = (Gen.Rk4.stages (f := openF Kc) (y := y) (h := h) (k1 := k1) (x := x) (last := last) (xend := xend)).calls.map mirror :=
  rk4_stages_reflect Kc y k1 x h last xend hl

theorem c13_reflect_rk23 {n : Nat} (Kc : Nat → Vector K n) (y k1 : Vector K n) (x h : K) (last : Bool) (xend : K)
    (hl : last = true → xend = x + h) :
    (Gen.Rk23.stages (f := openF fun j => vneg (Kc j)) (y := y) (h := -h) (k1 := vneg k1) (x := -x) (last := last) (xend := -xend)).calls
      = (Gen.Rk23.stages (f := openF Kc) (y := y) (h := h) (k1 := k1) (x := x) (last := last) (xend := xend)).calls.map mirror ∧
    (Gen.Rk23.stages (f := openF fun j => vneg (Kc j)) (y := y) (h := -h) (k1 := vneg k1) (x := -x) (last := last) (xend := -xend)).yt
      = (Gen.Rk23.stages (f := openF Kc) (y := y) (h := h) (k1 := k1) (x := x) (last := last) (xend := xend)).yt := rk23_stages_reflect Kc y k1 x h last xend hl

theorem c13_reflect_dopri5 {n : Nat} (Kc : Nat → Vector K n) (y k1 : Vector K n) (x h : K) (last : Bool) (xend : K)
    (hl : last = true → xend = x + h) :
    (Gen.Dopri5.stages (f := openF fun j => vneg (Kc j)) (y := y) (h := -h) (k1 := vneg k1) (x := -x) (last := last) (xend := -xend)).calls
      = (Gen.Dopri5.stages (f := openF Kc) (y := y) (h := h) (k1 := k1) (x := x) (last := last) (xend := xend)).calls.map mirror ∧
    (Gen.Dopri5.stages (f := openF fun j => vneg (Kc j)) (y := y) (h := -h) (k1 := vneg k1) (x := -x) (last := last) (xend := -xend)).y1
      = (Gen.Dopri5.stages (f := openF Kc) (y := y) (h := h) (k1 := k1) (x := x) (last := last) (xend := xend)).y1 := dopri5_stages_reflect Kc y k1 x h last xend hl

theorem c13_reflect_dop853 {n : Nat} (Kc : Nat → Vector K n) (y k1 : Vector K n) (x h : K) (last : Bool) (xend : K)
    (hl : last = true → xend = x + h) :
    (Gen.Dop853.stages (f := openF fun j => vneg (Kc j)) (y := y) (h := -h) (k1 := vneg k1) (x := -x) (last := last) (xend := -xend)).calls
      = (Gen.Dop853.stages (f := openF Kc) (y := y) (h := h) (k1 := k1) (x := x) (last := last) (xend := xend)).calls.map mirror :=
  dop853_stages_reflect Kc y k1 x h last xend hl

/-- the automatic first step under time reflection: for the reflected problem (`f̃ = −f`, `x ↦ −x`, direction reversed)
    `hinit` returns the negated step and probes the mirrored point with the same state — every branch of the routine
    (degenerate norms, the `hmax` clamp, the second-derivative estimate), every dimension -/
theorem c13_reflect_hinit {n : Nat} (F1 atol rtol y f0 : Vector K n) (hmax posneg x : K) (iord : Nat) (hp : posneg ≠ 0) :
    (Gen.Common.hinit (f := fun _ _ _ => vneg F1) (atol := atol) (rtol := rtol) (y := y) (f0 := vneg f0) (hmax := hmax) (posneg := -posneg) (x := -x) (iord := iord)).1
      = -(Gen.Common.hinit (f := fun _ _ _ => F1) (atol := atol) (rtol := rtol) (y := y) (f0 := f0) (hmax := hmax) (posneg := posneg) (x := x) (iord := iord)).1
    ∧ (Gen.Common.hinit (f := fun _ _ _ => vneg F1) (atol := atol) (rtol := rtol) (y := y) (f0 := vneg f0) (hmax := hmax) (posneg := -posneg) (x := -x) (iord := iord)).2
      = (Gen.Common.hinit (f := fun _ _ _ => F1) (atol := atol) (rtol := rtol) (y := y) (f0 := f0) (hmax := hmax) (posneg := posneg) (x := x) (iord := iord)).2.map mirror :=
  hinit_reflect F1 atol rtol y f0 hmax posneg x iord hp

theorem c13_reflect_guards (x h xend posneg u : K) :
    (Gen.Dopri5.lastGuard (-x) (-h) (-xend) (-posneg) ↔ Gen.Dopri5.lastGuard x h xend posneg) ∧
    (Gen.Dop853.lastGuard (-x) (-h) (-xend) (-posneg) ↔ Gen.Dop853.lastGuard x h xend posneg) ∧
    (Gen.Rk23.lastGuard (-x) (-h) (-xend) (-posneg) ↔ Gen.Rk23.lastGuard x h xend posneg) ∧
    (Gen.Dopri5.underflowGuard (-h) (-x) u ↔ Gen.Dopri5.underflowGuard h x u) ∧
    (Gen.Dop853.underflowGuard (-h) (-x) u ↔ Gen.Dop853.underflowGuard h x u) ∧
    (Gen.Rk23.underflowGuard (-h) (-x) ↔ Gen.Rk23.underflowGuard h x) :=
  ⟨dopri5_lastGuard_reflect x h xend posneg, dop853_lastGuard_reflect x h xend posneg, rk23_lastGuard_reflect x h xend posneg,
   dopri5_underflow_reflect h x u, dop853_underflow_reflect h x u, rk23_underflow_reflect h x⟩

/-- the stiffness-detection quotient of DOPRI5 / DOP853 does not depend on the direction of integration -/
theorem c13_reflect_stiff {n : Nat} (k2 k6 ysti k3 k4 k5 y1 : Vector K n) (h hl : K) :
    (Gen.Dop853.stiff (k4 := vneg k4) (k3 := vneg k3) (k5 := k5) (y1 := y1) (h := -h) (hlamb := hl)).hlamb
      = (Gen.Dop853.stiff (k4 := k4) (k3 := k3) (k5 := k5) (y1 := y1) (h := h) (hlamb := hl)).hlamb ∧
    (Gen.Dopri5.stiff (k2 := vneg k2) (k6 := vneg k6) (y1 := y1) (ysti := ysti) (h := -h) (hlamb := hl)).hlamb
      = (Gen.Dopri5.stiff (k2 := k2) (k6 := k6) (y1 := y1) (ysti := ysti) (h := h) (hlamb := hl)).hlamb :=
  ⟨dop853_stiff_reflect k4 k3 k5 y1 h hl, dopri5_stiff_reflect k2 k6 y1 ysti h hl⟩

theorem c13_reflect_norm {n : Nat} (atol rtol y y1 e : Vector K n) :
    Gen.Dopri5.errnorm (atol := atol) (rtol := rtol) (y := y) (y1 := y1) (k4 := vneg e)
      = Gen.Dopri5.errnorm (atol := atol) (rtol := rtol) (y := y) (y1 := y1) (k4 := e) := dopri5_errnorm_even atol rtol y y1 e

theorem c13_scale_dopri5 {n : Nat} (c : K) (hc : 0 < c) (Kc : Nat → Vector K n) (atol rtol y k1 e : Vector K n) (x h : K)
    (last : Bool) (xend : K) (hl : last = true → xend = x + h) :
    (Gen.Dopri5.stages (f := openF fun j => vsmul c (Kc j)) (y := vsmul c y) (h := h) (k1 := vsmul c k1) (x := x) (last := last) (xend := xend)).y1
      = vsmul c (Gen.Dopri5.stages (f := openF Kc) (y := y) (h := h) (k1 := k1) (x := x) (last := last) (xend := xend)).y1 ∧
    Gen.Dopri5.errnorm (atol := vsmul c atol) (rtol := rtol) (y := vsmul c y) (y1 := vsmul c k1) (k4 := vsmul c e)
      = Gen.Dopri5.errnorm (atol := atol) (rtol := rtol) (y := y) (y1 := k1) (k4 := e) :=
  ⟨dopri5_stages_scale c Kc y k1 x h last xend hl, dopri5_errnorm_scale c hc atol rtol y k1 e⟩

theorem c13_scale_rk23 {n : Nat} (c : K) (Kc : Nat → Vector K n) (y k1 : Vector K n) (x h : K) (last : Bool) (xend : K) :
    (Gen.Rk23.stages (f := openF fun j => vsmul c (Kc j)) (y := vsmul c y) (h := h) (k1 := vsmul c k1) (x := x) (last := last) (xend := xend)).yt
      = vsmul c (Gen.Rk23.stages (f := openF Kc) (y := y) (h := h) (k1 := k1) (x := x) (last := last) (xend := xend)).yt := rk23_stages_scale c Kc y k1 x h last xend

/-- Radau's two error norms (the estimate and the refined estimate of a first / retried step), as translated from the
    source, give the same value on `m` stacked copies as on one copy -/
theorem c13_copies_radau_norms (m n : Nat) (hm : 0 < m) (hn : 0 < n) (cont scal : Vector K n) :
    let dup : Vector K n → Vector K (m * n) := fun v => Vector.ofFn fun i => v[i.val % n]'(Nat.mod_lt _ hn)
    Gen.Radau.errnorm (cont := dup cont) (scal := dup scal) = Gen.Radau.errnorm (cont := cont) (scal := scal) ∧
    Gen.Radau.errnorm2 (cont := dup cont) (scal := dup scal) = Gen.Radau.errnorm2 (cont := cont) (scal := scal) := by
  intro dup
  have key : errSum (n := m * n) (fun i => (dup cont)[i]) (fun i => (dup scal)[i]) / ((m * n : Nat) : K)
      = errSum (fun i => cont[i]) (fun i => scal[i]) / (n : K) := by
    have := errSum_copies m n hm hn (fun i => cont[i]) (fun i => scal[i])
    simpa [dup] using this
  constructor
  · rw [radau_errnorm_spec, radau_errnorm_spec, key]
  · rw [radau_errnorm2_spec, radau_errnorm2_spec, key]

/-- **Whole runs under time reflection (RK4).**  `solve` on the mirrored problem is the mirror image of `solve` on the problem:
    induction over the loop of `Model/RkLoops.lean` (tied to rk4.rs by X-solve), every right-hand side, observer, step and fuel. -/
theorem c13_reflect_rk4_whole_run {σ : Type} {n : Nat} (P : Ctl.R4Params K) (f : Ctl.Rhs K n) (ob : Ctl.Obs σ K n) (obs0 : σ) (x0 : K)
    (y0 : Ctl.Vec K n) (h : K) (h0 : h ≠ 0) (fuel : Nat) :
    Ctl.rk4Solve (Ctl.rParams P) (Ctl.rRhs f) (Ctl.rObs ob) obs0 (-x0) y0 (-h) fuel
      = (Ctl.rk4Solve P f ob obs0 x0 y0 h fuel).map Ctl.rResult := Ctl.rk4Solve_reflect P f ob obs0 x0 y0 h h0 fuel

/-- **Whole runs under time reflection (RK23, adaptive).**  From the start — given or automatic first step (`hinit`) — through
    every accepted and rejected trial: `solve` on the mirrored problem with the mirrored observer is the mirror image of `solve`.
    Induction over the loop of `Model/RkLoops.lean` (tied to rk23.rs by X-solve); `posneg ≠ 0` is the direction ±1. -/
theorem c13_reflect_rk23_whole_run {σ : Type} {n : Nat} (P : Ctl.R23Params K n) (f : Ctl.Rhs K n) (ob : Ctl.Obs σ K n) (obs0 : σ) (x0 : K)
    (y0 : Ctl.Vec K n) (firstStep : Option K) (hmaxArg : K) (hp : P.posneg ≠ 0) (fuel : Nat) :
    Ctl.rk23Solve (Ctl.rP23 P) (Ctl.rRhs f) (Ctl.rObs ob) obs0 (-x0) y0 firstStep hmaxArg fuel
      = (Ctl.rk23Solve P f ob obs0 x0 y0 firstStep hmaxArg fuel).map Ctl.rResult :=
  Ctl.rk23Solve_reflect P f ob obs0 x0 y0 firstStep hmaxArg hp fuel

/-- **Whole runs of the DOPRI5 / DOP853 skeleton under time reflection**, for every numeric kernel, controller and first-step
    routine that obey the mirror laws (`Ctl.KRefl`, `Ctl.PRefl`, `Ctl.HinitRefl`): guards, landing, rejection, step-size control,
    stiffness counters, observer replies and step budget of `Model/Hairer.lean` (tied to dopri5.rs / dop853.rs by X-solve). -/
theorem c13_reflect_hairer_whole_run {σ : Type} {n : Nat} (P : Ctl.HParams K n) (hP : Ctl.PRefl P) (Kn : Ctl.HKernel K n)
    (KR : Ctl.KRefl Kn) (f : Ctl.Rhs K n) (ob : Ctl.Obs σ K n) (obs0 : σ) (x0 : K) (y0 : Ctl.Vec K n) (firstStep : Option K)
    (hinit hinit' : Ctl.Rhs K n → Ctl.Vec K n → K × Array (K × Ctl.Vec K n)) (hH : Ctl.HinitRefl hinit hinit') (fo hl : K) (fuel : Nat) :
    Ctl.hSolve (Ctl.rHP P) Kn (Ctl.rRhs f) (Ctl.rObs ob) obs0 (-x0) y0 firstStep hinit' fo hl fuel
      = (Ctl.hSolve P Kn f ob obs0 x0 y0 firstStep hinit fo hl fuel).map Ctl.rResult :=
  Ctl.hSolve_reflect P hP Kn KR f ob obs0 x0 y0 firstStep hinit hinit' hH fo hl fuel

/-- **Whole runs of DOPRI5 under time reflection**: the translated regions of dopri5.rs obey the mirror laws, so the run of the
    mirrored problem (mirrored right-hand side and observer, `-x0`, `-xend`, opposite direction) is the mirror image of the run. -/
theorem c13_reflect_dopri5_whole_run {σ : Type} {n : Nat} (L : Ctl.HLits K) (xend posneg uround safety scaleMin scaleMax beta hmax : K)
    (nmax nstiff : Nat) (dense : Bool) (atol rtol : Ctl.Vec K n) (f : Ctl.Rhs K n) (ob : Ctl.Obs σ K n) (obs0 : σ) (x0 : K)
    (y0 : Ctl.Vec K n) (firstStep : Option K) (hmaxArg : K) (iord : Nat) (fo hl : K) (hp : posneg ≠ 0) (fuel : Nat) :
    Ctl.hSolve (Ctl.dopri5Params L (-xend) (-posneg) uround safety scaleMin scaleMax beta hmax nmax nstiff dense) (Ctl.dopri5Kernel atol rtol)
        (Ctl.rRhs f) (Ctl.rObs ob) obs0 (-x0) y0 firstStep (Ctl.hinitCall atol rtol (-x0) y0 (-posneg) hmaxArg iord) fo hl fuel
      = (Ctl.hSolve (Ctl.dopri5Params L xend posneg uround safety scaleMin scaleMax beta hmax nmax nstiff dense) (Ctl.dopri5Kernel atol rtol)
        f ob obs0 x0 y0 firstStep (Ctl.hinitCall atol rtol x0 y0 posneg hmaxArg iord) fo hl fuel).map Ctl.rResult :=
  Ctl.dopri5Solve_reflect L xend posneg uround safety scaleMin scaleMax beta hmax nmax nstiff dense atol rtol f ob obs0 x0 y0 firstStep
    hmaxArg iord fo hl hp fuel

/-- **Whole runs of DOP853 under time reflection**: the translated regions of dop853.rs (twelve stages, combination, error norm,
    FSAL evaluation, stiffness quotient, dense output with its three extra stages, interpolant) obey the mirror laws. -/
theorem c13_reflect_dop853_whole_run {σ : Type} {n : Nat} (L : Ctl.HLits K) (xend posneg uround safety scaleMin scaleMax beta hmax : K)
    (nmax nstiff : Nat) (dense : Bool) (atol rtol : Ctl.Vec K n) (f : Ctl.Rhs K n) (ob : Ctl.Obs σ K n) (obs0 : σ) (x0 : K)
    (y0 : Ctl.Vec K n) (firstStep : Option K) (hmaxArg : K) (iord : Nat) (fo hl : K) (hp : posneg ≠ 0) (fuel : Nat) :
    Ctl.hSolve (Ctl.dop853Params L (-xend) (-posneg) uround safety scaleMin scaleMax beta hmax nmax nstiff dense) (Ctl.dop853Kernel atol rtol)
        (Ctl.rRhs f) (Ctl.rObs ob) obs0 (-x0) y0 firstStep (Ctl.hinitCall atol rtol (-x0) y0 (-posneg) hmaxArg iord) fo hl fuel
      = (Ctl.hSolve (Ctl.dop853Params L xend posneg uround safety scaleMin scaleMax beta hmax nmax nstiff dense) (Ctl.dop853Kernel atol rtol)
        f ob obs0 x0 y0 firstStep (Ctl.hinitCall atol rtol x0 y0 posneg hmaxArg iord) fo hl fuel).map Ctl.rResult :=
  Ctl.dop853Solve_reflect L xend posneg uround safety scaleMin scaleMax beta hmax nmax nstiff dense atol rtol f ob obs0 x0 y0 firstStep
    hmaxArg iord fo hl hp fuel

/-- **Whole runs of the DOPRI5 / DOP853 skeleton under a scaling of the state** by `c ≠ 0`, for every pair of kernels related by
    the scaling laws `Ctl.KScale` (the same method with tolerances `atol` and `c·atol`): `solve` on the scaled problem
    `z' = c·f(t, z/c)`, `z(x0) = c·y0`, seen through an observer that is shown `z/c`, is the scaled image of `solve` — the same
    step points, step sizes, error estimates, statuses and counters. -/
theorem c13_scale_hairer_whole_run {σ : Type} {n : Nat} (c : K) (hc : c ≠ 0) (P : Ctl.HParams K n) (Kn Kn' : Ctl.HKernel K n)
    (KS : Ctl.KScale c Kn Kn') (f : Ctl.Rhs K n) (ob : Ctl.Obs σ K n) (obs0 : σ) (x0 : K) (y0 : Ctl.Vec K n) (firstStep : Option K)
    (hinit hinit' : Ctl.Rhs K n → Ctl.Vec K n → K × Array (K × Ctl.Vec K n)) (hH : Ctl.HinitScale c hinit hinit') (fo hl : K) (fuel : Nat) :
    Ctl.hSolve P Kn' (Ctl.sRhs c f) (Ctl.sObs c ob) obs0 x0 (vsmul c y0) firstStep hinit' fo hl fuel
      = (Ctl.hSolve P Kn f ob obs0 x0 y0 firstStep hinit fo hl fuel).map (Ctl.sResult c) :=
  Ctl.hSolve_scale c hc P Kn Kn' KS f ob obs0 x0 y0 firstStep hinit hinit' hH fo hl fuel

/-- **Whole runs of DOPRI5 under a scaling of state and atol by `c > 0`** (the property's 2^k), automatic first step included;
    for a linear homogeneous system the scaled right-hand side is the right-hand side itself (`Ctl.sRhs_of_homogeneous`). -/
theorem c13_scale_dopri5_whole_run {σ : Type} {n : Nat} (c : K) (hc : 0 < c) (L : Ctl.HLits K)
    (xend posneg uround safety scaleMin scaleMax beta hmax : K) (nmax nstiff : Nat) (dense : Bool) (atol rtol : Ctl.Vec K n)
    (f : Ctl.Rhs K n) (hf : ∀ j t y, f j t (vsmul c y) = vsmul c (f j t y)) (ob : Ctl.Obs σ K n) (obs0 : σ) (x0 : K) (y0 : Ctl.Vec K n)
    (firstStep : Option K) (hmaxArg : K) (iord : Nat) (fo hl : K) (fuel : Nat) :
    Ctl.hSolve (Ctl.dopri5Params L xend posneg uround safety scaleMin scaleMax beta hmax nmax nstiff dense) (Ctl.dopri5Kernel (vsmul c atol) rtol)
        f (Ctl.sObs c ob) obs0 x0 (vsmul c y0) firstStep (Ctl.hinitCall (vsmul c atol) rtol x0 (vsmul c y0) posneg hmaxArg iord) fo hl fuel
      = (Ctl.hSolve (Ctl.dopri5Params L xend posneg uround safety scaleMin scaleMax beta hmax nmax nstiff dense) (Ctl.dopri5Kernel atol rtol)
        f ob obs0 x0 y0 firstStep (Ctl.hinitCall atol rtol x0 y0 posneg hmaxArg iord) fo hl fuel).map (Ctl.sResult c) := by
  have h := Ctl.dopri5Solve_scale c hc L xend posneg uround safety scaleMin scaleMax beta hmax nmax nstiff dense atol rtol f ob obs0 x0 y0
    firstStep hmaxArg iord fo hl fuel
  rw [Ctl.sRhs_of_homogeneous c hc.ne' f hf] at h
  exact h

/-- **Whole runs of DOP853 under a scaling of state and atol by `c > 0`**, automatic first step included. -/
theorem c13_scale_dop853_whole_run {σ : Type} {n : Nat} (c : K) (hc : 0 < c) (L : Ctl.HLits K)
    (xend posneg uround safety scaleMin scaleMax beta hmax : K) (nmax nstiff : Nat) (dense : Bool) (atol rtol : Ctl.Vec K n)
    (f : Ctl.Rhs K n) (hf : ∀ j t y, f j t (vsmul c y) = vsmul c (f j t y)) (ob : Ctl.Obs σ K n) (obs0 : σ) (x0 : K) (y0 : Ctl.Vec K n)
    (firstStep : Option K) (hmaxArg : K) (iord : Nat) (fo hl : K) (fuel : Nat) :
    Ctl.hSolve (Ctl.dop853Params L xend posneg uround safety scaleMin scaleMax beta hmax nmax nstiff dense) (Ctl.dop853Kernel (vsmul c atol) rtol)
        f (Ctl.sObs c ob) obs0 x0 (vsmul c y0) firstStep (Ctl.hinitCall (vsmul c atol) rtol x0 (vsmul c y0) posneg hmaxArg iord) fo hl fuel
      = (Ctl.hSolve (Ctl.dop853Params L xend posneg uround safety scaleMin scaleMax beta hmax nmax nstiff dense) (Ctl.dop853Kernel atol rtol)
        f ob obs0 x0 y0 firstStep (Ctl.hinitCall atol rtol x0 y0 posneg hmaxArg iord) fo hl fuel).map (Ctl.sResult c) := by
  have h := Ctl.dop853Solve_scale c hc L xend posneg uround safety scaleMin scaleMax beta hmax nmax nstiff dense atol rtol f ob obs0 x0 y0
    firstStep hmaxArg iord fo hl fuel
  rw [Ctl.sRhs_of_homogeneous c hc.ne' f hf] at h
  exact h

/-- **Whole runs of RK23 under a scaling of state and atol by `c > 0`**, automatic first step included. -/
theorem c13_scale_rk23_whole_run {σ : Type} {n : Nat} (c : K) (hc : 0 < c) (P : Ctl.R23Params K n) (f : Ctl.Rhs K n)
    (hf : ∀ j t y, f j t (vsmul c y) = vsmul c (f j t y)) (ob : Ctl.Obs σ K n) (obs0 : σ) (x0 : K) (y0 : Ctl.Vec K n)
    (firstStep : Option K) (hmaxArg : K) (fuel : Nat) :
    Ctl.rk23Solve (Ctl.sP23 c P) f (Ctl.sObs c ob) obs0 x0 (vsmul c y0) firstStep hmaxArg fuel
      = (Ctl.rk23Solve P f ob obs0 x0 y0 firstStep hmaxArg fuel).map (Ctl.sResult c) := by
  have h := Ctl.rk23Solve_scale c hc P f ob obs0 x0 y0 firstStep hmaxArg fuel
  rw [Ctl.sRhs_of_homogeneous c hc.ne' f hf] at h
  exact h

/-- **Whole runs of RK4 under a scaling of the state by `c ≠ 0`.** -/
theorem c13_scale_rk4_whole_run {σ : Type} {n : Nat} (c : K) (hc : c ≠ 0) (P : Ctl.R4Params K) (f : Ctl.Rhs K n)
    (hf : ∀ j t y, f j t (vsmul c y) = vsmul c (f j t y)) (ob : Ctl.Obs σ K n) (obs0 : σ) (x0 : K) (y0 : Ctl.Vec K n) (h : K) (fuel : Nat) :
    Ctl.rk4Solve P f (Ctl.sObs c ob) obs0 x0 (vsmul c y0) h fuel = (Ctl.rk4Solve P f ob obs0 x0 y0 h fuel).map (Ctl.sResult c) := by
  have h' := Ctl.rk4Solve_scale c hc P f ob obs0 x0 y0 h fuel
  rw [Ctl.sRhs_of_homogeneous c hc f hf] at h'
  exact h'

/-- the hypothesis of `c13_scale_dopri5_whole_run` is met by every linear system `y' = A(t) y` -/
example {n : Nat} (c : K) (A : K → Fin n → Fin n → K) :
    ∀ (j : Nat) (t : K) (y : Vector K n),
      (fun (_ : Nat) (t : K) (y : Vector K n) => (Vector.ofFn fun i => ∑ k : Fin n, A t i k * y[k] : Vector K n)) j t (vsmul c y)
        = vsmul c ((fun (_ : Nat) (t : K) (y : Vector K n) => (Vector.ofFn fun i => ∑ k : Fin n, A t i k * y[k] : Vector K n)) j t y) := by
  intro j t y
  ext i hi
  simp only [vsmul, Vector.getElem_ofFn, Fin.getElem_fin, Finset.mul_sum]
  apply Finset.sum_congr rfl
  intro k _
  ring

/-- **Whole runs of the DOPRI5 / DOP853 skeleton on `m` stacked copies of a system** (given first step), for every pair of kernels
    related by the duplication laws `Ctl.KDup`: the run of any system of dimension `m·n` that maps stacked states to the stacked
    derivative has the step points, step sizes, error estimates, statuses and counters of the single system, and every state it
    reports is the stacked state. -/
theorem c13_copies_hairer_whole_run {σ : Type} {n : Nat} (m : Nat) (hn : 0 < n) (P : Ctl.HParams K n) (Kn : Ctl.HKernel K n)
    (Kn' : Ctl.HKernel K (m * n)) (KD : Ctl.KDup m hn Kn Kn') (F : Ctl.Rhs K (m * n)) (f : Ctl.Rhs K n) (hF : Ctl.DupRhs m hn F f)
    (Ob : Ctl.Obs σ K (m * n)) (ob : Ctl.Obs σ K n) (hOb : Ctl.DupObs m hn Ob ob) (obs0 : σ) (x0 : K) (y0 : Ctl.Vec K n) (h0 : K)
    (hinit : Ctl.Rhs K n → Ctl.Vec K n → K × Array (K × Ctl.Vec K n))
    (hinit' : Ctl.Rhs K (m * n) → Ctl.Vec K (m * n) → K × Array (K × Ctl.Vec K (m * n))) (fo hl : K) (fuel : Nat) :
    Ctl.hSolve (Ctl.castP m P) Kn' F Ob obs0 x0 (Ctl.dupV m hn y0) (some h0) hinit' fo hl fuel
      = (Ctl.hSolve P Kn f ob obs0 x0 y0 (some h0) hinit fo hl fuel).map (Ctl.dResult m hn) :=
  Ctl.hSolve_dup m hn P Kn Kn' KD F f hF Ob ob hOb obs0 x0 y0 h0 hinit hinit' fo hl fuel

/-- **Whole runs of DOPRI5 on `m ≥ 1` independent copies of a system** (the block-diagonal system `Ctl.blockRhs`, stacked
    tolerances, given first step; the automatic first step depends on `m`: open finding c13-copies-autostep). -/
theorem c13_copies_dopri5_whole_run {σ : Type} {n : Nat} (m : Nat) (hm : 0 < m) (hn : 0 < n) (L : Ctl.HLits K)
    (xend posneg uround safety scaleMin scaleMax beta hmax : K) (nmax nstiff : Nat) (dense : Bool) (atol rtol : Ctl.Vec K n)
    (f : Ctl.Rhs K n) (ob : Ctl.Obs σ K n) (obs0 : σ) (x0 : K) (y0 : Ctl.Vec K n) (h0 : K)
    (hinit : Ctl.Rhs K n → Ctl.Vec K n → K × Array (K × Ctl.Vec K n))
    (hinit' : Ctl.Rhs K (m * n) → Ctl.Vec K (m * n) → K × Array (K × Ctl.Vec K (m * n))) (fo hl : K) (fuel : Nat) :
    Ctl.hSolve (Ctl.dopri5Params L xend posneg uround safety scaleMin scaleMax beta hmax nmax nstiff dense)
        (Ctl.dopri5Kernel (Ctl.dupV m hn atol) (Ctl.dupV m hn rtol)) (Ctl.blockRhs m hn f) (Ctl.firstCopyObs m hn hm ob) obs0 x0
        (Ctl.dupV m hn y0) (some h0) hinit' fo hl fuel
      = (Ctl.hSolve (Ctl.dopri5Params L xend posneg uround safety scaleMin scaleMax beta hmax nmax nstiff dense) (Ctl.dopri5Kernel atol rtol)
        f ob obs0 x0 y0 (some h0) hinit fo hl fuel).map (Ctl.dResult m hn) :=
  Ctl.dopri5Solve_dup m hn hm L xend posneg uround safety scaleMin scaleMax beta hmax nmax nstiff dense atol rtol (Ctl.blockRhs m hn f) f
    (Ctl.blockRhs_dup m hn f) (Ctl.firstCopyObs m hn hm ob) ob (Ctl.firstCopyObs_dup m hn hm ob) obs0 x0 y0 h0 hinit hinit' fo hl fuel

/-- **Whole runs of RK23 on `m ≥ 1` independent copies of a system** (block-diagonal system, stacked tolerances, given first step). -/
theorem c13_copies_rk23_whole_run {σ : Type} {n : Nat} (m : Nat) (hm : 0 < m) (hn : 0 < n) (P : Ctl.R23Params K n) (f : Ctl.Rhs K n)
    (ob : Ctl.Obs σ K n) (obs0 : σ) (x0 : K) (y0 : Ctl.Vec K n) (h0 hmaxArg : K) (fuel : Nat) :
    Ctl.rk23Solve (Ctl.dP23 m hn P) (Ctl.blockRhs m hn f) (Ctl.firstCopyObs m hn hm ob) obs0 x0 (Ctl.dupV m hn y0) (some h0) hmaxArg fuel
      = (Ctl.rk23Solve P f ob obs0 x0 y0 (some h0) hmaxArg fuel).map (Ctl.dResult m hn) :=
  Ctl.rk23Solve_dup m hn hm P (Ctl.blockRhs m hn f) f (Ctl.blockRhs_dup m hn f) (Ctl.firstCopyObs m hn hm ob) ob
    (Ctl.firstCopyObs_dup m hn hm ob) obs0 x0 y0 h0 hmaxArg fuel

/-- **Whole runs of RK4 on `m ≥ 1` independent copies of a system.** -/
theorem c13_copies_rk4_whole_run {σ : Type} {n : Nat} (m : Nat) (hm : 0 < m) (hn : 0 < n) (P : Ctl.R4Params K) (f : Ctl.Rhs K n)
    (ob : Ctl.Obs σ K n) (obs0 : σ) (x0 : K) (y0 : Ctl.Vec K n) (h : K) (fuel : Nat) :
    Ctl.rk4Solve P (Ctl.blockRhs m hn f) (Ctl.firstCopyObs m hn hm ob) obs0 x0 (Ctl.dupV m hn y0) h fuel
      = (Ctl.rk4Solve P f ob obs0 x0 y0 h fuel).map (Ctl.dResult m hn) :=
  Ctl.rk4Solve_dup m hn P (Ctl.blockRhs m hn f) f (Ctl.blockRhs_dup m hn f) (Ctl.firstCopyObs m hn hm ob) ob
    (Ctl.firstCopyObs_dup m hn hm ob) obs0 x0 y0 h fuel

/-- **Whole runs of DOP853 on `m ≥ 1` independent copies of a system** (block-diagonal system, stacked tolerances, given first
    step), for a square root with `sqrt(a / b²) = sqrt(a) / b` (`Ctl.SqrtDiv`; the real square root has it: `sqrtDiv_real`).
    DOP853's estimate is `|h|·err·sqrt(1/(n·deno))` with `err`, `deno` sums over the components, so this law — exact for the real
    square root, true up to rounding in binary64 — is what "up to rounding in the error norm" refers to. -/
theorem c13_copies_dop853_whole_run {σ : Type} {n : Nat} (hsq : Ctl.SqrtDiv K) (m : Nat) (hm : 0 < m) (hn : 0 < n) (L : Ctl.HLits K)
    (xend posneg uround safety scaleMin scaleMax beta hmax : K) (nmax nstiff : Nat) (dense : Bool) (atol rtol : Ctl.Vec K n)
    (f : Ctl.Rhs K n) (ob : Ctl.Obs σ K n) (obs0 : σ) (x0 : K) (y0 : Ctl.Vec K n) (h0 : K)
    (hinit : Ctl.Rhs K n → Ctl.Vec K n → K × Array (K × Ctl.Vec K n))
    (hinit' : Ctl.Rhs K (m * n) → Ctl.Vec K (m * n) → K × Array (K × Ctl.Vec K (m * n))) (fo hl : K) (fuel : Nat) :
    Ctl.hSolve (Ctl.dop853Params L xend posneg uround safety scaleMin scaleMax beta hmax nmax nstiff dense)
        (Ctl.dop853Kernel (Ctl.dupV m hn atol) (Ctl.dupV m hn rtol)) (Ctl.blockRhs m hn f) (Ctl.firstCopyObs m hn hm ob) obs0 x0
        (Ctl.dupV m hn y0) (some h0) hinit' fo hl fuel
      = (Ctl.hSolve (Ctl.dop853Params L xend posneg uround safety scaleMin scaleMax beta hmax nmax nstiff dense) (Ctl.dop853Kernel atol rtol)
        f ob obs0 x0 y0 (some h0) hinit fo hl fuel).map (Ctl.dResult m hn) :=
  Ctl.dop853Solve_dup m hn hsq hm L xend posneg uround safety scaleMin scaleMax beta hmax nmax nstiff dense atol rtol (Ctl.blockRhs m hn f) f
    (Ctl.blockRhs_dup m hn f) (Ctl.firstCopyObs m hn hm ob) ob (Ctl.firstCopyObs_dup m hn hm ob) obs0 x0 y0 h0 hinit hinit' fo hl fuel

/-- the hypothesis `SqrtDiv` holds for the real square root (with any power function) -/
theorem sqrtDiv_real (p : ℝ → ℝ → ℝ) : @Ctl.SqrtDiv ℝ _ _ ⟨Real.sqrt, p⟩ := by
  intro a b hb
  show Real.sqrt (a / (b * b)) = Real.sqrt a / b
  rw [Real.sqrt_div' a (mul_self_nonneg b), Real.sqrt_mul_self hb.le]

/-- **Radau's control logic under time reflection**, from the start of `solve` (given or default first step, max_step limit, landing
    test) through every pass (factorisation failures, the Newton loop with its three exits, error test, Gustafsson controller,
    step-size limits, landing, reuse of the Jacobian): for every list of answers of the numeric kernel (`PassOracle`: singular flags,
    Newton increments, error estimates) and of the callback, the run over the mirrored span ends with the same status and
    counters at the mirrored point with the mirrored step.  (`RadauCtl` is tied to radau.rs by the X-radau trace co-simulation.) -/
theorem c13_reflect_radau_control (L : RadauCtl.Lits K) (hz : L.zero = 0) (S : RadauCtl.Setup K) (hne : S.xend ≠ S.x0)
    (hM : ∀ mx, S.maxStep = some mx → 0 ≤ mx) (os : List (RadauCtl.PassOracle K)) :
    (match RadauCtl.start L (RadauCtl.rSetup S) with
     | .inr q => some q
     | .inl t => RadauCtl.run L (RadauCtl.params L (RadauCtl.rSetup S)) os t)
    = (match RadauCtl.start L S with
       | .inr r => some r
       | .inl s => RadauCtl.run L (RadauCtl.params L S) os s).map RadauCtl.rRes :=
  RadauCtl.solve_mir L hz S hne hM os

/-- **BDF's control logic under time reflection**, from the start of `solve` through every pass (step-size limits and landing,
    the stagnation guard `x + 0.1·h == x`, reuse of the factorisation, the corrector loop, error test, order and step-size selection):
    for every list of answers of the numeric kernel and of the callback, the run over the mirrored span ends with the same
    status and counters at the mirrored point.  (Exact arithmetic: the asymmetry repaired by f1a31fd — the stagnation guard with |h| —
    lay in the spacing of binary64 numbers and is invisible here; sym-check's reflect-ulp-span family covers it.  `BdfCtl` is tied to
    bdf.rs by the X-bdf trace co-simulation.) -/
theorem c13_reflect_bdf_control (L : BdfCtl.Lits K) (hz : L.zero = 0) (S : BdfCtl.Setup K) (hne : S.xend ≠ S.x0)
    (os : List (BdfCtl.PassOracle K)) :
    (match BdfCtl.start L (BdfCtl.rSetup S) with
     | .inr q => some q
     | .inl t => BdfCtl.run L (BdfCtl.params (BdfCtl.rSetup S)) os t)
    = (match BdfCtl.start L S with
       | .inr r => some r
       | .inl s => BdfCtl.run L (BdfCtl.params S) os s).map BdfCtl.rRes :=
  BdfCtl.solve_mir L hz S hne os

/-- BDF's norm (translated from bdf.rs) is invariant under a common scaling of values and scales, whatever their size -/
theorem c13_scale_bdf_norm {n : Nat} (c : K) (hc : c ≠ 0) (values scale : Vector K n) (hnz : ∀ i : Fin n, scale[i] ≠ 0) :
    Gen.Bdf.weightedRmsScaled (scale := vsmul c scale) (values := vsmul c values)
      = Gen.Bdf.weightedRmsScaled (scale := scale) (values := values) := bdf_weightedRms_scale c hc values scale hnz

theorem c13_copies_norm (m n : Nat) (hm : 0 < m) (hn : 0 < n) (e sk : Fin n → K) :
    errSum (n := m * n) (fun i => e ⟨i.val % n, Nat.mod_lt _ hn⟩) (fun i => sk ⟨i.val % n, Nat.mod_lt _ hn⟩) / ((m * n : Nat) : K)
      = errSum e sk / (n : K) := errSum_copies m n hm hn e sk
