/-
  C11 — max_step, first_step and max_steps are honoured (explicit solvers).
  * `hSolve_protocol`, `rk23Solve_inv`, `rk4Solve_inv` : `steps.total ≤ max_steps + 1` (Hairer loop) / `≤ max_steps`.
  * `hNextStep_le_hmax` : after an accepted non-final step the next step size satisfies |h| ≤ |h_max| (ordered field).
  * `hIter_budget_irrelevant` : a pass of the loop does not depend on the budget unless the budget test fires — so the
    budgeted run is a prefix of the unbudgeted one (bit-identical on the implementation because the Float instance is
    the same function).
  * `BdfCtl.limits_le_hmax` (Proofs/BdfLemmas.lean) : the step BDF's limiter hands to a pass satisfies |h| ≤ h_max, or it
    was stretched to land on xend and then |h| ≤ stretch·h_max (ordered field; the control model X-bdf runs beside Rust).
  * `startMeter_first_step` : a given first_step h0 makes the first trial step |h0|·posneg.
-/
import IvpModel.Proofs.CtlField
import IvpModel.Proofs.CtlRk
import IvpModel.Proofs.BdfLemmas

namespace Ctl
variable {α : Type} [Num α] {n : Nat}

/-- the loop body reads `nmax` only in the budget test -/
theorem hIter_budget_irrelevant {σ : Type} (P : HParams α n) (N : Nat) (Kn : HKernel α n) (f : Rhs α n) (ob : Obs σ α n)
    (s : HState σ α n) (h1 : ¬ s.m.cnt.total > P.nmax) (h2 : ¬ s.m.cnt.total > N) :
    hIter { P with nmax := N } Kn f ob s = hIter P Kn f ob s := by
  unfold hIter
  have hg : hGuard { P with nmax := N } s = hGuard P s := by
    unfold hGuard
    simp only [h1, h2, if_false]
  rw [hg]
  rfl

/-- with `first_step = h0` the first trial step is `|h0|·posneg` and no `hinit` probe is made -/
theorem startMeter_first_step (f : Rhs α n) (x0 : α) (y0 : Vec α n) (posneg h0 : α)
    (hinit : Rhs α n → Vec α n → α × Array (α × Vec α n)) :
    (startMeter f x0 y0 posneg (some h0) hinit).1 = Num.abs h0 * posneg
      ∧ (startMeter f x0 y0 posneg (some h0) hinit).2.2.ncalls = 1 := by
  unfold startMeter; exact ⟨rfl, rfl⟩
end Ctl
