/-
  C11 — max_step, first_step and max_steps are honoured (explicit solvers).
  * `hSolve_protocol`, `rk23Solve_inv`, `rk4Solve_inv` : `steps.total ≤ max_steps + 1` (Hairer loop) / `≤ max_steps`.
  * `hNextStep_le_hmax` : after an accepted non-final step the next step size satisfies |h| ≤ |h_max| (ordered field).
  * `hIter_budget_irrelevant` : a pass of the loop does not depend on the budget unless the budget test fires — so the
    budgeted run is a prefix of the unbudgeted one (bit-identical on the implementation because the Float instance is
    the same function).
  * `BdfCtl.limits_le_hmax` (Proofs/BdfLemmas.lean) : the step BDF's limiter hands to a pass satisfies |h| ≤ h_max, or it
    was stretched to land on xend and then |h| ≤ stretch·h_max (ordered field; the control model X-bdf runs beside Rust).
  * `startMeter_first_step` : a given first_step h0 makes the first trial step min(|h0|, hmax)·posneg; `startMeter_given_le_hmax`:
    it is never longer than max_step, and it is |h0| itself when |h0| ≤ max_step.
  * `startMeter_auto_le_hmax` (via `HinitBound.hinit_le_hmax`, the translated `hinit`) : an automatically chosen first
    step is at most min(h_max, |xend − x0|), for every right-hand side (ordered field; `powf ≥ 0` at base ≥ 0 assumed).
  * `RadauCtl.c11_radau_steps` (Proofs/RadauStep.lean: `pass_rinv`, `run_rinv`, `start_rinv`) : every pass of every Radau
    run works with |h| ≤ h_max, or ≤ 1.01·h_max on the landing step, pointing toward xend and not passing it.
-/
import IvpModel.Proofs.CtlField
import IvpModel.Proofs.CtlRk
import IvpModel.Proofs.BdfLemmas
import IvpModel.Proofs.HinitBound
import IvpModel.Proofs.RadauStep
import IvpModel.Model.Kernels

namespace Ctl
variable {α : Type} [Num α] {n : Nat}

/-- the loop body reads `nmax` only in the budget test -/
theorem hIter_budget_irrelevant {σ : Type} (P : HParams α n) (N : Nat) (Kn : HKernel α n) (f : Rhs α n) (ob : Obs σ α n)
    (s : HState σ α n) (h1 : ¬ s.m.cnt.total > P.nmax) (h2 : ¬ s.m.cnt.total > N) :
    hIter { P with nmax := N } Kn f ob s = hIter P Kn f ob s := by
  unfold hIter
  have hg : hGuard { P with nmax := N } s = hGuard P s := by
    unfold hGuard
    simp only [h1, h2, if_false]
  rw [hg]
  rfl

/-- with `first_step = h0` the first trial step is `min(|h0|, hmax)·posneg` and no `hinit` probe is made -/
theorem startMeter_first_step (f : Rhs α n) (x0 : α) (y0 : Vec α n) (posneg hcap h0 : α)
    (hinit : Rhs α n → Vec α n → α × Array (α × Vec α n)) :
    (startMeter f x0 y0 posneg hcap (some h0) hinit).1 = Num.fmin (Num.abs h0) hcap * posneg
      ∧ (startMeter f x0 y0 posneg hcap (some h0) hinit).2.2.ncalls = 1 := by
  unfold startMeter; exact ⟨rfl, rfl⟩
end Ctl

namespace Ctl
noncomputable section
variable {K : Type} [Field K] [LinearOrder K] [IsStrictOrderedRing K] [SqrtPow K] {n : Nat}

/-- **C11, automatically chosen first step (DOPRI5 / DOP853 / RK23).**  Without `first_step` the first trial step is what
    `hinit` returns, and that is at most the `hmax.min(|xend − x0|)` it was given, for every right-hand side. -/
theorem startMeter_auto_le_hmax (hpow : ∀ a b : K, 0 ≤ a → 0 ≤ SqrtPow.pow a b) (f : Rhs K n) (x0 : K) (y0 : Vec K n)
    (atol rtol : Vec K n) (posneg hmax span : K) (iord : Nat) (hm : 0 ≤ hmax) (hs : 0 ≤ span) :
    |(startMeter f x0 y0 posneg hmax none (hinitCall atol rtol x0 y0 posneg (Num.fmin hmax span) iord)).1| ≤ hmax
    ∧ |(startMeter f x0 y0 posneg hmax none (hinitCall atol rtol x0 y0 posneg (Num.fmin hmax span) iord)).1| ≤ span := by
  have h := HinitBound.hinit_le_hmax hpow (fun j => f (1 + j)) atol rtol y0 (f 0 x0 y0) (Num.fmin hmax span) posneg x0 iord
  rw [num_fmin, abs_of_nonneg (le_min hm hs)] at h
  exact ⟨le_trans h (min_le_left _ _), le_trans h (min_le_right _ _)⟩

/-- **C11, given first step (DOPRI5 / DOP853 / RK23).**  The first trial step is never longer than `max_step`, and it is the
    given `first_step` whenever that is not larger than `max_step` (`posneg = ±1`). -/
theorem startMeter_given_le_hmax (f : Rhs K n) (x0 : K) (y0 : Vec K n) (posneg hmax h0 : K)
    (hinit : Rhs K n → Vec K n → K × Array (K × Vec K n)) (hm : 0 ≤ hmax) (hp : |posneg| = 1) :
    |(startMeter f x0 y0 posneg hmax (some h0) hinit).1| ≤ hmax
    ∧ (|h0| ≤ hmax → (startMeter f x0 y0 posneg hmax (some h0) hinit).1 = |h0| * posneg) := by
  unfold startMeter
  simp only [num_fmin, num_abs]
  constructor
  · rw [abs_mul, hp, mul_one, abs_of_nonneg (le_min (abs_nonneg _) hm)]
    exact min_le_right _ _
  · intro h; rw [min_eq_left h]
end
end Ctl

namespace RadauCtl
noncomputable section
variable {K : Type} [Field K] [LinearOrder K] [IsStrictOrderedRing K] [SqrtPow K]

/-- **C11 / C03 (Radau), from the first pass on.**  With the literals of radau.rs, default-like settings
    (`1.01·safety ≤ 1`, `1.01·scale_min ≤ 1`) and `max_step ≥ 0`, every pass of every run — whatever the factorisations,
    Newton increments, error estimates and callback answer — works with a step that points toward `xend`, does not pass
    it, and is at most `h_max`, or at most `1.01·h_max` when it is the landing step. -/
theorem c11_radau_steps (hpow : PowOK K) (S : Setup K) (hs : 0 < S.safety) (hsS : (101 / 100 : K) * S.safety ≤ 1)
    (hmin : 0 < S.scaleMin) (hminS : (101 / 100 : K) * S.scaleMin ≤ 1) (hN : 1 ≤ S.maxNewton)
    (hM : ∀ m, S.maxStep = some m → 0 ≤ m) (s0 : State K) (h0 : start ratLits S = .inl s0) (os : List (PassOracle K)) :
    ∀ s ∈ runStates ratLits (params ratLits S) os s0,
      (s.last = false → |s.h| ≤ (params ratLits S).hmax) ∧ |s.h| ≤ (101 / 100 : K) * (params ratLits S).hmax
        ∧ 0 ≤ s.h * (params ratLits S).posneg ∧ 0 ≤ (S.xend - (s.x + s.h)) * (params ratLits S).posneg := by
  have hP := params_ok ratLits ratLits_ok S hs hsS hmin hminS hN hM
  intro s hm
  have := run_rinv ratLits (params ratLits S) ratLits_ok hP hpow os s0 (start_rinv ratLits ratLits_ok S hP s0 h0) s hm
  exact ⟨this.short, this.bound, this.dir, this.room⟩

/-- the hypotheses of `c11_radau_steps` are satisfiable: ℚ with `pow a b := 1`, the default settings -/
local instance : SqrtPow ℚ := ⟨id, fun _ _ => 1⟩
example : PowOK ℚ := ⟨fun _ _ _ _ => le_refl _, fun _ _ _ _ => ⟨zero_le_one, le_refl _⟩⟩
example : (0 : ℚ) < 9 / 10 ∧ (101 / 100 : ℚ) * (9 / 10) ≤ 1 ∧ (0 : ℚ) < 1 / 5 ∧ (101 / 100 : ℚ) * (1 / 5) ≤ 1 := by norm_num
end
end RadauCtl
