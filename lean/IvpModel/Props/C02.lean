/-
  C02 — each method attains its advertised order.

  Property theorems only (helper lemmas live in `Proofs/`).  Reading guide:

  * `*_stage_eqs`, `*_new_state` (re-exported from `Proofs/StageEqs*.lean`): the translated stage code
    is the explicit Runge–Kutta scheme with tableau `T` (= `Model/Tableaux.lean`, built from the
    regenerated constants), for every dimension, state, step size (either sign) and whatever the
    right-hand side returns.
  * `condExact T.N T.M T.S t = true` is the integer form of the order condition
    `Σ_i b_i Φ_i(t) = 1/γ(t)` for the tree `t` (`a_ij = N_ij/S`, `b_i = M_i/S`; see `Model/Trees.lean`).
    `BTree.forall_of_all` (completeness of the enumeration, proved) turns the kernel-evaluated check over
    the enumerated trees into a statement about **every** rooted tree of order ≤ p.
  * `condApprox … tolInv t` is `|Σ b_i Φ_i(t) − 1/γ(t)| ≤ 1/tolInv` (DOP853's 30-digit literals and all
    binary64 tables satisfy the conditions only to their precision).
-/
import IvpModel.Proofs.TreesLemmas
import IvpModel.Proofs.StageEqs853
import IvpModel.Model.RadauTab

open BTree

/-! ### every order condition up to p, exactly (rational tableaux) -/

theorem rk4_order4 : ∀ t : BTree, t.order ≤ 4 → condExact rk4Tab.N rk4Tab.M rk4Tab.S t = true :=
  forall_of_all (p := 4) (by decide +kernel)

theorem rk23_order3 : ∀ t : BTree, t.order ≤ 3 → condExact rk23Tab.N rk23Tab.M rk23Tab.S t = true :=
  forall_of_all (p := 3) (by decide +kernel)

theorem dopri5_order5 : ∀ t : BTree, t.order ≤ 5 → condExact dopri5Tab.N dopri5Tab.M dopri5Tab.S t = true :=
  forall_of_all (p := 5) (by decide +kernel)

/-- DOP853, 30-digit literals: all 626 conditions up to order 8 hold to 10⁻²⁵ -/
theorem dop853_order8 : ∀ t : BTree, t.order ≤ 8 →
    condApprox dop853Tab.N dop853Tab.M dop853Tab.S (10 ^ 25) t = true :=
  forall_of_all (p := 8) (by decide +kernel)

/-! ### … and with the binary64 values the code multiplies by (to 10⁻¹³) -/

theorem rk4_order4_f64 : ∀ t : BTree, t.order ≤ 4 →
    condApprox rk4TabF.N rk4TabF.M rk4TabF.S (10 ^ 13) t = true :=
  forall_of_all (p := 4) (by decide +kernel)
theorem rk23_order3_f64 : ∀ t : BTree, t.order ≤ 3 →
    condApprox rk23TabF.N rk23TabF.M rk23TabF.S (10 ^ 13) t = true :=
  forall_of_all (p := 3) (by decide +kernel)
theorem dopri5_order5_f64 : ∀ t : BTree, t.order ≤ 5 →
    condApprox dopri5TabF.N dopri5TabF.M dopri5TabF.S (10 ^ 13) t = true :=
  forall_of_all (p := 5) (by decide +kernel)
theorem dop853_order8_f64 : ∀ t : BTree, t.order ≤ 8 →
    condApprox dop853TabF.N dop853TabF.M dop853TabF.S (10 ^ 13) t = true :=
  forall_of_all (p := 8) (by decide +kernel)

/-! ### the orders are sharp (so a theorem for p+1 would be false — non-vacuity of the checker) -/

theorem rk4_not_order5 : ∃ t : BTree, t.order = 5 ∧ condExact rk4Tab.N rk4Tab.M rk4Tab.S t = false :=
  ⟨.graft (.graft (.graft (.graft .leaf .leaf) .leaf) .leaf) .leaf, by decide +kernel⟩
theorem rk23_not_order4 : ∃ t : BTree, t.order = 4 ∧ condExact rk23Tab.N rk23Tab.M rk23Tab.S t = false :=
  ⟨.graft (.graft (.graft .leaf .leaf) .leaf) .leaf, by decide +kernel⟩
theorem dopri5_not_order6 : ∃ t : BTree, t.order = 6 ∧ condExact dopri5Tab.N dopri5Tab.M dopri5Tab.S t = false :=
  ⟨.graft (.graft (.graft (.graft (.graft .leaf .leaf) .leaf) .leaf) .leaf) .leaf, by decide +kernel⟩

/-! ### row sums `c_j = Σ_l a_jl` for the nodes actually passed to the right-hand side, nodes in [0,1] -/

theorem rowsum_rk4 : rk4Tab.rowSumOK = true ∧ rk4Tab.nodesInUnit = true := by decide +kernel
theorem rowsum_rk23 : rk23Tab.rowSumOK = true ∧ rk23Tab.nodesInUnit = true := by decide +kernel
theorem rowsum_dopri5 : dopri5Tab.rowSumOK = true ∧ dopri5Tab.nodesInUnit = true := by decide +kernel
theorem rowsum_dop853 : dop853Tab.rowSumApproxOK (10 ^ 25) = true ∧ dop853Tab.nodesInUnit = true := by
  decide +kernel

/-! ### embedded error estimators: vanish on everything the lower-order formula integrates exactly,
       and not on the next order (local estimate Θ(h^q), q = 3, 5; DOP853: the 5th- and 3rd-order pair) -/

def E_kills (T : QTableau) (E : List QQ) (t : BTree) : Bool :=
  let S' := Nat.lcm T.S (lcmAll [E]); condZero (T.A.map (scaleRow S')) (scaleRow S' E) t
def E_killsApprox (T : QTableau) (E : List QQ) (tolInv : Nat) (t : BTree) : Bool :=
  let S' := Nat.lcm T.S (lcmAll [E]); condZeroApprox (T.A.map (scaleRow S')) (scaleRow S' E) S' tolInv t

theorem rk23_est_order2 : (∀ t : BTree, t.order ≤ 2 → E_kills rk23Tab rk23E t = true)
    ∧ ∃ t : BTree, t.order = 3 ∧ E_kills rk23Tab rk23E t = false :=
  ⟨forall_of_all (p := 2) (by decide +kernel), ⟨.graft (.graft .leaf .leaf) .leaf, by decide +kernel⟩⟩

theorem dopri5_est_order4 : (∀ t : BTree, t.order ≤ 4 → E_kills dopri5Tab dopri5E t = true)
    ∧ ∃ t : BTree, t.order = 5 ∧ E_kills dopri5Tab dopri5E t = false :=
  ⟨forall_of_all (p := 4) (by decide +kernel),
   ⟨.graft (.graft (.graft (.graft .leaf .leaf) .leaf) .leaf) .leaf, by decide +kernel⟩⟩

/-- DOP853 fifth-order estimator `Σ ER_i k_i`: |·| ≤ 10⁻²⁰ on all trees of order ≤ 5, ≥ 10⁻⁶ on one of order 6 -/
theorem dop853_est5_order5 : (∀ t : BTree, t.order ≤ 5 → E_killsApprox dop853Tab dop853E5 (10 ^ 20) t = true)
    ∧ ∃ t : BTree, t.order = 6 ∧ E_killsApprox dop853Tab dop853E5 (10 ^ 6) t = false :=
  ⟨forall_of_all (p := 5) (by decide +kernel),
   ⟨.graft (.graft (.graft (.graft (.graft .leaf .leaf) .leaf) .leaf) .leaf) .leaf, by decide +kernel⟩⟩

/-- DOP853 third-order companion `k4 − BH1 k1 − BH2 k9 − BH3 k12 = (b − b̂₃)·K`: `b̂₃` is a third-order
    formula (conditions to 10⁻²⁰ up to order 3) and not fourth-order -/
def dop853Tab3 : QTableau := { dop853Tab with b := dop853BH }
theorem dop853_est3_order3 : (∀ t : BTree, t.order ≤ 3 →
      condApprox dop853Tab3.N dop853Tab3.M dop853Tab3.S (10 ^ 20) t = true)
    ∧ ∃ t : BTree, t.order = 4 ∧ condApprox dop853Tab3.N dop853Tab3.M dop853Tab3.S (10 ^ 6) t = false :=
  ⟨forall_of_all (p := 3) (by decide +kernel), ⟨.graft (.graft (.graft .leaf .leaf) .leaf) .leaf, by decide +kernel⟩⟩

/-! ### Radau IIA (order 5)

  `Radau14.constantsCheck` (kernel-evaluated on the regenerated literals): the matrices the simplified Newton iteration
  factorises, (U1/h)I − J and ((ALPH ± iBETA)/h)I − J, with the transformations T, TI, are the eigen-decomposition of
  the inverse of the 3-stage Radau IIA matrix A(√6) to 1e-13; the stage times C1, C2 are its nodes (4∓√6)/10; the
  characteristic polynomials of A and A − 1bᵀ are those of the (2,3) Padé approximant, i.e. one step on y' = λy multiplies
  by P(hλ)/Q(hλ).  `radau_order5`: that tableau, with the stage times the code uses, satisfies every rooted-tree order
  condition up to order 5 (to 1e-14: s6 is a 1e-17 rational approximation of √6), its rows sum to the code's stage
  times, and it is not of order 6.  (The Newton iteration converging to the stage equations is run-time behaviour:
  X-radau / order-probe.) -/

theorem radau_constants : Radau14.constantsCheck = true := by decide +kernel

theorem radau_order5 : (∀ t : BTree, t.order ≤ 5 →
      condApprox Radau14.radauTab.N Radau14.radauTab.M Radau14.radauTab.S (10 ^ 14) t = true)
    ∧ Radau14.radauTab.rowSumApproxOK (10 ^ 14) = true ∧ Radau14.radauTab.nodesInUnit = true :=
  ⟨forall_of_all (p := 5) (by decide +kernel), by decide +kernel, by decide +kernel⟩

theorem radau_not_order6 : ∃ t : BTree, t.order = 6 ∧
    condApprox Radau14.radauTab.N Radau14.radauTab.M Radau14.radauTab.S (10 ^ 6) t = false :=
  ⟨.graft (.graft (.graft (.graft (.graft .leaf .leaf) .leaf) .leaf) .leaf) .leaf, by decide +kernel⟩

/-! ### the code is that scheme
  `rk4_stage_eqs`, `rk4_update_eq`, `rk23_stage_eqs`, `rk23_new_state`, `rk23_err_eq`, `dopri5_stage_eqs`,
  `dopri5_new_state`, `dopri5_stage_buffers`, `dopri5_err_eq`, `dop853_stage_eqs`, `dop853_stage_buffers`,
  `dop853_new_state` (in `Proofs/StageEqs.lean`, `Proofs/StageEqs853.lean`) are part of C02's obligation list. -/
