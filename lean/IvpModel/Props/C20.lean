/-
  C20 — the Python binding returns the Rust solution in SciPy layout.   (PARTIAL: the binding's own logic)

  The binding contains no numerics.  What it adds to the Rust `solve_ivp` is (a) the re-layout of `Solution` into
  `OdeResult`, (b) the status / success mapping, (c) the column grouping and grouped finite differences for
  `jac_sparsity`, (d) argument marshalling through the CPython API.  (a)–(c) are index logic, modelled in
  Model/PyLayer.lean and proved here for every shape and every pattern; (d) is not expressible in a Lean model and is
  covered only by running the real extension module (X-py co-simulation and the Python monitor, see DESIGN.md).

  * `c20_layout`        : `y` has shape (n, m) — also for m = 0 — and `y[j][i]` (flat index j·m + i) is the Rust `sol.y[i][j]`, for every
                           n, m; `t`, counters and event lists are passed through; `njev` is 0 for a constant Jacobian.
  * `c20_status`        : status ∈ {0, 1, −1}; 0 ⇔ Success, 1 ⇔ UserInterrupt; success ⇔ status ≥ 0 ⇔ Rust `is_success`.
  * `c20_sol_layout`    : `sol(ts)` is (n, k) with entry (j, i) the j-th component at `ts[i]`.
  * `c20_grouping_sound`: the greedy grouping never puts two columns that share a row in one group (every pattern
                           with in-range rows; out-of-range rows are exactly the inputs on which the Rust code panics).
  * `c20_sparsity_same_jacobian` : for a right-hand side whose row r reads only the columns whose pattern contains
                           r, every entry written by the grouped differences is the entry of the dense loop —
                           syntactically the same computation, hence equal in binary64 too.
-/
import IvpModel.Proofs.PyLemmas

namespace Py
variable {α : Type}

theorem c20_layout [Inhabited α] (n : Nat) (s : Solution α) (hasEvents constJac : Bool) :
    let r := buildResult n s hasEvents constJac
    r.t = s.t ∧ r.yShape = (n, s.y.size) ∧ r.y.size = n * s.y.size ∧
    (∀ i j, i < s.y.size → j < n → r.y[j * s.y.size + i]! = (s.y[i]!)[j]!) ∧
    r.nfev = s.nfev ∧ r.nlu = s.nlu ∧ r.njev = (if constJac then 0 else s.njev) ∧
    (r.tEvents = if hasEvents then some s.tEvents else none) ∧ r.hasSol = s.dense := by
  intro r
  obtain ⟨h0, h1, h3, h4⟩ := transposeY_spec n s.y
  exact ⟨rfl, rfl, h3, h4, rfl, rfl, rfl, rfl, rfl⟩

theorem c20_status (st : Status) :
    (statusInt st = 0 ∨ statusInt st = 1 ∨ statusInt st = -1) ∧ (statusInt st = 0 ↔ st = .success) ∧
    (statusInt st = 1 ↔ st = .userInterrupt) ∧ (successFlag st = true ↔ statusInt st ≥ 0) ∧
    successFlag st = rustIsSuccess st :=
  ⟨statusInt_values st, statusInt_zero_iff st, statusInt_one_iff st, success_iff st, success_eq_rust st⟩

theorem c20_sol_layout [Inhabited α] (flat : Array α) (k n : Nat) :
    (transposeFlat flat k n).size = k * n ∧
    ∀ i j, i < k → j < n → (transposeFlat flat k n)[j * k + i]! = flat[i * n + j]! := transposeFlat_spec flat k n

theorem c20_grouping_sound (cols : List (List Nat)) (n : Nat) (groups : List Nat) (k : Nat)
    (h : groupColumns cols n = some (groups, k)) :
    groups.length = cols.length ∧ (∀ c, c < cols.length → groups.getD c 0 < k) ∧
    ∀ c1 c2, c1 < cols.length → c2 < cols.length → c1 ≠ c2 → groups.getD c1 0 = groups.getD c2 0 →
      ∀ r, r ∈ cols.getD c1 [] → r ∉ cols.getD c2 [] := groupColumns_sound cols n groups k h

theorem c20_sparsity_same_jacobian [Add α] [Sub α] [Div α] (f : (Nat → α) → Nat → α) (cols : List (List Nat)) (n : Nat)
    (groups : List Nat) (k : Nat) (hg : groupColumns cols n = some (groups, k)) (hf : Respects f cols)
    (y h : Nat → α) (row col : Nat) (hcol : col < cols.length) (hrow : row ∈ cols.getD col []) :
    sparseEntry f y h groups row col = denseEntry f y h row col :=
  sparseEntry_eq_dense f cols n groups k hg hf y h row col hcol hrow

/-- non-vacuity: the "pool + chain" pattern (row 0 dense, sub-diagonal) needs one group per column; a tridiagonal
    pattern of size 6 needs three -/
example : groupColumns [[0, 1], [0, 1, 2], [0, 2, 3], [0, 3, 4], [0, 4]] 5 = some ([0, 1, 2, 3, 4], 5) := by decide
example : groupColumns [[0, 1], [0, 1, 2], [1, 2, 3], [2, 3, 4], [3, 4, 5], [4, 5]] 6 = some ([0, 1, 2, 0, 1, 2], 3) := by decide
example : groupColumns [[0, 7]] 3 = none := by decide

end Py
