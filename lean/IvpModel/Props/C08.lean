/-
  C08 — reported events are genuine, direction-filtered, ordered and consistent.
  Theorems on the handler model (Proofs/SolOutLemmas.lean):
  * `crossed_all/positive/negative`, `crossed_of_strict` : the direction filter means what the enum says, in the order
    of integration (`left` = value at the earlier accepted point whatever the sign of the step).
  * `locate_left/right` : an exact zero of the event function at an end of the step is reported there with the stored state (no comparison of event values with a time tolerance); `locate_state_is_interp` : in the
    Brent branch the reported state is the step interpolant evaluated at the reported time.
  * `processEvs_prefix` : events are recorded in sorted (chronological) order, a terminal event cuts the list.
  The Brent iteration itself (root accuracy, staying inside the step) is tied by co-simulation and monitored on the
  implementation; see DESIGN.md (D8) for the acceptance-test normalisation.
-/
import IvpModel.Proofs.SolOutPhases
