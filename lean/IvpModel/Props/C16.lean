/-
  C16 — LU factorisation and triangular solves are correct, real and complex.   (PARTIAL)

  Full statement: for every nonsingular n×n matrix (n = 1..12) the computed x has a backward-stable residual
  |A·x − b| ≤ c·n·eps·|A|·|x| with multipliers ≤ 1; zero pivot column ⇒ SingularMatrix; shape / pivot-length
  mismatch ⇒ the corresponding error; only the right-hand side is modified by a solve.

  What is proved here, over every ordered field (exact arithmetic, where "backward stable" reads "exact"):
    * shape and pivot-length rejections, every size;
    * n = 1, real and complex: refused iff the entry is zero, otherwise the solve is exact;
    * n = 2, real, every matrix and right-hand side: det ≠ 0 ⇒ accepted, A·x = b exactly, |multiplier| ≤ 1
      (both pivoting branches, both "skip zero column" branches); det = 0 ⇒ SingularMatrix.
    * every n ≥ 1, real (model `LUF`, the closed form of the same loops; both real models answer every X-lu line and
      must agree with each other and with Rust bit for bit): whenever the factorisation is accepted, the solve returns
      an x with A·x = b exactly for every right-hand side, every stored multiplier has magnitude ≤ 1 and every
      diagonal entry of U is non-zero (`LUF.c16_general_exact`, by induction over the elimination steps); a matrix
      whose first column is zero is refused (`LUF.c16_zero_first_column`).
    * every n ≥ 2, real: the factorisation is accepted exactly when the matrix is nonsingular
      (`LUF.c16_accept_iff_nonsingular`: a refused matrix has a non-trivial kernel vector — constructed by solving the
      triangular block above the vanishing pivot column — and an accepted one is injective).
  What is NOT a theorem: complex sizes ≥ 2 in exact arithmetic, and the rounding-error bound itself, which is a statement about IEEE arithmetic.  For those the model is only *executed*: X-lu runs `LU.decomp` /
  `LU.solve` / `LU.decompC` / `LU.solveC` at `Float` beside the Rust routines (factors, pivots, solutions agree
  bit for bit on the exhaustive small-integer set and the random families), and `bin/lu_oracle.py` checks residual,
  multiplier and singularity claims of those same outputs in exact rational arithmetic.
  "Only the right-hand side is modified": the model's `solve` is a pure function of `(a, ip, b)`; that the Rust
  signature takes `a: &Matrix` (so it cannot be written) is checked on the source text by bin/props.py.
-/
import IvpModel.Proofs.LuLemmas
import IvpModel.Proofs.LufLemmas
import IvpModel.Proofs.LufSingular

namespace LU
noncomputable section
variable {K : Type} [Field K] [LinearOrder K] [IsStrictOrderedRing K] [SqrtPow K]

theorem c16_shape_errors (rows cols l : Nat) (a : Array K) :
    (rows ≠ cols → decomp rows cols l a = .error .nonSquare) ∧
    (rows = cols → l ≠ rows → decomp rows cols l a = .error .pivotSize) := by
  refine ⟨decomp_nonSquare rows cols l a, ?_⟩
  rintro rfl h
  exact decomp_pivotSize rows l a h

theorem c16_shape_errors_complex (n l : Nat) (ar ai : Array K) (h : l ≠ n) :
    decompC n l ar ai = .error .pivotSize := decompC_pivotSize n l ar ai h

theorem c16_n1 (a b : K) :
    (a = 0 → decomp 1 1 1 #[a] = .error .singular) ∧
    (a ≠ 0 → decomp 1 1 1 #[a] = .ok (#[a], #[0]) ∧ a * (solve 1 #[a] #[0] #[b]).getD 0 0 = b) := by
  refine ⟨fun h => by simp [decomp_one, h], fun h => ⟨by simp [decomp_one, h], solve_one a b h⟩⟩

theorem c16_n1_complex (a b p q : K) :
    (a = 0 ∧ b = 0 → decompC 1 1 #[a] #[b] = .error .singular) ∧
    (¬ (a = 0 ∧ b = 0) → decompC 1 1 #[a] #[b] = .ok (#[a], #[b], #[0]) ∧
      (let r := solveC 1 #[a] #[b] #[0] #[p] #[q]
       a * r.1.getD 0 0 - b * r.2.getD 0 0 = p ∧ a * r.2.getD 0 0 + b * r.1.getD 0 0 = q)) := by
  refine ⟨fun h => by simp [decompC_one, h], fun h => ⟨by simp [decompC_one, h], solveC_one a b p q h⟩⟩

/-- every nonsingular 2×2 system is solved exactly, with the stored multiplier at most 1 in magnitude -/
theorem c16_n2_exact_partial (a b c d b1 b2 : K) (hdet : a * d - b * c ≠ 0) : Correct2 a b c d b1 b2 := by
  by_cases hp : |c| > |a|
  · exact lu2_swap a b c d b1 b2 hdet hp
  · exact lu2_noswap a b c d b1 b2 hdet hp

/-- a 2×2 matrix is refused exactly when it is singular -/
theorem c16_n2_singular_iff (a b c d : K) :
    decomp 2 2 2 #[a, b, c, d] = .error .singular ↔ a * d - b * c = 0 := by
  constructor
  · intro h
    by_contra hdet
    have := c16_n2_exact_partial a b c d 0 0 hdet
    simp [Correct2, h] at this
  · exact lu2_singular a b c d

/-- non-vacuity: a matrix that needs the row swap -/
example : (1 : ℚ) * 4 - 2 * 3 ≠ 0 ∧ |(3 : ℚ)| > |1| := by norm_num

end
end LU

namespace LUF
noncomputable section
open Finset
variable {K : Type} [Field K] [LinearOrder K] [IsStrictOrderedRing K] [SqrtPow K]

/-- **every size**: an accepted factorisation solves `A·x = b` exactly for every right-hand side; partial pivoting keeps
    every stored multiplier at most 1 in magnitude; `U` has a non-zero diagonal -/
theorem c16_general_exact (n : Nat) (hn : 2 ≤ n) (a0 F : Array K) (ip : Array Nat)
    (h : decomp n n n a0 = .ok (F, ip)) :
    (∀ (b0 : Array K), b0.size = n → ∀ i, i < n →
        ∑ j ∈ range n, toFun n a0 i j * (solve n F ip b0).getD j 0 = b0.getD i 0) ∧
    (∀ i j, j < i → i < n → |toFun n F i j| ≤ 1) ∧
    (∀ j, j < n → toFun n F j j ≠ 0) := by
  obtain ⟨h1, h2, h3⟩ := decomp_solve_spec n hn a0 F ip h
  refine ⟨?_, h2, h3⟩
  intro b0 hb i hi
  have := h1 b0 hb i hi
  unfold matVec rowSum vOf at this
  rw [numzero] at this
  rw [Finset.range_eq_Ico]
  exact this

theorem c16_general_exact_n1 (a0 F : Array K) (ip : Array Nat) (h : decomp 1 1 1 a0 = .ok (F, ip))
    (b0 : Array K) (hb : b0.size = 1) :
    toFun 1 a0 0 0 * (solve 1 F ip b0).getD 0 0 = b0.getD 0 0 ∧ toFun 1 F 0 0 ≠ 0 :=
  decomp_solve_one a0 F ip h b0 hb

/-- **accepted ⇔ nonsingular, every size** -/
theorem c16_accept_iff_nonsingular (n : Nat) (hn : 2 ≤ n) (a0 : Array K) :
    (∃ F ip, decomp n n n a0 = .ok (F, ip)) ↔
      (∀ x : Nat → K, (∀ i, i < n → ∑ j ∈ range n, toFun n a0 i j * x j = 0) → ∀ j, j < n → x j = 0) := by
  have := decomp_accept_iff_nonsingular n hn a0
  unfold matVec rowSum at this
  simp only [Finset.range_eq_Ico]
  exact this

/-- a refused matrix has a non-trivial kernel vector -/
theorem c16_refused_singular (n : Nat) (hn : 2 ≤ n) (a0 : Array K) (h : decomp n n n a0 = .error .singular) :
    ∃ x : Nat → K, (∃ j, j < n ∧ x j ≠ 0) ∧ ∀ i, i < n → ∑ j ∈ range n, toFun n a0 i j * x j = 0 := by
  obtain ⟨x, hx, hk⟩ := decomp_singular_spec n hn a0 h
  refine ⟨x, hx, fun i hi => ?_⟩
  have := hk i hi
  unfold matVec rowSum at this
  rw [Finset.range_eq_Ico]
  exact this

/-- a zero first column is refused, whatever the size -/
theorem c16_zero_first_column (n : Nat) (hn : 2 ≤ n) (a0 : Array K) (hz : ∀ i, i < n → toFun n a0 i 0 = 0) :
    decomp n n n a0 = .error .singular := by
  unfold decomp
  have hn1 : n ≠ 1 := by omega
  simp only [ne_eq, not_true_eq_false, if_false, hn1]
  obtain ⟨cnt, hc⟩ : ∃ cnt, n - 1 = cnt + 1 := ⟨n - 2, by omega⟩
  rw [hc]
  unfold decompGo
  have hp := (pivot_spec (toFun n a0) n 0 (by omega)).2.1
  have : Num.eqb (toFun n a0 (pivot (toFun n a0) n 0) 0) (Num.zero : K) = true := by
    rw [hz _ hp]; simp [Num.eqb, Num.zero]
  simp [this]

local instance : SqrtPow ℚ := ⟨id, fun a _ => a⟩

/-- non-vacuity: a 3×3 matrix that needs two row exchanges is accepted and solved -/
example : (decomp (α := ℚ) 3 3 3 #[0, 1, 2, 1, 0, 3, 4, -3, 8]).toOption.isSome = true := by decide +kernel

end
end LUF
