/-
  C16 — LU factorisation and triangular solves are correct, real and complex.   (PARTIAL)

  Full statement: for every nonsingular n×n matrix (n = 1..12) the computed x has a backward-stable residual
  |A·x − b| ≤ c·n·eps·|A|·|x| with multipliers ≤ 1; zero pivot column ⇒ SingularMatrix; shape / pivot-length
  mismatch ⇒ the corresponding error; only the right-hand side is modified by a solve.

  What is proved here, over every ordered field (exact arithmetic, where "backward stable" reads "exact"):
    * shape and pivot-length rejections, every size;
    * n = 1, real and complex: refused iff the entry is zero, otherwise the solve is exact;
    * n = 2, real, every matrix and right-hand side: det ≠ 0 ⇒ accepted, A·x = b exactly, |multiplier| ≤ 1
      (both pivoting branches, both "skip zero column" branches); det = 0 ⇒ SingularMatrix.
  What is NOT a theorem: sizes ≥ 3 (and complex 2×2) in exact arithmetic, and the rounding-error bound itself,
  which is a statement about IEEE arithmetic.  For those the model is only *executed*: X-lu runs `LU.decomp` /
  `LU.solve` / `LU.decompC` / `LU.solveC` at `Float` beside the Rust routines (factors, pivots, solutions agree
  bit for bit on the exhaustive small-integer set and the random families), and `bin/lu_oracle.py` checks residual,
  multiplier and singularity claims of those same outputs in exact rational arithmetic.
  "Only the right-hand side is modified": the model's `solve` is a pure function of `(a, ip, b)`; that the Rust
  signature takes `a: &Matrix` (so it cannot be written) is checked on the source text by bin/props.py.
-/
import IvpModel.Proofs.LuLemmas

namespace LU
noncomputable section
variable {K : Type} [Field K] [LinearOrder K] [IsStrictOrderedRing K] [SqrtPow K]

theorem c16_shape_errors (rows cols l : Nat) (a : Array K) :
    (rows ≠ cols → decomp rows cols l a = .error .nonSquare) ∧
    (rows = cols → l ≠ rows → decomp rows cols l a = .error .pivotSize) := by
  refine ⟨decomp_nonSquare rows cols l a, ?_⟩
  rintro rfl h
  exact decomp_pivotSize rows l a h

theorem c16_shape_errors_complex (n l : Nat) (ar ai : Array K) (h : l ≠ n) :
    decompC n l ar ai = .error .pivotSize := decompC_pivotSize n l ar ai h

theorem c16_n1 (a b : K) :
    (a = 0 → decomp 1 1 1 #[a] = .error .singular) ∧
    (a ≠ 0 → decomp 1 1 1 #[a] = .ok (#[a], #[0]) ∧ a * (solve 1 #[a] #[0] #[b]).getD 0 0 = b) := by
  refine ⟨fun h => by simp [decomp_one, h], fun h => ⟨by simp [decomp_one, h], solve_one a b h⟩⟩

theorem c16_n1_complex (a b p q : K) :
    (a = 0 ∧ b = 0 → decompC 1 1 #[a] #[b] = .error .singular) ∧
    (¬ (a = 0 ∧ b = 0) → decompC 1 1 #[a] #[b] = .ok (#[a], #[b], #[0]) ∧
      (let r := solveC 1 #[a] #[b] #[0] #[p] #[q]
       a * r.1.getD 0 0 - b * r.2.getD 0 0 = p ∧ a * r.2.getD 0 0 + b * r.1.getD 0 0 = q)) := by
  refine ⟨fun h => by simp [decompC_one, h], fun h => ⟨by simp [decompC_one, h], solveC_one a b p q h⟩⟩

/-- every nonsingular 2×2 system is solved exactly, with the stored multiplier at most 1 in magnitude -/
theorem c16_n2_exact_partial (a b c d b1 b2 : K) (hdet : a * d - b * c ≠ 0) : Correct2 a b c d b1 b2 := by
  by_cases hp : |c| > |a|
  · exact lu2_swap a b c d b1 b2 hdet hp
  · exact lu2_noswap a b c d b1 b2 hdet hp

/-- a 2×2 matrix is refused exactly when it is singular -/
theorem c16_n2_singular_iff (a b c d : K) :
    decomp 2 2 2 #[a, b, c, d] = .error .singular ↔ a * d - b * c = 0 := by
  constructor
  · intro h
    by_contra hdet
    have := c16_n2_exact_partial a b c d 0 0 hdet
    simp [Correct2, h] at this
  · exact lu2_singular a b c d

/-- non-vacuity: a matrix that needs the row swap -/
example : (1 : ℚ) * 4 - 2 * 3 ≠ 0 ∧ |(3 : ℚ)| > |1| := by norm_num

end
end LU
