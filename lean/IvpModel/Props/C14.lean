/-
  C14 — implicit methods stay stable and cheap on stiff problems.   (PARTIAL: the method the code's constants encode)

  Success, accuracy and stiffness-independent step counts on stiff problems are run-time behaviour of a Newton
  iteration and a step-size controller that are not modelled; they are decided per input by stiff-check
  (Prothero–Robinson systems with rates 1e2..1e10, n = 1..8, analytic / finite-difference Jacobian, both directions;
  Robertson; Van der Pol mu = 1000).  What is proved concerns the constants of radau.rs as the translator extracts them
  (exact rational values of the binary64 literals, regenerated on every run):
  * `c14_radau_constants` : with s a rational within 1e-17 of √6 and A(s) the Radau IIA tableau,
        ‖TI·T − I‖ ≤ 1e-14,  ‖A(s)·(T·Λ·TI) − I‖ ≤ 1e-13  with Λ = diag(U1, [[ALPH, −BETA],[BETA, ALPH]]),
        |C1 − (4−s)/10|, |C2 − (4+s)/10| ≤ 1e-15,  DD1..3 = (−(13+7s)/3, (−13+7s)/3, −1/3) to 1e-14,
        and the characteristic polynomials of A(s), A(s) − 1·bᵀ are those of the (2,3) Padé approximant to 1e-15:
        the transformed Newton system the code factorises, (U1/h)I − J and ((ALPH ± iBETA)/h)I − J, is the
        eigen-decomposition of the 3-stage Radau IIA method, whose stability function is R = P/Q below.
  * `c14_pade23_E`        : |Q(iy)|² − |P(iy)|² = y⁶/3600 ≥ 0 (with Q Hurwitz this is A-stability; the Hurwitz part and
                             the maximum principle are classical and not formalised here).
  * `c14_pade23_negative_real_axis` : for every x ≥ 0, |P(−x)| ≤ Q(−x) and Q(−x) ≥ 1: the stability function is bounded
                             by 1 on the whole negative real axis, and R(−x) → 0 (degree 2 over degree 3): stiff decaying
                             modes are damped at every step size (L-stability on the real axis).
  * the linear algebra used by both implicit solvers is C16 (LU) and C17 (matrix storage).
  BDF: coefficients and Newton loop are not translated; stiff-check only.
  * Radau control model (`Proofs/RadauLemmas.lean`, tied by X-radau): `RadauCtl.pass_singular` — SingularMatrix is reported only by
    the sixth failure in a row; an accepted step resets the counter.
  * `FdJac.fdPerturbation_ge`, `FdJac.fdPerturbation_pos`, `FdJac.entry_affine` (Proofs/FdJacLemmas.lean): the default
    finite-difference Jacobian (increment and quotient translated from src/ivp.rs, model tied by X-fdjac) uses an increment
    of at least eps·|y_j| and at least eps, and returns the matrix of an affine right-hand side exactly.
-/
import IvpModel.Proofs.RadauLemmas
import IvpModel.Proofs.FdJacLemmas
import IvpModel.Gen.Radau
import IvpModel.Model.RadauTab
import Mathlib.Algebra.Order.Field.Basic
import Mathlib.Tactic.Ring
import Mathlib.Tactic.Positivity
import Mathlib.Tactic.Linarith

namespace Radau14
open Gen.Radau

/-- **C14.**  The constants of radau.rs are the eigen-decomposition of the 3-stage Radau IIA method. -/
theorem c14_radau_constants : constantsCheck = true := by decide +kernel

end Radau14

/-! ### the stability function of Radau IIA(5): the (2,3) Padé approximant -/
section pade
variable {K : Type} [Field K] [LinearOrder K] [IsStrictOrderedRing K]

def padeP (z : K) : K := 1 + 2 * z / 5 + z ^ 2 / 20
def padeQ (z : K) : K := 1 - 3 * z / 5 + 3 * z ^ 2 / 20 - z ^ 3 / 60

/-- on the imaginary axis z = iy:  Re P = 1 − y²/20, Im P = 2y/5;  Re Q = 1 − 3y²/20, Im Q = −3y/5 + y³/60 -/
theorem c14_pade23_E (y : K) :
    ((1 - 3 * y ^ 2 / 20) ^ 2 + (-3 * y / 5 + y ^ 3 / 60) ^ 2) - ((1 - y ^ 2 / 20) ^ 2 + (2 * y / 5) ^ 2) = y ^ 6 / 3600
    ∧ 0 ≤ y ^ 6 / 3600 := by
  refine ⟨by ring, ?_⟩
  have : y ^ 6 = (y ^ 3) ^ 2 := by ring
  rw [this]; positivity

theorem c14_pade23_negative_real_axis (x : K) (hx : 0 ≤ x) :
    |padeP (-x)| ≤ padeQ (-x) ∧ 1 ≤ padeQ (-x) := by
  have hq : padeQ (-x) = 1 + 3 * x / 5 + 3 * x ^ 2 / 20 + x ^ 3 / 60 := by unfold padeQ; ring
  have hp : padeP (-x) = 1 - 2 * x / 5 + x ^ 2 / 20 := by unfold padeP; ring
  have h2 : 0 ≤ x ^ 2 := by positivity
  have h3 : 0 ≤ x ^ 3 := by positivity
  refine ⟨?_, by rw [hq]; nlinarith⟩
  rw [abs_le, hq, hp]
  constructor <;> nlinarith

/-- the decay at infinity: Q(−x) − |P(−x)| grows without bound relative to P (degree 3 over degree 2) -/
theorem c14_pade23_damps (x : K) (hx : 0 ≤ x) : padeP (-x) ^ 2 * (1 + x / 10) ≤ padeQ (-x) ^ 2 := by
  unfold padeP padeQ
  have h1 : 0 ≤ x ^ 2 := by positivity
  have h2 : 0 ≤ x ^ 3 := by positivity
  have h4 : 0 ≤ x ^ 4 := by positivity
  have h5 : 0 ≤ x ^ 5 := by positivity
  have h6 : 0 ≤ x ^ 6 := by positivity
  nlinarith [mul_nonneg hx h1, mul_nonneg hx h4]
end pade
