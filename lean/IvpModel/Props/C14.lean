/-
  C14 — implicit methods stay stable and cheap on stiff problems.   (PARTIAL: the method the code's constants encode)

  Success, accuracy and stiffness-independent step counts on stiff problems are run-time behaviour of a Newton
  iteration and a step-size controller that are not modelled; they are decided per input by stiff-check
  (Prothero–Robinson systems with rates 1e2..1e10, n = 1..8, analytic / finite-difference Jacobian, both directions;
  Robertson; Van der Pol mu = 1000).  What is proved concerns the constants of radau.rs as the translator extracts them
  (exact rational values of the binary64 literals, regenerated on every run):
  * `c14_radau_constants` : with s a rational within 1e-17 of √6 and A(s) the Radau IIA tableau,
        ‖TI·T − I‖ ≤ 1e-14,  ‖A(s)·(T·Λ·TI) − I‖ ≤ 1e-13  with Λ = diag(U1, [[ALPH, −BETA],[BETA, ALPH]]),
        |C1 − (4−s)/10|, |C2 − (4+s)/10| ≤ 1e-15,  DD1..3 = (−(13+7s)/3, (−13+7s)/3, −1/3) to 1e-14,
        and the characteristic polynomials of A(s), A(s) − 1·bᵀ are those of the (2,3) Padé approximant to 1e-15:
        the transformed Newton system the code factorises, (U1/h)I − J and ((ALPH ± iBETA)/h)I − J, is the
        eigen-decomposition of the 3-stage Radau IIA method, whose stability function is R = P/Q below.
  * `c14_pade23_E`        : |Q(iy)|² − |P(iy)|² = y⁶/3600 ≥ 0 (with Q Hurwitz this is A-stability; the Hurwitz part and
                             the maximum principle are classical and not formalised here).
  * `c14_pade23_negative_real_axis` : for every x ≥ 0, |P(−x)| ≤ Q(−x) and Q(−x) ≥ 1: the stability function is bounded
                             by 1 on the whole negative real axis, and R(−x) → 0 (degree 2 over degree 3): stiff decaying
                             modes are damped at every step size (L-stability on the real axis).
  * the linear algebra used by both implicit solvers is C16 (LU) and C17 (matrix storage).
  BDF: coefficients and Newton loop are not translated; stiff-check only.
  * Radau control model (`Proofs/RadauLemmas.lean`, tied by X-radau): `RadauCtl.pass_singular` — SingularMatrix is reported only by
    the sixth failure in a row; an accepted step resets the counter.
-/
import IvpModel.Proofs.RadauLemmas
import IvpModel.Gen.Radau
import Mathlib.Algebra.Order.Field.Basic
import Mathlib.Tactic.Ring
import Mathlib.Tactic.Positivity
import Mathlib.Tactic.Linarith

namespace Radau14
open Gen.Radau

def q (p : Int × Nat) : Rat := (p.1 : Rat) / (p.2 : Rat)

/-- a rational within 1e-17 of √6 -/
def s6 : Rat := 2449489742783178098 / 1000000000000000000

abbrev M3 := Fin 3 → Fin 3 → Rat
def mul (X Y : M3) : M3 := fun i j => X i 0 * Y 0 j + X i 1 * Y 1 j + X i 2 * Y 2 j
def idm : M3 := fun i j => if i = j then 1 else 0
def near (X Y : M3) (eps : Rat) : Bool := (List.finRange 3).all fun i => (List.finRange 3).all fun j => decide (|X i j - Y i j| ≤ eps)

/-- Radau IIA (3 stages) with `s` in place of √6 -/
def A (s : Rat) : M3 := fun i j =>
  match i, j with
  | 0, 0 => (88 - 7 * s) / 360 | 0, 1 => (296 - 169 * s) / 1800 | 0, 2 => (-2 + 3 * s) / 225
  | 1, 0 => (296 + 169 * s) / 1800 | 1, 1 => (88 + 7 * s) / 360 | 1, 2 => (-2 - 3 * s) / 225
  | 2, 0 => (16 - s) / 36 | 2, 1 => (16 + s) / 36 | 2, 2 => 1 / 9

/-- the code's `T` (its last row is (T20, 1, 0)) and `TI`, exact values of the binary64 literals -/
def T : M3 := fun i j =>
  match i, j with
  | 0, 0 => q T00_f | 0, 1 => q T01_f | 0, 2 => q T02_f
  | 1, 0 => q T10_f | 1, 1 => q T11_f | 1, 2 => q T12_f
  | 2, 0 => q T20_f | 2, 1 => 1 | 2, 2 => 0
def TI : M3 := fun i j =>
  match i, j with
  | 0, 0 => q TI00_f | 0, 1 => q TI01_f | 0, 2 => q TI02_f
  | 1, 0 => q TI10_f | 1, 1 => q TI11_f | 1, 2 => q TI12_f
  | 2, 0 => q TI20_f | 2, 1 => q TI21_f | 2, 2 => q TI22_f
def Lam : M3 := fun i j =>
  match i, j with
  | 0, 0 => q U1_f | 1, 1 => q ALPH_f | 1, 2 => -q BETA_f | 2, 1 => q BETA_f | 2, 2 => q ALPH_f
  | _, _ => 0

def det3 (X : M3) : Rat :=
  X 0 0 * (X 1 1 * X 2 2 - X 1 2 * X 2 1) - X 0 1 * (X 1 0 * X 2 2 - X 1 2 * X 2 0) + X 0 2 * (X 1 0 * X 2 1 - X 1 1 * X 2 0)
def tr3 (X : M3) : Rat := X 0 0 + X 1 1 + X 2 2
def minors3 (X : M3) : Rat :=
  (X 0 0 * X 1 1 - X 0 1 * X 1 0) + (X 0 0 * X 2 2 - X 0 2 * X 2 0) + (X 1 1 * X 2 2 - X 1 2 * X 2 1)
/-- `A − 1·bᵀ` (b = last row of A): numerator matrix of the stability function -/
def AmB (s : Rat) : M3 := fun i j => A s i j - A s 2 j

def eps13 : Rat := 1 / 10 ^ 13
def eps14 : Rat := 1 / 10 ^ 14
def eps15 : Rat := 1 / 10 ^ 15

def constantsCheck : Bool :=
  decide (|s6 * s6 - 6| ≤ 1 / 10 ^ 17) &&
  near (mul TI T) idm eps14 &&
  near (mul (A s6) (mul T (mul Lam TI))) idm eps13 &&
  decide (|q C1_f - (4 - s6) / 10| ≤ eps15) && decide (|q C2_f - (4 + s6) / 10| ≤ eps15) &&
  decide (|q C1M1_f - (q C1_f - 1)| ≤ eps15) && decide (|q C2M1_f - (q C2_f - 1)| ≤ eps15) && decide (|q C1MC2_f - (q C1_f - q C2_f)| ≤ eps15) &&
  decide (|q DD1_f - (-(13 + 7 * s6) / 3)| ≤ eps14) && decide (|q DD2_f - ((-13 + 7 * s6) / 3)| ≤ eps14) && decide (|q DD3_f - (-1 / 3)| ≤ eps15) &&
  -- det(I − zA) = 1 − (3/5) z + (3/20) z² − (1/60) z³ ,  det(I − z(A − 1bᵀ)) = 1 + (2/5) z + (1/20) z²
  decide (|tr3 (A s6) - 3 / 5| ≤ eps15) && decide (|minors3 (A s6) - 3 / 20| ≤ eps15) && decide (|det3 (A s6) - 1 / 60| ≤ eps15) &&
  decide (|tr3 (AmB s6) - (-2 / 5)| ≤ eps15) && decide (|minors3 (AmB s6) - 1 / 20| ≤ eps15) && decide (|det3 (AmB s6)| ≤ eps15)

/-- **C14.**  The constants of radau.rs are the eigen-decomposition of the 3-stage Radau IIA method. -/
theorem c14_radau_constants : constantsCheck = true := by decide +kernel

end Radau14

/-! ### the stability function of Radau IIA(5): the (2,3) Padé approximant -/
section pade
variable {K : Type} [Field K] [LinearOrder K] [IsStrictOrderedRing K]

def padeP (z : K) : K := 1 + 2 * z / 5 + z ^ 2 / 20
def padeQ (z : K) : K := 1 - 3 * z / 5 + 3 * z ^ 2 / 20 - z ^ 3 / 60

/-- on the imaginary axis z = iy:  Re P = 1 − y²/20, Im P = 2y/5;  Re Q = 1 − 3y²/20, Im Q = −3y/5 + y³/60 -/
theorem c14_pade23_E (y : K) :
    ((1 - 3 * y ^ 2 / 20) ^ 2 + (-3 * y / 5 + y ^ 3 / 60) ^ 2) - ((1 - y ^ 2 / 20) ^ 2 + (2 * y / 5) ^ 2) = y ^ 6 / 3600
    ∧ 0 ≤ y ^ 6 / 3600 := by
  refine ⟨by ring, ?_⟩
  have : y ^ 6 = (y ^ 3) ^ 2 := by ring
  rw [this]; positivity

theorem c14_pade23_negative_real_axis (x : K) (hx : 0 ≤ x) :
    |padeP (-x)| ≤ padeQ (-x) ∧ 1 ≤ padeQ (-x) := by
  have hq : padeQ (-x) = 1 + 3 * x / 5 + 3 * x ^ 2 / 20 + x ^ 3 / 60 := by unfold padeQ; ring
  have hp : padeP (-x) = 1 - 2 * x / 5 + x ^ 2 / 20 := by unfold padeP; ring
  have h2 : 0 ≤ x ^ 2 := by positivity
  have h3 : 0 ≤ x ^ 3 := by positivity
  refine ⟨?_, by rw [hq]; nlinarith⟩
  rw [abs_le, hq, hp]
  constructor <;> nlinarith

/-- the decay at infinity: Q(−x) − |P(−x)| grows without bound relative to P (degree 3 over degree 2) -/
theorem c14_pade23_damps (x : K) (hx : 0 ≤ x) : padeP (-x) ^ 2 * (1 + x / 10) ≤ padeQ (-x) ^ 2 := by
  unfold padeP padeQ
  have h1 : 0 ≤ x ^ 2 := by positivity
  have h2 : 0 ≤ x ^ 3 := by positivity
  have h4 : 0 ≤ x ^ 4 := by positivity
  have h5 : 0 ≤ x ^ 5 := by positivity
  have h6 : 0 ≤ x ^ 6 := by positivity
  nlinarith [mul_nonneg hx h1, mul_nonneg hx h4]
end pade
