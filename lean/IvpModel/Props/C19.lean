/-
  C19 — the SolOut callback protocol of the low-level solvers (explicit solvers).
  For every right-hand side and **every observer** (any flag at any callback, any rewrite of the state):
  * `hSolve_protocol`, `rk23Solve_inv`, `rk4Solve_inv` : the callbacks are `(x0, x0)` first and then contiguous
    intervals (`ChainTo`: each `xold` is the previous `x`) ending at the returned `x`.
  * `afterCb_interrupt`, `hFinish_interrupt` : `Interrupt` ends the run at once with `UserInterrupt`; the event log ends
    with that callback (no further evaluation, no further callback).
  * `afterCb_modified` : `ModifiedSolution` continues from the state the callback wrote with the derivative
    re-evaluated there by one fresh, counted call; `afterCb_cont` : `Continue` keeps state and FSAL derivative.
  Radau and BDF are covered by the protocol monitor only; two open findings are recorded there (known_findings.json).
-/
import IvpModel.Proofs.CtlRk
import IvpModel.Proofs.ScaledContinuation
import IvpModel.Proofs.NoopModified

/-!
  * the doubling clause ("for a linear homogeneous problem, doubling the state doubles everything that follows"), session 3c:
    a callback that writes `c·y` instead of `y` leaves the loop in the `c`-scaled state (`Ctl.afterCb_scale`: scaled state, scaled
    re-evaluated derivative, scaled log entry), and from a `c`-scaled state the rest of the run is the `c`-scaled rest of the run
    under pure relative error control — `c19_scaled_continuation_*` for all four explicit methods, every c > 0 (RK4: c ≠ 0), every
    right-hand side that is homogeneous of degree one in the state, every observer, from any state of the loop.  With atol > 0 the
    law is not exact (the error scale atol + rtol·|y| is not homogeneous), which is why the monitor uses atol = 0 for it.
-/
noncomputable section
variable {K : Type} [Field K] [LinearOrder K] [IsStrictOrderedRing K] [SqrtPow K]

theorem c19_scaled_continuation_dopri5 {σ : Type} {n : Nat} (c : K) (hc : 0 < c) (P : Ctl.HParams K n) (rtol : Ctl.Vec K n) (f : Ctl.Rhs K n)
    (hf : ∀ j t y, f j t (vsmul c y) = vsmul c (f j t y)) (ob : Ctl.Obs σ K n) (fuel : Nat) (s : Ctl.HState σ K n) :
    Ctl.hLoop P (Ctl.dopri5Kernel Ctl.zeroVec rtol) f (Ctl.sObs c ob) fuel (Ctl.sHS c s)
      = (Ctl.hLoop P (Ctl.dopri5Kernel Ctl.zeroVec rtol) f ob fuel s).map (Ctl.sResult c) :=
  Ctl.dopri5_scaled_continuation c hc P rtol f hf ob fuel s

theorem c19_scaled_continuation_dop853 {σ : Type} {n : Nat} (c : K) (hc : 0 < c) (P : Ctl.HParams K n) (rtol : Ctl.Vec K n) (f : Ctl.Rhs K n)
    (hf : ∀ j t y, f j t (vsmul c y) = vsmul c (f j t y)) (ob : Ctl.Obs σ K n) (fuel : Nat) (s : Ctl.HState σ K n) :
    Ctl.hLoop P (Ctl.dop853Kernel Ctl.zeroVec rtol) f (Ctl.sObs c ob) fuel (Ctl.sHS c s)
      = (Ctl.hLoop P (Ctl.dop853Kernel Ctl.zeroVec rtol) f ob fuel s).map (Ctl.sResult c) :=
  Ctl.dop853_scaled_continuation c hc P rtol f hf ob fuel s

theorem c19_scaled_continuation_rk23 {σ : Type} {n : Nat} (c : K) (hc : 0 < c) (P : Ctl.R23Params K n) (hP : P.atol = Ctl.zeroVec) (f : Ctl.Rhs K n)
    (hf : ∀ j t y, f j t (vsmul c y) = vsmul c (f j t y)) (ob : Ctl.Obs σ K n) (fuel : Nat) (s : Ctl.R23State σ K n) :
    Ctl.rk23Loop P f (Ctl.sObs c ob) fuel (Ctl.sS23 c s) = (Ctl.rk23Loop P f ob fuel s).map (Ctl.sResult c) :=
  Ctl.rk23_scaled_continuation c hc P hP f hf ob fuel s

theorem c19_scaled_continuation_rk4 {σ : Type} {n : Nat} (c : K) (hc : c ≠ 0) (P : Ctl.R4Params K) (f : Ctl.Rhs K n)
    (hf : ∀ j t y, f j t (vsmul c y) = vsmul c (f j t y)) (ob : Ctl.Obs σ K n) (fuel : Nat) (s : Ctl.R4State σ K n) :
    Ctl.rk4Loop P f (Ctl.sObs c ob) fuel (Ctl.sS4 c s) = (Ctl.rk4Loop P f ob fuel s).map (Ctl.sResult c) :=
  Ctl.rk4_scaled_continuation c hc P f hf ob fuel s

/-- **the no-op clause** ("an unchanged state is a no-op"): for a right-hand side that is a function of (t, y), continuing after
    `ModifiedSolution` with the state unchanged — derivative re-evaluated at the same point, one more evaluation on the meter — gives
    the run that `Continue` gives: same statuses, step points, states, step sizes and step counters, at every fuel (DOPRI5 / DOP853
    skeleton, any kernel; the two runs differ in the log, the call count and `evals.ode` only, which the loop never reads:
    `Ctl.hIter_meq`). -/
theorem c19_noop_modified {σ : Type} {n : Nat} (P : Ctl.HParams K n) (Kn : Ctl.HKernel K n) (f : Ctl.Rhs K n) (hf : Ctl.PureRhs f)
    (ob : Ctl.Obs σ K n) (s : Ctl.HState σ K n) (hk : s.k1 = f 0 s.x s.y) (fuel : Nat) :
    Ctl.OptREq (Ctl.hLoop P Kn f ob fuel s)
      (Ctl.hLoop P Kn f ob fuel { s with k1 := f s.m.ncalls s.x s.y, m := s.m.refresh s.x s.y }) :=
  Ctl.noop_modified P Kn f hf ob s hk fuel
end
