/-
  C19 — the SolOut callback protocol of the low-level solvers (explicit solvers).
  For every right-hand side and **every observer** (any flag at any callback, any rewrite of the state):
  * `hSolve_protocol`, `rk23Solve_inv`, `rk4Solve_inv` : the callbacks are `(x0, x0)` first and then contiguous
    intervals (`ChainTo`: each `xold` is the previous `x`) ending at the returned `x`.
  * `afterCb_interrupt`, `hFinish_interrupt` : `Interrupt` ends the run at once with `UserInterrupt`; the event log ends
    with that callback (no further evaluation, no further callback).
  * `afterCb_modified` : `ModifiedSolution` continues from the state the callback wrote with the derivative
    re-evaluated there by one fresh, counted call; `afterCb_cont` : `Continue` keeps state and FSAL derivative.
  Radau and BDF are covered by the protocol monitor only; two open findings are recorded there (known_findings.json).
-/
import IvpModel.Proofs.CtlRk
