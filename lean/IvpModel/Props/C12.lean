/-
  C12 — output options do not perturb the integration.
  * `hIter_passive`, `hLoop_passive` (DOPRI5/DOP853 skeleton, any kernel): with an observer that always answers Continue
    and does not rewrite the state, every pass of the loop — trial steps, accepted states, counters, status, event log —
    is what it is with no observer at all.
  * `SolOutM.step_flag` (C10): the default handler answers Interrupt only for a terminal event, otherwise Continue,
    and the handler model never rewrites `y` (it has no such output).
  * the model is a pure function (determinism); the stepper's `dense_output` flag only switches `acceptB`'s extra output.
  `solve_ivp` passing neither `t_eval` nor `dense_output` to the builders is a static fact checked on the source.
-/
import IvpModel.Proofs.CtlRk
import IvpModel.Proofs.SolOutPhases
import IvpModel.Proofs.DensePassive
import IvpModel.Proofs.DensePassiveRk

/-!
  * `c12_dense_flag_passive` (added in session 3c): at the solver interface, for a kernel whose state update and right-hand-side
    calls do not depend on the `dense_output` flag and an observer that does not read the interpolant, the run with the flag off
    is the run with the flag on, up to the interpolant samples in the log; DOPRI5's kernel is such a kernel
    (`c12_dense_flag_passive_dopri5`).  DOP853's is not — it evaluates its three extra stages only on request — which is why
    `solve_ivp` always runs it with the flag on (static fact).
-/
noncomputable section
variable {K : Type} [Field K] [LinearOrder K] [IsStrictOrderedRing K] [SqrtPow K]

theorem c12_dense_flag_passive {σ : Type} {n : Nat} (P : Ctl.HParams K n) (Kn : Ctl.HKernel K n) (hK : Ctl.DensePassive Kn) (f : Ctl.Rhs K n)
    (ob : Ctl.Obs σ K n) (hob : Ctl.IgnoresIp ob) (obs0 : σ) (x0 : K) (y0 : Ctl.Vec K n) (firstStep : Option K)
    (hinit : Ctl.Rhs K n → Ctl.Vec K n → K × Array (K × Ctl.Vec K n)) (fo hl : K) (fuel : Nat) :
    (Ctl.hSolve (Ctl.setDense P false) Kn f ob obs0 x0 y0 firstStep hinit fo hl fuel).map Ctl.eResult
      = (Ctl.hSolve (Ctl.setDense P true) Kn f ob obs0 x0 y0 firstStep hinit fo hl fuel).map Ctl.eResult :=
  Ctl.hSolve_dense_passive P Kn hK f ob hob obs0 x0 y0 firstStep hinit fo hl fuel

theorem c12_dense_flag_passive_dopri5 {σ : Type} {n : Nat} (P : Ctl.HParams K n) (atol rtol : Ctl.Vec K n) (f : Ctl.Rhs K n)
    (ob : Ctl.Obs σ K n) (hob : Ctl.IgnoresIp ob) (obs0 : σ) (x0 : K) (y0 : Ctl.Vec K n) (firstStep : Option K)
    (hinit : Ctl.Rhs K n → Ctl.Vec K n → K × Array (K × Ctl.Vec K n)) (fo hl : K) (fuel : Nat) :
    (Ctl.hSolve (Ctl.setDense P false) (Ctl.dopri5Kernel atol rtol) f ob obs0 x0 y0 firstStep hinit fo hl fuel).map Ctl.eResult
      = (Ctl.hSolve (Ctl.setDense P true) (Ctl.dopri5Kernel atol rtol) f ob obs0 x0 y0 firstStep hinit fo hl fuel).map Ctl.eResult :=
  Ctl.hSolve_dense_passive P _ (Ctl.dopri5_densePassive atol rtol) f ob hob obs0 x0 y0 firstStep hinit fo hl fuel

/-- RK23: `dense_output` changes only the interpolant samples in the log (observer not reading the interpolant) -/
theorem c12_dense_flag_passive_rk23 {σ : Type} {n : Nat} (P : Ctl.R23Params K n) (f : Ctl.Rhs K n) (ob : Ctl.Obs σ K n) (hob : Ctl.IgnoresIp ob)
    (obs0 : σ) (x0 : K) (y0 : Ctl.Vec K n) (firstStep : Option K) (hmaxArg : K) (fuel : Nat) :
    (Ctl.rk23Solve (Ctl.setDense23 P false) f ob obs0 x0 y0 firstStep hmaxArg fuel).map Ctl.eResult
      = (Ctl.rk23Solve (Ctl.setDense23 P true) f ob obs0 x0 y0 firstStep hmaxArg fuel).map Ctl.eResult :=
  Ctl.rk23Solve_dense_passive P f ob hob obs0 x0 y0 firstStep hmaxArg fuel

/-- RK4: `dense_output` changes only the interpolant samples in the log (observer not reading the interpolant) -/
theorem c12_dense_flag_passive_rk4 {σ : Type} {n : Nat} (P : Ctl.R4Params K) (f : Ctl.Rhs K n) (ob : Ctl.Obs σ K n) (hob : Ctl.IgnoresIp ob)
    (obs0 : σ) (x0 : K) (y0 : Ctl.Vec K n) (h : K) (fuel : Nat) :
    (Ctl.rk4Solve (Ctl.setDense4 P false) f ob obs0 x0 y0 h fuel).map Ctl.eResult
      = (Ctl.rk4Solve (Ctl.setDense4 P true) f ob obs0 x0 y0 h fuel).map Ctl.eResult :=
  Ctl.rk4Solve_dense_passive P f ob hob obs0 x0 y0 h fuel
end
