/-
  C12 — output options do not perturb the integration.
  * `hIter_passive`, `hLoop_passive` (DOPRI5/DOP853 skeleton, any kernel): with an observer that always answers Continue
    and does not rewrite the state, every pass of the loop — trial steps, accepted states, counters, status, event log —
    is what it is with no observer at all.
  * `SolOutM.step_flag` (C10): the default handler answers Interrupt only for a terminal event, otherwise Continue,
    and the handler model never rewrites `y` (it has no such output).
  * the model is a pure function (determinism); the stepper's `dense_output` flag only switches `acceptB`'s extra output.
  `solve_ivp` passing neither `t_eval` nor `dense_output` to the builders is a static fact checked on the source.
-/
import IvpModel.Proofs.CtlRk
import IvpModel.Proofs.SolOutPhases
