/- X-radau: the Radau control model replayed on the control trace of real runs. -/
import IvpModel.Driver.Util
import IvpModel.Model.RadauCtl

namespace Drv.Radau
open Drv RadauCtl

def kv (ws : List String) (key : String) : String :=
  match ws.find? (fun w => w.startsWith (key ++ "=")) with
  | some w => (w.drop (key.length + 1)).toString
  | none => ""

def optF (s : String) : Option Float := if s == "-" || s == "" then none else some (parseF s)

def lits : Lits Float :=
  { zero := 0.0, one := 1.0, two := 2.0, four := 4.0, half := 0.5, tenth := 0.1, p8 := 0.8, p99 := 0.99, quarter := 0.25,
    thet := 0.001, quot1 := 1.0, quot2 := 1.2, em4 := 1e-4, twenty := 20.0, em2 := 1e-2, ten := 10.0, p03 := 0.03, em6 := 1.0e-6, stretch := 1.01 }

def flagOf (s : String) : Flag := if s == "1" then .interrupt else if s == "2" then .modified else .cont

def stName : Status → String
  | .success => "Success" | .userInterrupt => "UserInterrupt" | .needLargerNMax => "NeedLargerNMax"
  | .stepSizeTooSmall => "StepSizeTooSmall" | .singularMatrix => "SingularMatrix" | .oracleExhausted => "oracle-exhausted"

def b (x : Bool) : String := if x then "1" else "0"

def fmtState (s : State Float) : String :=
  s!"state x={fmtF s.x} h={fmtF s.h} hhfac={fmtF s.hhfac} cj={b s.callJac} cd={b s.callDecomp} first={b s.first} reject={b s.reject} last={b s.last} sing={s.singular} faccon={fmtF s.faccon} dynold={fmtF s.dynold} thqold={fmtF s.thqold} hacc={fmtF s.hAcc} erracc={fmtF s.errAcc} total={s.cnt.total} acc={s.cnt.accepted} rej={s.cnt.rejected} ode={s.cnt.ode} jac={s.cnt.jac} lu={s.cnt.lu}"

def fmtResult (r : Result Float) : String :=
  s!"end {stName r.status} h={fmtF r.h} total={r.cnt.total} acc={r.cnt.accepted} rej={r.cnt.rejected} ode={r.cnt.ode} jac={r.cnt.jac} lu={r.cnt.lu} fcalls={r.cnt.ode} jcalls={r.cnt.jac}"

structure Sess where
  P : Params Float
  st : Option (State Float)

def step (ss : Option Sess) (line : String) : Option Sess × String :=
  let ws := words line
  match ws.head? with
  | some "case" =>
    let S : Setup Float :=
      { x0 := parseF (kv ws "x0"), xend := parseF (kv ws "xend"), firstStep := optF (kv ws "first"), maxStep := optF (kv ws "maxstep"),
        minStep := optF (kv ws "minstep"), nmax := (kv ws "nmax").toNat!, maxNewton := (kv ws "maxnewton").toNat!,
        uround := parseF (kv ws "uround"), safety := parseF (kv ws "safety"), scaleMin := parseF (kv ws "smin"),
        scaleMax := parseF (kv ws "smax"), predictive := kv ws "pred" == "1", tolst := parseF (kv ws "tolst"),
        newtonTol := optF (kv ws "ntol"), cb0 := flagOf (kv ws "cb0") }
    let P := params lits S
    match start lits S with
    | .inr r => (some ⟨P, none⟩, fmtResult r)
    | .inl s =>
      (some ⟨P, some s⟩,
       s!"init h={fmtF s.h} hmax={fmtF P.hmax} hmin={fmtF P.hmin} ntol={fmtF P.newtonTol} facl={fmtF P.facl} facr={fmtF P.facr} cfac={fmtF P.cfac} posneg={fmtF P.posneg} last={b s.last} ode={s.cnt.ode}")
  | some "first" =>
    match ss with
    | some ⟨_, some s⟩ => (ss, fmtState s)
    | _ => (ss, "no-state")
  | some "pass" =>
    match ss with
    | some ⟨P, some s⟩ =>
      let dy := kv ws "dynos"
      let o : PassOracle Float :=
        { dec := (kv ws "dec").toNat!, dynos := (parseFs dy).toList, err := (optF (kv ws "err")).getD 0.0,
          err2 := (optF (kv ws "err2")).getD 0.0, cb := flagOf (kv ws "cb") }
      match pass lits P s o with
      | .inl s' => (some ⟨P, some s'⟩, fmtState s')
      | .inr r => (some ⟨P, none⟩, fmtResult r)
    | _ => (ss, "no-state")
  | _ => (ss, "bad-op")

def run (lines : Array String) : Array String :=
  (lines.foldl (fun (acc : Option Sess × Array String) l => let r := step acc.1 l; (r.1, acc.2.push r.2)) (none, #[])).2
end Drv.Radau
