/- X-solve: re-runs a recorded solver run on the control-skeleton models at `Float`; the right-hand side is the
   recorded log (call j must have bit-identical arguments). -/
import IvpModel.Driver.Util
import IvpModel.Model.Kernels
import IvpModel.Model.RkLoops
import IvpModel.Gen.Static

namespace Drv.Solve
open Drv Ctl

structure Case where
  method : String := ""
  n : Nat := 0
  x0 : Float := 0
  xend : Float := 0
  rtol : Array Float := #[]
  atol : Array Float := #[]
  first : Option Float := none
  maxstep : Option Float := none
  nmax : Nat := 0
  dense : Bool := true
  h : Float := 0            -- RK4's fixed step
  nstiff : Option Nat := none   -- `stiff_test` given to the builder (DOPRI5 / DOP853), else the default
  script : List (Nat × Option Float) := []    -- callback index ↦ Interrupt (none) / Modify c (some c)
  odeT : Array Float := #[]
  odeY : Array (Array Float) := #[]
  odeD : Array (Array Float) := #[]

def kvs (ws : List String) : List (String × String) :=
  ws.filterMap fun w => match w.splitOn "=" with
    | [a, b] => some (a, b)
    | _ => none
def get (m : List (String × String)) (k : String) : String := ((m.find? (·.1 == k)).map (·.2)).getD ""
def optF (s : String) : Option Float := if s == "-" || s == "" then none else some (parseF s)

def toVec (n : Nat) (a : Array Float) : Vector Float n :=
  if h : a.size = n then ⟨a, h⟩ else Vector.ofFn fun _ => Float.ofBits 0x7FF8000000000002

def bitsEq (a b : Float) : Bool := a.toBits == b.toBits || (a.isNaN && b.isNaN)

/-- recorded right-hand side: the j-th call must come with the recorded arguments -/
def oracle (c : Case) (n : Nat) : Rhs Float n := fun j t y =>
  match c.odeT[j]?, c.odeY[j]?, c.odeD[j]? with
  | some t', some y', some d =>
    if bitsEq t t' && y.toArray.size == y'.size && (List.range y'.size).all (fun i => bitsEq (y.toArray.getD i 0) (y'.getD i 0))
    then toVec n d else Vector.ofFn fun _ => Float.ofBits 0x7FF8000000000003
  | _, _, _ => Vector.ofFn fun _ => Float.ofBits 0x7FF8000000000004

/-- scripted observer: state = callback index -/
def observer (c : Case) (n : Nat) : Obs Nat Float n := fun k _xold _x y _ip =>
  match c.script.find? (·.1 == k) with
  | some (_, none) => (k + 1, .interrupt, y)
  | some (_, some f) => (k + 1, .modified, y.map (· * f))
  | none => (k + 1, .cont, y)

def statusStr : Status → String
  | .success => "Success" | .userInterrupt => "UserInterrupt" | .needLargerNMax => "NeedLargerNMax"
  | .stepSizeTooSmall => "StepSizeTooSmall" | .probablyStiff => "ProbablyStiff"

def hl : HLits Float := { one := 1.0, quarter := 0.25, half := 0.5, threeq := 0.75, stiffLimit := 0.0 }

def fmtRes (n : Nat) (c : Case) (r : Option (Result Nat Float n)) : String :=
  match r with
  | none => "res out-of-fuel"
  | some r =>
    let cbs := r.m.log.toList.filterMap fun e => match e with
      | .cb xo x y smp => some (s!"{fmtF xo},{fmtF x}:{fmtFs y.toArray}:" ++ "/".intercalate (smp.toList.map fun v => fmtFs v.toArray))
      | _ => none
    let odes := r.m.log.toList.filterMap fun e => match e with
      | .ode j t y => some (j, t, y)
      | _ => none
    -- first call whose arguments differ from the recorded run
    let mism := odes.find? fun (j, t, y) =>
      match c.odeT[j]?, c.odeY[j]? with
      | some t', some y' => !(bitsEq t t' && (List.range y'.size).all (fun i => bitsEq (y.toArray.getD i 0) (y'.getD i 0)))
      | _, _ => true
    let mm := match mism with | some (j, _, _) => toString j | none => "-"
    s!"res {statusStr r.status} h={fmtF r.h} nfev={r.m.cnt.ode} nstep={r.m.cnt.total} nacc={r.m.cnt.accepted} nrej={r.m.cnt.rejected} calls={r.m.ncalls} mismatch={mm} cbs={cbs.length} " ++ "|".intercalate cbs

def mkR23 (c : Case) (n : Nat) (posneg hmax : Float) (atol rtol : Vector Float n) : R23Params Float n where
  xend := c.xend
  posneg := posneg
  safety := Float.ofBits Gen.Static.rk23_safety_factor
  scaleMin := Float.ofBits Gen.Static.rk23_scale_min
  scaleMax := Float.ofBits Gen.Static.rk23_scale_max
  hmax := hmax
  nmax := c.nmax
  dense := c.dense
  atol := atol
  rtol := rtol
  one := 1.0
  quarter := 0.25
  half := 0.5
  threeq := 0.75

def mkR4 (c : Case) : R4Params Float where
  xend := c.xend
  nmax := c.nmax
  dense := c.dense
  quarter := 0.25
  half := 0.5
  threeq := 0.75

def runCase (c : Case) : String :=
  let n := c.n
  let f := oracle c n
  let ob := observer c n
  let y0 := toVec n (c.odeY.getD 0 #[])
  let atol := toVec n c.atol
  let rtol := toVec n c.rtol
  let posneg := Float.rustSignum (c.xend - c.x0)
  let span := Float.abs (c.xend - c.x0)
  let fuel := 2000000
  if c.method == "DOPRI5" then
    let hmax := c.maxstep.getD span
    let P : HParams Float n := dopri5Params { hl with stiffLimit := Float.ofBits Gen.Static.dopri5_stiffLimit } c.xend posneg
      (Float.ofBits Gen.Static.dopri5_uround) (Float.ofBits Gen.Static.dopri5_safety_factor) (Float.ofBits Gen.Static.dopri5_scale_min)
      (Float.ofBits Gen.Static.dopri5_scale_max) (Float.ofBits Gen.Static.dopri5_beta) hmax c.nmax (c.nstiff.getD Gen.Static.dopri5_stiff_test) c.dense
    fmtRes n c (hSolve P (dopri5Kernel atol rtol) f ob 0 c.x0 y0 c.first
      (hinitCall atol rtol c.x0 y0 posneg (Float.rustMin hmax span) Gen.Static.dopri5_hinitOrder) (Float.ofBits Gen.Static.dopri5_facold0) 0.0 fuel)
  else if c.method == "DOP853" then
    let hmax := (c.maxstep.map Float.abs).getD span
    let P : HParams Float n := dop853Params { hl with stiffLimit := Float.ofBits Gen.Static.dop853_stiffLimit } c.xend posneg
      (Float.ofBits Gen.Static.dop853_uround) (Float.ofBits Gen.Static.dop853_safety_factor) (Float.ofBits Gen.Static.dop853_scale_min)
      (Float.ofBits Gen.Static.dop853_scale_max) (Float.ofBits Gen.Static.dop853_beta) hmax c.nmax (c.nstiff.getD Gen.Static.dop853_stiff_test) c.dense
    fmtRes n c (hSolve P (dop853Kernel atol rtol) f ob 0 c.x0 y0 c.first
      (hinitCall atol rtol c.x0 y0 posneg (Float.rustMin hmax span) Gen.Static.dop853_hinitOrder) (Float.ofBits Gen.Static.dop853_facold0) 0.0 fuel)
  else if c.method == "RK23" then
    let hmax := (c.maxstep.map Float.abs).getD span
    let P : R23Params Float n := mkR23 c n posneg hmax atol rtol
    fmtRes n c (rk23Solve P f ob 0 c.x0 y0 c.first (Float.rustMin hmax span) fuel)
  else if c.method == "RK4" then
    let P : R4Params Float := mkR4 c
    fmtRes n c (rk4Solve P f ob 0 c.x0 y0 c.h fuel)
  else "res unknown-method"

def parseScript (s : String) : List (Nat × Option Float) :=
  if s == "-" || s == "" then [] else
  (s.splitOn ",").filterMap fun item => match item.splitOn ":" with
    | [k, "I"] => some (k.toNat!, none)
    | [k, m] => some (k.toNat!, some (parseF (m.drop 1).toString))
    | _ => none

def step (c : Case) (line : String) : Case × String :=
  match words line with
  | "case" :: _ => ({}, "ok")
  | "method" :: m :: rest =>
    let kv := kvs rest
    ({ c with method := m, n := (get kv "n").toNat!, x0 := parseF (get kv "x0"), xend := parseF (get kv "xend"),
              rtol := parseFs (get kv "rtol"), atol := parseFs (get kv "atol"), first := optF (get kv "first"),
              maxstep := optF (get kv "maxstep"), nmax := (get kv "nmax").toNat!, dense := get kv "dense" == "1",
              h := parseF (get kv "h"), script := parseScript (get kv "script"),
              nstiff := (if get kv "nstiff" == "" || get kv "nstiff" == "-" then none else some (get kv "nstiff").toNat!) }, "ok")
  | ["ode", t, y, d] =>
    ({ c with odeT := c.odeT.push (parseF t), odeY := c.odeY.push (parseFs y), odeD := c.odeD.push (parseFs d) }, "ok")
  | ["run"] => (c, runCase c)
  | _ => (c, "bad-op")

def run (lines : Array String) : Array String := Id.run do
  let mut c : Case := {}
  let mut out := #[]
  for l in lines do
    let (c', o) := step c l
    c := c'
    out := out.push o
  return out

end Drv.Solve
