/- X-cont driver: segment lookup of `ContinuousOutput` / `Solution::sol` replayed on the op lines of the harness. -/
import IvpModel.Model.Cont
import IvpModel.Driver.Util

namespace Drv.Cont
open ContM

def parseSegs (s : String) : List (Seg Float) :=
  if s == "-" then [] else
  let fs := parseFs s
  (List.range (fs.size / 2)).map fun k => ⟨k, fs[2 * k]!, fs[2 * k + 1]!⟩

def fmtSpan (o : Option (Float × Float)) : String :=
  match o with
  | none => "span none"
  | some (a, b) => s!"span {fmtF a} {fmtF b}"

def step (cs : Option (List (Seg Float))) (line : String) : Option (List (Seg Float)) × String :=
  match words line with
  | ["reset"] => (none, "ok")
  | ["none"] => (none, fmtSpan (solSpan (none : Option (List (Seg Float)))))
  | ["new", segs] =>
      let c := fromSegments (parseSegs segs)
      (some c, s!"{c.length} {fmtSpan (solSpan (some c))}")
  | ["const", x0] =>
      let c := constant (parseF x0)
      (some c, s!"{c.length} {fmtSpan (solSpan (some c))}")
  | ["sol", t] =>
      (cs, match sol cs (parseF t) with
        | .ok i => s!"ok {i}"
        | .outOfRange => "oor"
        | .notEnabled => "notenabled")
  | ["many", ts] =>
      (cs, match solMany cs (parseFs ts).toList with
        | .ok ids => "ok " ++ ",".intercalate (ids.map toString)
        | .outOfRange => "oor"
        | .notEnabled => "notenabled"
        | .panic => "panic")
  | ["ext", t] =>
      (cs, match cs with
        | none => "none"
        | some segs => match findExtrap segs (parseF t) with
          | some s => s!"ok {s.id}"
          | none => "none")
  | _ => (cs, "bad-op")

def run (lines : Array String) : Array String := Id.run do
  let mut cs : Option (List (Seg Float)) := none
  let mut out := #[]
  for l in lines do
    let (c, o) := step cs l
    cs := c
    out := out.push o
  return out

end Drv.Cont
