/- X-lu: the LU routines of the model at `Float` on recorded inputs. -/
import IvpModel.Driver.Util
import IvpModel.Model.LU
import IvpModel.Model.LUF

namespace Drv.Lu
open Drv LU

def errStr : Err → String
  | .nonSquare => "NonSquareMatrix"
  | .pivotSize => "PivotSizeMismatch"
  | .singular => "SingularMatrix"

def fmtIp (ip : Array Nat) : String := ",".intercalate (ip.toList.map toString)
def parseIp (s : String) : Array Nat := if s == "-" || s == "" then #[] else ((s.splitOn ",").map String.toNat!).toArray

def step (line : String) : String :=
  match words line with
  | ["dec", r, c, l, a] =>
    -- both real models answer (the loop transcription `LU` and the closed-form `LUF` the general theorems are about);
    -- a difference between them is reported on the line and so shows up as a disagreement with the implementation
    let show1 := fun (r : Except Err (Array Float × Array Nat)) => match r with
      | .ok (f, ip) => s!"ok {fmtFs f} {fmtIp ip}"
      | .error e => s!"err {errStr e}"
    let s1 := show1 (LUF.decomp (α := Float) r.toNat! c.toNat! l.toNat! (parseFs a))
    let s2 := show1 (decomp (α := Float) r.toNat! c.toNat! l.toNat! (parseFs a))
    if s1 == s2 then s1 else s!"model-split luf=[{s1}] lu=[{s2}]"
  | ["sol", n, a, ip, b] =>
    let s1 := s!"x {fmtFs (LUF.solve (α := Float) n.toNat! (parseFs a) (parseIp ip) (parseFs b))}"
    let s2 := s!"x {fmtFs (solve (α := Float) n.toNat! (parseFs a) (parseIp ip) (parseFs b))}"
    if s1 == s2 then s1 else s!"model-split luf=[{s1}] lu=[{s2}]"
  | ["decc", n, l, ar, ai] =>
    match decompC (α := Float) n.toNat! l.toNat! (parseFs ar) (parseFs ai) with
    | .ok (fr, fi, ip) => s!"ok {fmtFs fr} {fmtFs fi} {fmtIp ip}"
    | .error e => s!"err {errStr e}"
  | ["solc", n, ar, ai, ip, br, bi] =>
    let r := solveC (α := Float) n.toNat! (parseFs ar) (parseFs ai) (parseIp ip) (parseFs br) (parseFs bi)
    s!"x {fmtFs r.1} {fmtFs r.2}"
  | _ => "bad-op"

def run (lines : Array String) : Array String := lines.map step
end Drv.Lu
