/- X-matrix: executes matrix operation lines on the model (`Model/Matrix.lean`) at `Float`. -/
import IvpModel.Driver.Util
import IvpModel.Model.Matrix
import IvpModel.Gen.Static

namespace Drv.Matrix
open Drv

abbrev Regs := List (String × Mat Float)

def look (rs : Regs) (k : String) : Option (Mat Float) := (rs.find? (·.1 == k)).map (·.2)
def put (rs : Regs) (k : String) (m : Mat Float) : Regs := (k, m) :: rs.filter (·.1 != k)

def storageStr : Storage → String
  | .identity => "identity"
  | .full => "full"
  | .banded ml mu => s!"banded:{ml}:{mu}"

def dump (m : Mat Float) : String :=
  s!"mat {m.n} {m.m} {storageStr m.storage} {m.data.size} {fmtFs m.data}"

def parseStorage : List String → Option Storage
  | ["identity"] => some .identity
  | ["full"] => some .full
  | ["banded", a, b] => some (.banded a.toNat! b.toNat!)
  | _ => none

def step (rs : Regs) (line : String) : Regs × String :=
  match words line with
  | ["new", r, "identity", n] => (put rs r (Mat.identity n.toNat!), "ok")
  | ["new", r, "full", n, m] => (put rs r (Mat.full n.toNat! m.toNat!), "ok")
  | ["new", r, "zeros", n, m] => (put rs r (Mat.zeros n.toNat! m.toNat!), "ok")
  | ["new", r, "square", n] =>
      let n := n.toNat!
      (put rs r (Mat.square n (Gen.Static.squareBufLen n)), "ok")
  | ["new", r, "banded", n, ml, mu] => (put rs r (Mat.banded n.toNat! ml.toNat! mu.toNat!), "ok")
  | ["new", r, "lower", n] => (put rs r (Mat.lowerTriangular n.toNat!), "ok")
  | ["new", r, "upper", n] => (put rs r (Mat.upperTriangular n.toNat!), "ok")
  | ["new", r, "diag", vs] => (put rs r (Mat.diagonal (parseFs vs)), "ok")
  | ["new", r, "fromvec", n, m, vs] =>
      match Mat.fromVec n.toNat! m.toNat! (parseFs vs) with
      | some A => (put rs r A, "ok")
      | none => (rs, "panic")
  | "new" :: r :: "fromstorage" :: n :: m :: st =>
      match parseStorage st with
      | some s => (put rs r (Mat.fromStorage n.toNat! m.toNat! s), "ok")
      | none => (rs, "bad-op")
  | ["get", r, i, j] =>
      match look rs r with
      | some A => (rs, match A.get i.toNat! j.toNat! with | some v => "val " ++ fmtF v | none => "panic")
      | none => (rs, "bad-op")
  | ["set", r, i, j, v] =>
      match look rs r with
      | some A => (match A.set i.toNat! j.toNat! (parseF v) with | some A' => (put rs r A', "ok") | none => (rs, "panic"))
      | none => (rs, "bad-op")
  | [op, d, a, b] =>
      if op == "add" || op == "sub" then
        match look rs a, look rs b with
        | some A, some B =>
            (match Mat.addSub (op == "add") A B with | some C => (put rs d C, "ok") | none => (rs, "panic"))
        | _, _ => (rs, "bad-op")
      else if op == "cadd" || op == "csub" then
        match look rs a with
        | some A => (match Mat.componentAddSub (op == "cadd") A (parseF b) with | some C => (put rs d C, "ok") | none => (rs, "panic"))
        | none => (rs, "bad-op")
      else if op == "cmul" then
        match look rs a with
        | some A => (put rs d (Mat.componentMul A (parseF b)), "ok")
        | none => (rs, "bad-op")
      else (rs, "bad-op")
  | ["cmulmut", a, c] =>
      match look rs a with
      | some A => (put rs a (Mat.componentMulMut A (parseF c)), "ok")
      | none => (rs, "bad-op")
  | ["defmass", a] =>
    match look rs a with
    | some A => (match Mat.defaultMass A with | some A' => (put rs a A', "ok") | none => (rs, "panic"))
    | none => (rs, "bad-op")
  | ["fill", a, c] =>
      match look rs a with
      | some A => (put rs a (Mat.fill A (parseF c)), "ok")
      | none => (rs, "bad-op")
  | ["isid", a] =>
      match look rs a with
      | some A => (rs, match A.isIdentity with | some b => s!"bool {b}" | none => "panic")
      | none => (rs, "bad-op")
  | ["dump", a] =>
      match look rs a with
      | some A => (rs, dump A)
      | none => (rs, "bad-op")
  | ["reset"] => ([], "ok")
  | _ => (rs, "bad-op")

def run (lines : Array String) : Array String := Id.run do
  let mut rs : Regs := []
  let mut out := #[]
  for l in lines do
    let (rs', o) := step rs l
    rs := rs'
    out := out.push o
  return out

end Drv.Matrix
