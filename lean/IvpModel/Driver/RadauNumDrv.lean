/- X-radaunum: re-runs a recorded Radau run on the full numeric model at `Float`; right-hand side and Jacobian are the
   recorded logs (call j must come with bit-identical arguments), the mass matrix is the recorded dense matrix. -/
import IvpModel.Driver.Util
import IvpModel.Model.RadauNum

namespace Drv.RadauN
open Drv

structure Case where
  n : Nat := 0
  x0 : Float := 0
  xend : Float := 0
  rtol : Array Float := #[]
  atol : Array Float := #[]
  mass : Array Float := #[]
  first : Option Float := none
  maxstep : Option Float := none
  minstep : Option Float := none
  ntol : Option Float := none
  nmax : Nat := 0
  maxnewton : Nat := 7
  smin : Float := 0.2
  smax : Float := 8.0
  pred : Bool := true
  nind1 : Nat := 0
  nind2 : Nat := 0
  nind3 : Nat := 0
  dense : Bool := true
  script : List (Nat × Option Float) := []
  odeT : Array Float := #[]
  odeY : Array (Array Float) := #[]
  odeD : Array (Array Float) := #[]
  jacT : Array Float := #[]
  jacY : Array (Array Float) := #[]
  jacJ : Array (Array Float) := #[]

def kvs (ws : List String) : List (String × String) :=
  ws.filterMap fun w => match w.splitOn "=" with
    | [a, b] => some (a, b)
    | _ => none
def get (m : List (String × String)) (k : String) : String := ((m.find? (·.1 == k)).map (·.2)).getD ""
def optF (s : String) : Option Float := if s == "-" || s == "" then none else some (parseF s)
def bitsEq (a b : Float) : Bool := a.toBits == b.toBits || (a.isNaN && b.isNaN)
def sameArgs (t t' : Float) (y y' : Array Float) : Bool :=
  bitsEq t t' && y.size == y'.size && (List.range y'.size).all (fun i => bitsEq (y.getD i 0) (y'.getD i 0))
def nanVec (k : Nat) (tag : UInt64) : Array Float := Array.replicate k (Float.ofBits (0x7FF8000000000000 + tag))

def odeOracle (c : Case) : Nat → Float → Array Float → Array Float := fun j t y =>
  match c.odeT[j]?, c.odeY[j]?, c.odeD[j]? with
  | some t', some y', some d => if sameArgs t t' y y' then d else nanVec c.n 3
  | _, _, _ => nanVec c.n 4
def jacOracle (c : Case) : Nat → Float → Array Float → Array Float := fun j t y =>
  match c.jacT[j]?, c.jacY[j]?, c.jacJ[j]? with
  | some t', some y', some m => if sameArgs t t' y y' then m else nanVec (c.n * c.n) 5
  | _, _, _ => nanVec (c.n * c.n) 6
def observer (c : Case) : Nat → Float → Float → Array Float → RadauCtl.Flag × Array Float := fun k _xold _x y =>
  match c.script.find? (·.1 == k) with
  | some (_, none) => (.interrupt, y)
  | some (_, some f) => (.modified, y.map (· * f))
  | none => (.cont, y)

def lits : RadauNum.NLits Float :=
  { zero := 0.0, one := 1.0, two := 2.0, three := 3.0, four := 4.0, half := 0.5, tenth := 0.1, p8 := 0.8, p99 := 0.99, quarter := 0.25,
    thet := 0.001, quot1 := 1.0, quot2 := 1.2, em4 := 1e-4, twenty := 20.0, em2 := 1e-2, em10 := 1e-10, ten := 10.0, p03 := 0.03,
    em6 := 1.0e-6, stretch := 1.01, expm := 2.0 / 3.0, inf := Float.ofBits 0x7FF0000000000000 }

def stName : RadauCtl.Status → String
  | .success => "Success" | .userInterrupt => "UserInterrupt" | .needLargerNMax => "NeedLargerNMax"
  | .stepSizeTooSmall => "StepSizeTooSmall" | .singularMatrix => "SingularMatrix" | .oracleExhausted => "OracleExhausted"

def runCase (c : Case) : String :=
  let S : RadauNum.Setup Float :=
    { x0 := c.x0
      xend := c.xend
      y0 := c.odeY.getD 0 #[]
      rtol := c.rtol
      atol := c.atol
      mass := c.mass
      firstStep := c.first
      maxStep := c.maxstep
      minStep := c.minstep
      newtonTol := c.ntol
      nmax := c.nmax
      maxNewton := c.maxnewton
      uround := 2.3e-16
      safety := 0.9
      scaleMin := c.smin
      scaleMax := c.smax
      predictive := c.pred
      nind1 := c.nind1
      nind2 := c.nind2
      nind3 := c.nind3
      dense := c.dense }
  let r := RadauNum.solve lits S (odeOracle c) (jacOracle c) (observer c) #[0.0, 0.25, 0.5, 0.75, 1.0] 2000000
  let odes := r.log.toList.filterMap fun e => match e with | .ode j t y => some (j, t, y) | _ => none
  let jacs := r.log.toList.filterMap fun e => match e with | .jac j t y => some (j, t, y) | _ => none
  let cbs := r.log.toList.filterMap fun e => match e with
    | .cb xo x y smp => some (s!"{fmtF xo},{fmtF x}:{fmtFs y}:" ++ "/".intercalate (smp.toList.map fmtFs))
    | _ => none
  let mo := odes.find? fun (j, t, y) => match c.odeT[j]?, c.odeY[j]? with
    | some t', some y' => !(sameArgs t t' y y') | _, _ => true
  let mj := jacs.find? fun (j, t, y) => match c.jacT[j]?, c.jacY[j]? with
    | some t', some y' => !(sameArgs t t' y y') | _, _ => true
  let mm := match mo, mj with
    | some (j, _, _), _ => s!"ode{j}"
    | none, some (j, _, _) => s!"jac{j}"
    | none, none => "-"
  s!"res {stName r.status} h={fmtF r.h} total={r.cnt.total} acc={r.cnt.accepted} rej={r.cnt.rejected} ode={r.cnt.ode} jac={r.cnt.jac} lu={r.cnt.lu} odecalls={odes.length} jaccalls={jacs.length} mism={mm} starved={if r.starved then 1 else 0} cbs={cbs.length} " ++ "|".intercalate cbs

def parseScript (s : String) : List (Nat × Option Float) :=
  if s == "-" || s == "" then [] else
  (s.splitOn ",").filterMap fun item => match item.splitOn ":" with
    | [k, "I"] => some (k.toNat!, none)
    | [k, m] => some (k.toNat!, some (parseF (m.drop 1).toString))
    | _ => none

def step (c : Case) (line : String) : Case × String :=
  match words line with
  | "case" :: _ => ({}, "ok")
  | "setup" :: rest =>
    let kv := kvs rest
    ({ c with n := (get kv "n").toNat!, x0 := parseF (get kv "x0"), xend := parseF (get kv "xend"),
              rtol := parseFs (get kv "rtol"), atol := parseFs (get kv "atol"), mass := parseFs (get kv "mass"),
              first := optF (get kv "first"), maxstep := optF (get kv "maxstep"), minstep := optF (get kv "minstep"),
              ntol := optF (get kv "ntol"), nmax := (get kv "nmax").toNat!, maxnewton := (get kv "maxnewton").toNat!,
              smin := parseF (get kv "smin"), smax := parseF (get kv "smax"), pred := get kv "pred" == "1",
              nind1 := (get kv "nind1").toNat!, nind2 := (get kv "nind2").toNat!, nind3 := (get kv "nind3").toNat!,
              dense := get kv "dense" == "1", script := parseScript (get kv "script") }, "ok")
  | ["ode", t, y, d] =>
    ({ c with odeT := c.odeT.push (parseF t), odeY := c.odeY.push (parseFs y), odeD := c.odeD.push (parseFs d) }, "ok")
  | ["jac", t, y, m] =>
    ({ c with jacT := c.jacT.push (parseF t), jacY := c.jacY.push (parseFs y), jacJ := c.jacJ.push (parseFs m) }, "ok")
  | ["run"] => (c, runCase c)
  | _ => (c, "bad-op")

def run (lines : Array String) : Array String := Id.run do
  let mut c : Case := {}
  let mut out := #[]
  for l in lines do
    let (c', o) := step c l
    c := c'
    out := out.push o
  return out

end Drv.RadauN
