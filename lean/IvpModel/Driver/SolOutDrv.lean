/- X-solout: replays callback histories on the handler model (`Model/SolOut.lean`) at `Float`. -/
import IvpModel.Driver.Util
import IvpModel.Model.SolOut
import IvpModel.Gen.Static

namespace Drv.SolOut
open Drv SolOutM

/-- handler literals: the four that the source spells out are taken from the regenerated `Gen/Static.lean` -/
def lits : Lits Float :=
  { tol := Float.ofBits Gen.Static.soloutTol.2.2, xtol := Float.ofBits Gen.Static.soloutXtol.2.2,
    rtol := Float.ofBits Gen.Static.soloutRtol.2.2, half := 0.5, two := 2.0, three := 3.0,
    one := 1.0, zero := 0.0, maxIter := Gen.Static.soloutMaxIter }

structure Ev where
  a : Float
  c : Float
  b : Array Float

/-- g_k(t,y) = a t − c + Σ b_i y_i, accumulated left to right as in the harness -/
def evalEvents (evs : Array Ev) (t : Float) (y : Array Float) : Array Float :=
  evs.map fun e => Id.run do
    let mut g := e.a * t - e.c
    for i in [0:e.b.size] do
      g := g + e.b[i]! * y.getD i 0.0
    return g

/-- quadratic test interpolant of the harness: c0 + θ (c1 − c0) + θ (1 − θ) c2 -/
def quadInterp (xold h : Float) (c0 c1 c2 : Array Float) : Interp Float :=
  { xold := xold, h := h,
    eval := fun xi =>
      let th := (xi - xold) / h
      (Array.range c0.size).map fun i => c0[i]! + th * (c1[i]! - c0[i]!) + th * (1.0 - th) * c2[i]! }

def optF (s : String) : Option Float := if s == "-" then none else some (parseF s)

def kv (w : String) : String := ((w.splitOn "=").getD 1 "")

def fmtRows (rows : Array (Array Float)) : String := ";".intercalate (rows.toList.map fmtFs)

def dumpSt (s : St Float) : String :=
  let te := "|".intercalate (s.tEvents.toList.map fmtFs)
  let ye := "|".intercalate (s.yEvents.toList.map fmtRows)
  let segs := ";".intercalate (s.denseSegs.toList.map fun p => fmtF p.1 ++ "," ++ fmtF p.2)
  s!"end t=[{fmtFs s.t}] y=[{fmtRows s.y}] te=[{te}] ye=[{ye}] segs=[{segs}]"

structure Run where
  st : Option (St Float) := none
  evs : Array Ev := #[]
  cfgs : Array EvCfg := #[]
  dead : Bool := false      -- a callback panicked or interrupted: the harness stops feeding the handler
  panicked : Bool := false

def parseDir (s : String) : Dir := if s == "1" then .positive else if s == "-1" then .negative else .all

def step (r : Run) (line : String) : Run × String :=
  match words line with
  | "case" :: _ => ({}, "ok")
  | ["ev", a, c, dir, term, bs] =>
      ({ r with evs := r.evs.push ⟨parseF a, parseF c, parseFs bs⟩,
                cfgs := r.cfgs.push ⟨parseDir dir, if term == "-" then none else some term.toNat!⟩ }, "ok")
  | ["cfg", _n, collect, first, x0, teval] =>
      let te := if kv teval == "-" then none else some (parseFs (kv teval))
      let st := init lits r.cfgs te (kv collect == "1") (optF (kv first)) (parseF (kv x0))
      ({ r with st := some st }, "ok")
  | "cb" :: xold :: x :: ys :: rest =>
      match r.st with
      | none => (r, "bad-op")
      | some st =>
        if r.dead then (r, "skipped") else
        let ip : Option (Interp Float) := match rest with
          | [xo, h, c0, c1, c2] => some (quadInterp (parseF xo) (parseF h) (parseFs c0) (parseFs c1) (parseFs c2))
          | _ => none
        match SolOutM.step lits (evalEvents r.evs) st (parseF xold) (parseF x) (parseFs ys) ip with
        | none => ({ r with dead := true, panicked := true }, "flag panic")
        -- the modelled handler has no way to write through `x` / `y`: both come back as they went in
        | some (st', .cont) => ({ r with st := some st' }, s!"flag cont x={fmtF (parseF x)} y={fmtFs (parseFs ys)}")
        | some (st', .interrupt) => ({ r with st := some st', dead := true }, s!"flag interrupt x={fmtF (parseF x)} y={fmtFs (parseFs ys)}")
  | ["end"] =>
      match r.st with
      | some st => (r, if r.panicked then "end after-panic" else dumpSt st)
      | none => (r, "bad-op")
  | _ => (r, "bad-op")

def run (lines : Array String) : Array String := Id.run do
  let mut r : Run := {}
  let mut out := #[]
  for l in lines do
    let (r', o) := step r l
    r := r'
    out := out.push o
  return out

end Drv.SolOut
