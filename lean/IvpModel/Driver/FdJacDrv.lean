/- X-fdjac: the model of the trait's default finite-difference Jacobian at `Float` on recorded inputs. -/
import IvpModel.Driver.Util
import IvpModel.Model.FdJac

namespace Drv.FdJ
open Drv

/-- the right-hand sides of harness/src/xfdjac.rs, accumulated in the same order -/
def rhs (kind n : Nat) (a b : Array Float) : (Nat → Float) → Nat → Float := fun v r =>
  (List.range n).foldl (fun s c =>
    if kind = 0 then s + a.getD (r * n + c) 0.0 * v c else s + a.getD (r * n + c) 0.0 * v c * v ((c + 1) % n)) (b.getD r 0.0)

def step (line : String) : String :=
  match words line with
  | ["fdj", kind, n, a, b, y] =>
    let n := n.toNat!
    let ya := parseFs y
    let J := FdJac.matrix (α := Float) n (rhs kind.toNat! n (parseFs a) (parseFs b)) Gen.Ivp.fdEps (fun i => ya.getD i 0.0)
    s!"J {fmtFs J}"
  | _ => "bad-op"

def run (lines : Array String) : Array String := lines.map step
end Drv.FdJ
