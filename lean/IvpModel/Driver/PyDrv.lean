/- X-py: the Python-layer model on the Rust `Solution` dumps written by the harness. -/
import IvpModel.Driver.Util
import IvpModel.Model.PyLayer

namespace Drv.PyDrv
open Drv Py

def kv (ws : List String) (key : String) : String :=
  match ws.find? (fun w => w.startsWith (key ++ "=")) with
  | some w => (w.drop (key.length + 1)).toString
  | none => ""

def parseNats (s : String) : Array Nat :=
  if s == "-" || s == "" then #[] else ((s.splitOn ",").map String.toNat!).toArray

def parseRows (s : String) : Array (Array Float) :=
  if s == "-" || s == "" then #[] else ((s.splitOn ";").map parseFs).toArray

def fmtYEv : YEv Float → String
  | .emptyArr => "e0"
  | .arr k n flat => s!"{k}x{n}:{fmtFs flat}"

def step (line : String) : String :=
  let ws := words line
  match ws.head? with
  | some "res" =>
    match Status.ofName (kv ws "status") with
    | none => "bad-status"
    | some st =>
      let tev := kv ws "tev"
      let yev := kv ws "yev"
      let s : Solution Float :=
        { t := parseFs (kv ws "t"), y := parseRows (kv ws "y"),
          tEvents := if tev == "" then #[] else ((tev.splitOn "|").map parseFs).toArray,
          yEvents := if yev == "" then #[] else ((yev.splitOn "|").map parseRows).toArray,
          nfev := (kv ws "nfev").toNat!, njev := (kv ws "njev").toNat!, nlu := (kv ws "nlu").toNat!,
          status := st, dense := kv ws "dense" == "1" }
      let r := buildResult (kv ws "n").toNat! s (kv ws "events" == "1") (kv ws "constjac" == "1")
      let tevS := match r.tEvents with
        | none => "None"
        | some l => "|".intercalate (l.toList.map fun (a : Array Float) => if a.isEmpty then "-" else fmtFs a)
      let yevS := match r.yEvents with
        | none => "None"
        | some l => "|".intercalate (l.toList.map fmtYEv)
      let tS := if r.t.isEmpty then "-" else fmtFs r.t
      s!"py t={tS} yshape={r.yShape.1}x{r.yShape.2} y={fmtFs r.y} status={r.status} success={if r.success then 1 else 0} message={r.message} nfev={r.nfev} njev={r.njev} nlu={r.nlu} tev={tevS} yev={yevS} sol={if r.hasSol then 1 else 0}"
  | some "evalk" =>
    let k := (kv ws "k").toNat!
    let n := (kv ws "n").toNat!
    s!"arr {n}x{k} {fmtFs (transposeFlat (parseFs (kv ws "vals")) k n)}"
  | some "eval1" => s!"arr {(kv ws "n").toNat!} {fmtFs (parseFs (kv ws "vals"))}"
  | some "err" => line.trimAscii.toString
  | some "panic" => "panic"
  | some "evalnone" => "evalnone"
  | some "group" =>
    let n := (kv ws "n").toNat!
    match groupColumns (colToRows n (parseNats (kv ws "indptr")) (parseNats (kv ws "indices"))) n with
    | some (g, k) => s!"groups {",".intercalate (g.map toString)} k={k}"
    | none => "panic"
  | _ => "bad-op"

def run (lines : Array String) : Array String := lines.map step
end Drv.PyDrv
