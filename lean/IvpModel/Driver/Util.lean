/- Line-protocol helpers for the model driver (core Lean only). -/
import IvpModel.Num

namespace Drv

def hexDigit (c : Char) : Option Nat :=
  if '0' ≤ c ∧ c ≤ '9' then some (c.toNat - '0'.toNat)
  else if 'a' ≤ c ∧ c ≤ 'f' then some (c.toNat - 'a'.toNat + 10)
  else if 'A' ≤ c ∧ c ≤ 'F' then some (c.toNat - 'A'.toNat + 10)
  else none

def parseHex (s : String) : Option Nat :=
  s.toList.foldl (fun acc c => match acc, hexDigit c with
    | some a, some d => some (a * 16 + d)
    | _, _ => none) (some 0)

/-- a float is transmitted as the 16 hex digits of its bit pattern -/
def parseF (s : String) : Float :=
  match parseHex s with
  | some v => Float.ofBits (UInt64.ofNat v)
  | none => Float.ofBits 0x7FF8000000000001

def hexChar (d : Nat) : Char := if d < 10 then Char.ofNat (d + 48) else Char.ofNat (d - 10 + 97)

/-- hex bit pattern; every NaN is written as the canonical quiet NaN (sign and payload of NaNs are not compared) -/
def fmtF (x : Float) : String :=
  let v := if x.isNaN then 0x7ff8000000000000 else x.toBits.toNat
  String.ofList ((List.range 16).map fun k => hexChar ((v >>> (4 * (15 - k))) % 16))

def fmtFs (xs : Array Float) : String := ",".intercalate (xs.toList.map fmtF)

def parseFs (s : String) : Array Float :=
  if s.isEmpty || s == "-" then #[] else ((s.splitOn ",").map parseF).toArray

def words (line : String) : List String :=
  (line.trimAscii.toString.splitOn " ").filter (· ≠ "")

partial def readLines (h : IO.FS.Stream) (acc : Array String) : IO (Array String) := do
  let line ← h.getLine
  if line.isEmpty then return acc
  readLines h (acc.push (line.trimAscii.toString))

end Drv
