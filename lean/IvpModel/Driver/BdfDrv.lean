/- X-bdf: the BDF control model replayed on the control trace of real runs. -/
import IvpModel.Driver.Util
import IvpModel.Model.BdfCtl

namespace Drv.Bdf
open Drv BdfCtl

def kv (ws : List String) (key : String) : String :=
  match ws.find? (fun w => w.startsWith (key ++ "=")) with
  | some w => (w.drop (key.length + 1)).toString
  | none => ""

def optF (s : String) : Option Float := if s == "-" || s == "" then none else some (parseF s)

def kappaF : Nat → Float
  | 0 => 0.0 | 1 => -0.1850 | 2 => -1.0 / 9.0 | 3 => -0.0823 | 4 => -0.0415 | _ => 0.0

def lits : Lits Float :=
  { zero := 0.0, one := 1.0, two := 2.0, half := 0.5, tenth := 0.1, safety := 0.9, minFactor := 0.2, maxFactor := 10.0, stretch := 1.01,
    minPositive := Float.ofBits 0x0010000000000000, inf := Float.ofBits 0x7FF0000000000000, kappa := kappaF }

def flagOf (s : String) : Flag := if s == "1" then .interrupt else if s == "2" then .modified else .cont

def stName : Status → String
  | .success => "Success" | .userInterrupt => "UserInterrupt" | .needLargerNMax => "NeedLargerNMax"
  | .stepSizeTooSmall => "StepSizeTooSmall" | .oracleExhausted => "oracle-exhausted"

def b (x : Bool) : String := if x then "1" else "0"

def fmtState (s : State Float) : String :=
  s!"state x={fmtF s.x} h={fmtF s.h} order={s.order} neq={s.nEqual} lu={b s.luCurrent} c={fmtF s.currentC} total={s.cnt.total} acc={s.cnt.accepted} rej={s.cnt.rejected} ode={s.cnt.ode} jac={s.cnt.jac} nlu={s.cnt.lu}"

def fmtResult (r : Result Float) : String :=
  s!"end {stName r.status} h={fmtF r.h} total={r.cnt.total} acc={r.cnt.accepted} rej={r.cnt.rejected} ode={r.cnt.ode} jac={r.cnt.jac} nlu={r.cnt.lu} fcalls={r.cnt.ode} jcalls={r.cnt.jac}"

structure Sess where
  P : Params Float
  st : Option (State Float)

def step (ss : Option Sess) (line : String) : Option Sess × String :=
  let ws := words line
  match ws.head? with
  | some "case" =>
    let S : Setup Float :=
      { x0 := parseF (kv ws "x0"), xend := parseF (kv ws "xend"), hAbs0 := parseF (kv ws "habs0"), maxStep := optF (kv ws "maxstep"),
        minStep := optF (kv ws "minstep"), nmax := (kv ws "nmax").toNat!, maxit := (kv ws "maxit").toNat!,
        newtonTol := parseF (kv ws "ntol"), ode0 := (kv ws "ode0").toNat!, cb0 := flagOf (kv ws "cb0") }
    let P := params S
    match start lits S with
    | .inr r => (some ⟨P, none⟩, fmtResult r)
    | .inl s => (some ⟨P, some s⟩, s!"init h={fmtF s.h} hmax={fmtF P.hmax} hmin={fmtF P.hmin} dir={fmtF P.direction}")
  | some "first" =>
    match ss with
    | some ⟨_, some s⟩ => (ss, fmtState s)
    | _ => (ss, "no-state")
  | some "pass" =>
    match ss with
    | some ⟨P, some s⟩ =>
      let o : PassOracle Float :=
        { luOk := kv ws "lu" != "0", dyNorms := (parseFs (kv ws "dys")).toList, errorNorm := (optF (kv ws "err")).getD 0.0,
          errM := (optF (kv ws "errm")).getD 0.0, errP := (optF (kv ws "errp")).getD 0.0, cb := flagOf (kv ws "cb") }
      match pass lits P s o with
      | .inl s' => (some ⟨P, some s'⟩, fmtState s')
      | .inr r => (some ⟨P, none⟩, fmtResult r)
    | _ => (ss, "no-state")
  | _ => (ss, "bad-op")

def run (lines : Array String) : Array String :=
  (lines.foldl (fun (acc : Option Sess × Array String) l => let r := step acc.1 l; (r.1, acc.2.push r.2)) (none, #[])).2
end Drv.Bdf
