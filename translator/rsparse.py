"""Lexer + parser for the small Rust subset the numeric kernels of `ivp` are written in.

Anything outside the subset raises TieBroken: the check treats that like a failed proof.
"""
import re
from fractions import Fraction
import struct


class TieBroken(Exception):
    pass


TOKEN_RE = re.compile(r"""
    (?P<ws>\s+)
  | (?P<lcomment>//[^\n]*)
  | (?P<bcomment>/\*.*?\*/)
  | (?P<num>(?:\d[\d_]*\.(?!\.)(?![A-Za-z_])[\d_]*(?:[eE][+-]?[\d_]+)?|\d[\d_]*[eE][+-]?[\d_]+|\d[\d_]*)(?:_?f64|_?f32|usize|isize|u8|i32|i64)?)
  | (?P<ident>[A-Za-z_][A-Za-z0-9_]*)
  | (?P<lifetime>'[a-z_]+)
  | (?P<op>\.\.=|\.\.|::|->|=>|\+=|-=|\*=|/=|==|!=|<=|>=|&&|\|\||[-+*/%=<>!&|.,;:(){}\[\]?#])
""", re.X | re.S)


def lex(src):
    toks = []
    pos = 0
    while pos < len(src):
        m = TOKEN_RE.match(src, pos)
        if not m:
            raise TieBroken("lex error at %r" % src[pos:pos + 30])
        pos = m.end()
        k = m.lastgroup
        if k in ("ws", "lcomment", "bcomment"):
            continue
        toks.append((k, m.group(k)))
    toks.append(("eof", ""))
    return toks


def parse_number(text):
    """-> ('int', n) or ('float', Fraction exact, float value)"""
    t = text
    is_float_suffix = False
    for suf in ("_f64", "f64", "_f32", "f32"):
        if t.endswith(suf) and not re.fullmatch(r"[\d_]+", t):
            t = t[: -len(suf)]
            is_float_suffix = True
            break
    else:
        for suf in ("_f64", "f64"):
            if t.endswith(suf):
                t = t[: -len(suf)]
                is_float_suffix = True
                break
    for suf in ("usize", "isize", "u8", "i32", "i64"):
        if t.endswith(suf):
            t = t[: -len(suf)]
    t = t.replace("_", "")
    if re.fullmatch(r"\d+", t) and not is_float_suffix:
        return ("int", int(t))
    m = re.fullmatch(r"(\d*)\.?(\d*)(?:[eE]([+-]?\d+))?", t)
    if not m:
        raise TieBroken("bad number %r" % text)
    ip, fp, ex = m.group(1) or "0", m.group(2) or "", int(m.group(3) or 0)
    frac = Fraction(int(ip + fp), 10 ** len(fp)) * (Fraction(10) ** ex)
    return ("float", frac, float(t))


def f64_bits(x):
    return struct.unpack(">Q", struct.pack(">d", x))[0]


# ---------------------------------------------------------------- AST
# expr nodes: ('num', kind, ...), ('id', name), ('path', [segs]), ('bin', op, a, b), ('neg', a), ('not', a),
# ('ref', a), ('call', fn_expr, [args]), ('mcall', recv, name, [args]), ('field', recv, name),
# ('index', recv, idx), ('cast', a, type), ('range', a, b), ('tuple', [..]), ('closure', params, body)

BINPREC = {
    "||": 1, "&&": 2,
    "==": 3, "!=": 3, "<": 3, ">": 3, "<=": 3, ">=": 3,
    "+": 5, "-": 5, "*": 6, "/": 6, "%": 6,
}


class Parser:
    def __init__(self, toks):
        self.t = toks
        self.p = 0

    def peek(self, k=0):
        return self.t[self.p + k]

    def next(self):
        tok = self.t[self.p]
        self.p += 1
        return tok

    def at(self, val):
        return self.t[self.p][1] == val and self.t[self.p][0] != "num"

    def accept(self, val):
        if self.at(val):
            self.p += 1
            return True
        return False

    def expect(self, val):
        if not self.accept(val):
            raise TieBroken("expected %r, got %r (context: %s)" % (val, self.peek()[1], self.context()))

    def context(self):
        return " ".join(t[1] for t in self.t[max(0, self.p - 6): self.p + 6])

    # ---- expressions
    def expr(self, minprec=0, nostruct=False):
        lhs = self.unary(nostruct)
        while True:
            k, v = self.peek()
            if k == "ident" and v == "as":
                self.next()
                ty = self.type_()
                lhs = ("cast", lhs, ty)
                continue
            if k == "op" and v in BINPREC and BINPREC[v] >= minprec:
                # don't treat `..` as binary here
                prec = BINPREC[v]
                self.next()
                rhs = self.expr(prec + 1, nostruct)
                lhs = ("bin", v, lhs, rhs)
                continue
            if k == "op" and v in ("..", "..=") and minprec == 0:
                self.next()
                if self.peek()[1] in ("{", ")", "]", ","):
                    rhs = None
                else:
                    rhs = self.expr(1, nostruct)
                lhs = ("range", lhs, rhs, v == "..=")
                continue
            return lhs

    def type_(self):
        # simple path type
        name = self.next()[1]
        while self.accept("::"):
            name += "::" + self.next()[1]
        return name

    def unary(self, nostruct):
        k, v = self.peek()
        if k == "op" and v == "-":
            self.next()
            return ("neg", self.unary(nostruct))
        if k == "op" and v == "!":
            self.next()
            return ("not", self.unary(nostruct))
        if k == "op" and v == "&":
            self.next()
            self.accept("mut") if self.peek()[1] == "mut" else None
            return ("ref", self.unary(nostruct))
        if k == "op" and v == "*":
            self.next()
            return ("deref", self.unary(nostruct))
        if k == "op" and v == "..":
            self.next()
            rhs = self.expr(1, nostruct)
            return ("range", None, rhs, False)
        return self.postfix(self.primary(nostruct), nostruct)

    def primary(self, nostruct):
        k, v = self.next()
        if k == "num":
            return ("num",) + parse_number(v)
        if k == "ident":
            if v in ("true", "false"):
                return ("bool", v == "true")
            if v == "if":
                cond = self.expr(nostruct=True)
                self.expect("{")
                a = self.expr()
                self.expect("}")
                if self.next()[1] != "else":
                    raise TieBroken("if-expression without else")
                self.expect("{")
                b = self.expr()
                self.expect("}")
                return ("ifexpr", cond, a, b)
            segs = [v]
            while self.at("::"):
                self.next()
                segs.append(self.next()[1])
            if len(segs) > 1:
                return ("path", segs)
            return ("id", v)
        if k == "op" and v == "(":
            if self.accept(")"):
                return ("tuple", [])
            e = self.expr()
            if self.accept(","):
                items = [e]
                while not self.at(")"):
                    items.append(self.expr())
                    if not self.accept(","):
                        break
                self.expect(")")
                return ("tuple", items)
            self.expect(")")
            return ("paren", e)
        if k == "op" and v == "|":
            params = []
            while not self.at("|"):
                params.append(self.next()[1])
                self.accept(",")
            self.expect("|")
            body = self.expr()
            return ("closure", params, body)
        if k == "op" and v == "||":
            body = self.expr()
            return ("closure", [], body)
        raise TieBroken("unexpected token %r in expression (context: %s)" % (v, self.context()))

    def postfix(self, e, nostruct):
        while True:
            if self.at("."):
                # method call or field (not `..`)
                self.next()
                k, name = self.next()
                if k == "num":  # tuple field .0
                    e = ("field", e, name)
                    continue
                if self.at("("):
                    self.next()
                    args = []
                    while not self.at(")"):
                        args.append(self.expr())
                        if not self.accept(","):
                            break
                    self.expect(")")
                    e = ("mcall", e, name, args)
                else:
                    e = ("field", e, name)
                continue
            if self.at("["):
                self.next()
                idx = self.expr()
                self.expect("]")
                e = ("index", e, idx)
                continue
            if self.at("("):
                self.next()
                args = []
                while not self.at(")"):
                    args.append(self.expr())
                    if not self.accept(","):
                        break
                self.expect(")")
                e = ("call", e, args)
                continue
            return e

    # ---- statements
    def block(self):
        self.expect("{")
        stmts = []
        while not self.at("}"):
            stmts.append(self.stmt())
        self.expect("}")
        return stmts

    def stmts_until_eof(self):
        out = []
        while self.peek()[0] != "eof":
            out.append(self.stmt())
        return out

    def stmt(self):
        k, v = self.peek()
        if k == "ident" and v == "let":
            self.next()
            mut = False
            if self.peek()[1] == "mut":
                self.next()
                mut = True
            if self.at("("):
                raise TieBroken("tuple pattern in let (context: %s)" % self.context())
            name = self.next()[1]
            ty = None
            if self.accept(":"):
                ty = self.type_()
            init = None
            if self.accept("="):
                init = self.expr()
            self.expect(";")
            return ("let", name, init, mut, ty)
        if k == "ident" and v == "for":
            self.next()
            var = self.next()[1]
            if self.next()[1] != "in":
                raise TieBroken("for without in")
            rng = self.expr(nostruct=True)
            body = self.block()
            return ("for", var, rng, body)
        if k == "ident" and v == "if":
            return self.if_stmt()
        if k == "ident" and v in ("loop", "while", "match", "return", "break", "continue"):
            raise TieBroken("control flow %r inside a translated region (context: %s)" % (v, self.context()))
        # expression / assignment statement
        lhs = self.expr()
        k2, v2 = self.peek()
        if k2 == "op" and v2 in ("=", "+=", "-=", "*=", "/="):
            self.next()
            rhs = self.expr()
            self.expect(";")
            return ("assign", v2, lhs, rhs)
        self.expect(";")
        return ("expr", lhs)

    def if_stmt(self):
        self.next()  # if
        cond = self.expr(nostruct=True)
        then = self.block()
        els = None
        if self.peek()[1] == "else":
            self.next()
            if self.peek()[1] == "if":
                els = [self.if_stmt()]
            else:
                els = self.block()
        return ("if", cond, then, els)


def parse_stmts(src):
    return Parser(lex(src)).stmts_until_eof()


def parse_expr(src):
    p = Parser(lex(src))
    e = p.expr()
    if p.peek()[0] != "eof":
        raise TieBroken("trailing tokens after expression: %s" % p.context())
    return e
