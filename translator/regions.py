"""Source-region extraction (anchors) and region -> Lean definition."""
import re
import hashlib
from rsparse import TieBroken, parse_stmts, parse_expr, lex, Parser
import emit as E


def match_brace(src, open_pos):
    """Position just after the brace matching src[open_pos] == '{' (comments/strings are simple here)."""
    assert src[open_pos] == "{"
    depth = 0
    i = open_pos
    n = len(src)
    while i < n:
        c = src[i]
        if c == "/" and src.startswith("//", i):
            j = src.find("\n", i)
            i = n if j < 0 else j
            continue
        if c == '"':
            j = i + 1
            while j < n and src[j] != '"':
                j += 2 if src[j] == "\\" else 1
            i = j + 1
            continue
        if c == "{":
            depth += 1
        elif c == "}":
            depth -= 1
            if depth == 0:
                return i + 1
        i += 1
    raise TieBroken("unbalanced braces")


def find_fn(src, name):
    m = re.search(r"\bfn\s+%s\s*(<[^>]*>)?\s*\(" % re.escape(name), src)
    if not m:
        raise TieBroken("anchor: fn %s not found" % name)
    # find the body brace: first '{' after the signature's closing paren at depth 0 (skip where clauses)
    i = m.end() - 1
    depth = 0
    while True:
        c = src[i]
        if c == "(":
            depth += 1
        elif c == ")":
            depth -= 1
            if depth == 0:
                break
        i += 1
    j = src.index("{", i)
    end = match_brace(src, j)
    return src[j + 1: end - 1], j + 1


class Anchor:
    def __init__(self, name, text, file, line):
        self.name, self.text, self.file, self.line = name, text, file, line
        self.sha1 = hashlib.sha1(text.encode()).hexdigest()

    def meta(self):
        return {"anchor": self.name, "file": self.file, "line": self.line, "sha1": self.sha1, "bytes": len(self.text)}


def lineno(src, pos):
    return src.count("\n", 0, pos) + 1


def between(src, start_re, end_re, include_start=False, after=0):
    """Text strictly between the first match of start_re (after position `after`) and the next match of end_re."""
    m = re.compile(start_re, re.M).search(src, after)
    if not m:
        raise TieBroken("anchor: start pattern %r not found" % start_re)
    s = m.start() if include_start else m.end()
    m2 = re.compile(end_re, re.M).search(src, m.end())
    if not m2:
        raise TieBroken("anchor: end pattern %r not found after %r" % (end_re, start_re))
    return src[s: m2.start()], s


def stmt_after(src, start_re, kw, after=0, inner=False):
    """The next `kw ... { ... }` statement (kw in for/if) after start_re.  inner=True returns the block contents."""
    m = re.compile(start_re, re.M).search(src, after)
    if not m:
        raise TieBroken("anchor: pattern %r not found" % start_re)
    m2 = re.compile(r"\b%s\b" % kw).search(src, m.end())
    if not m2:
        raise TieBroken("anchor: no `%s` after %r" % (kw, start_re))
    # nothing but whitespace/comments may lie between
    gap = re.sub(r"//[^\n]*", "", src[m.end(): m2.start()]).strip()
    if gap:
        raise TieBroken("anchor: unexpected code between %r and the `%s`: %r" % (start_re, kw, gap[:60]))
    j = src.index("{", m2.end())
    end = match_brace(src, j)
    if inner:
        return src[j + 1: end - 1], j + 1, src[m2.end(): j].strip()
    return src[m2.start(): end], m2.start(), None


# ------------------------------------------------------------------ use/def analysis

def collect_uses(ctx, stmts):
    """Return (livein list of (kind,name) in first-use order, outs list of names, lets)."""
    defined = set()
    livein = []
    seen = set()

    def use(kind, name):
        if name in defined or (kind, name) in seen or name in ctx.consts:
            return
        seen.add((kind, name))
        livein.append((kind, name))

    def uexpr(e, lvs):
        k = e[0]
        if k in ("num", "bool", "path"):
            return
        if k == "id":
            n = e[1]
            if n in lvs:
                return
            if n in ctx.nat_vars:
                if n != ctx.dim:
                    use("nat", n)
                return
            if n in ctx.bool_vars:
                use("bool", n)
                return
            use("scalar", n)
            return
        if k in ("paren", "neg", "not", "deref", "ref"):
            uexpr(e[1], lvs)
            return
        if k == "cast":
            uexpr(e[1], lvs)
            return
        if k == "bin":
            uexpr(e[2], lvs)
            uexpr(e[3], lvs)
            return
        if k == "mcall":
            if e[2] == "len":
                return
            uexpr(e[1], lvs)
            for a in e[3]:
                uexpr(a, lvs)
            return
        if k == "index":
            recv, idx = e[1], e[2]
            if recv[0] == "id" and recv[1] in ctx.mat_vars:
                use("mat", recv[1])
                return
            ctx.loopvars = list(lvs)
            use("vec", E.vec_name(ctx, recv, idx))
            return
        if k == "tuple":
            for a in e[1]:
                uexpr(a, lvs)
            return
        if k == "ifexpr":
            for a in e[1:4]:
                uexpr(a, lvs)
            return
        raise TieBroken("unsupported expression in use analysis: %r" % (k,))

    def define(name):
        defined.add(name)

    def ustmts(ss, lvs):
        for s in ss:
            k = s[0]
            if k == "let":
                if s[2] is not None:
                    uexpr(s[2], lvs)
                    define(s[1])
            elif k == "assign":
                op, lhs, rhs = s[1], s[2], s[3]
                uexpr(rhs, lvs)
                if lhs[0] == "id":
                    if op != "=":
                        use("scalar", lhs[1])
                    if not lvs:
                        define(lhs[1])
                    else:
                        # inside a loop: a scalar written before read is loop-local (handled by emitter)
                        define(lhs[1]) if first_access_is_write_cache.get(lhs[1]) else None
                else:
                    ctx.loopvars = list(lvs)
                    name = E.vec_name(ctx, lhs[1], lhs[2])
                    if op != "=":
                        use("vec", name)
                    # element writes never fully define the vector until the loop ends; handled at loop level
            elif k == "for":
                ws, lets = E.assigned_vars(ctx, s[3], lvs + [s[1]])
                vec_w = [w for w in ws if w not in lets and is_vec(ctx, w)]
                sc_w = [w for w in ws if w not in lets and not is_vec(ctx, w)]
                for w in sc_w:
                    first_access_is_write_cache[w] = E.first_access_is_write(s[3], w)
                    if not first_access_is_write_cache[w]:
                        use("scalar", w)
                saved = set(defined)
                ustmts(s[3], lvs + [s[1]])
                defined.clear()
                defined.update(saved)
                for w in vec_w:
                    define(w)
                for w in sc_w:
                    if not first_access_is_write_cache[w]:
                        define(w)
            elif k == "if":
                uexpr(s[1], lvs)
                w1, l1 = E.assigned_vars(ctx, s[2], lvs)
                w2, l2 = E.assigned_vars(ctx, s[3] or [], lvs)
                saved = set(defined)
                ustmts(s[2], lvs)
                d1 = set(defined)
                defined.clear(); defined.update(saved)
                ustmts(s[3] or [], lvs)
                d2 = set(defined)
                defined.clear(); defined.update(saved)
                both = [w for w in w1 if w in w2 and w not in l1 and w not in l2]
                only = [w for w in w1 + w2 if w not in both and w not in l1 and w not in l2]
                for w in only:
                    use("vec" if is_vec(ctx, w) else "scalar", w)
                for w in both + only:
                    define(w)
            elif k == "expr":
                e = s[1]
                if e[0] == "mcall" and e[2] == "ode":
                    t, a, b = e[3]
                    uexpr(t, lvs)
                    use("vec", E.vec_name(ctx, a))
                    use("calls", "calls")
                    define(E.vec_name(ctx, b))
                    define("calls")
                elif e[0] == "mcall" and e[2] == "copy_from_slice":
                    use("vec", E.vec_name(ctx, e[3][0]))
                    define(E.vec_name(ctx, e[1]))
                else:
                    raise TieBroken("unsupported expression statement")
            else:
                raise TieBroken("unsupported statement")

    first_access_is_write_cache = {}
    ustmts(stmts, [])
    outs, lets = E.assigned_vars(ctx, stmts)
    return livein, outs, lets


def is_vec(ctx, w):
    if w in ctx.vec_vars:
        return True
    for b in ctx.blocks:
        if w.startswith(b) and w[len(b):].isdigit():
            return True
    return False


def scan_vectors(stmts, dim):
    """Names that are used as vectors, and blocked buffers (indexed with k*n+i)."""
    vecs, blocks, mats = set(), {}, set()

    def blk(idx):
        if idx[0] == "bin" and idx[1] == "+":
            a = idx[2]
            if a == ("id", dim):
                return 1
            if a[0] == "bin" and a[1] == "*" and a[2][0] == "num" and a[3] == ("id", dim):
                return a[2][2]
        return None

    def w(e):
        if not isinstance(e, tuple):
            if isinstance(e, list):
                for x in e:
                    w(x)
            return
        if e and e[0] == "index":
            recv, idx = e[1], e[2]
            if recv[0] == "id":
                if idx[0] in ("tuple",) or (idx[0] == "paren" and idx[1][0] == "tuple"):
                    mats.add(recv[1])
                elif idx[0] == "range":
                    lo = idx[1]
                    hi = idx[2]
                    k = None
                    if hi == ("id", dim):
                        k = 0
                    elif hi is not None and hi[0] == "bin" and hi[1] == "*" and hi[2][0] == "num":
                        k = hi[2][2] - 1
                    if k is not None:
                        blocks[recv[1]] = max(blocks.get(recv[1], 0), k + 1)
                else:
                    k = blk(idx)
                    if k is not None:
                        blocks[recv[1]] = max(blocks.get(recv[1], 0), k + 1)
                    else:
                        vecs.add(recv[1])
        if e and e[0] == "mcall" and e[2] == "ode":
            for a in e[3][1:]:
                a2 = a
                while a2[0] in ("ref", "paren"):
                    a2 = a2[1]
                if a2[0] == "id":
                    vecs.add(a2[1])
        if e and e[0] == "mcall" and e[2] == "copy_from_slice":
            for a in (e[1], e[3][0]):
                a2 = a
                while a2[0] in ("ref", "paren"):
                    a2 = a2[1]
                if a2[0] == "id":
                    vecs.add(a2[1])
        for x in e:
            if isinstance(x, (tuple, list)):
                w(x)
    w(stmts)
    for b in blocks:
        vecs.discard(b)
    return vecs, blocks, mats


def region_to_lean(name, text, consts, dim="n", nat_vars=(), ret=None, skip_lets=(), extra_vecs=(), doc="", hoist=True):
    """Translate region `text` into a Lean def. Returns lean text.
    ret: None -> returns a structure of all assigned variables; or a name -> returns that variable only."""
    stmts = parse_stmts(text)
    stmts = [s for s in stmts if not (s[0] == "let" and s[1] in skip_lets)]
    vecs, blocks, mats = scan_vectors(stmts, dim)
    vecs |= set(extra_vecs)
    ctx = E.Ctx(consts, dim=dim, nat_vars=nat_vars, vec_vars=vecs, blocks=blocks, mat_vars=mats)
    livein, outs, lets = collect_uses(ctx, stmts)
    ctx.loopvars = []

    def uses_of(st):
        li = collect_uses(ctx, [st])[0]
        ctx.loopvars = []
        return li
    em = E.Emitter(ctx, hoist=(name, uses_of) if hoist else None)
    em.stmts(stmts, 1)
    uses_f = any("let" in l and ":= f calls.size " in l for l in em.lines)
    params = []
    if uses_f:
        params.append("(f : Nat → α → Vector α %s → Vector α %s)" % (dim, dim))
    has_calls_in = False
    for kind, nm in livein:
        if kind == "scalar":
            params.append("(%s : α)" % nm)
        elif kind == "nat":
            params.append("(%s : Nat)" % nm)
        elif kind == "bool":
            params.append("(%s : Bool)" % nm)
        elif kind == "vec":
            params.append("(%s : Vector α %s)" % (nm, dim))
        elif kind == "mat":
            params.append("(%s : Nat → Nat → α)" % nm)
        elif kind == "calls":
            has_calls_in = True
    out_lines = []
    if doc:
        out_lines.append("/-- %s -/" % doc)
    if ret is not None:
        rty = "Vector α %s" % dim if is_vec(ctx, ret) else "α"
        out_lines.append("def %s {%s : Nat} %s : %s :=" % (name, dim, " ".join(params), rty))
        if has_calls_in:
            out_lines.append("  let calls : Array (α × Vector α %s) := #[]" % dim)
        out_lines += em.lines
        if has_calls_in:
            out_lines[-len(em.lines) - 2] = out_lines[-len(em.lines) - 2].replace(" : %s :=" % rty, " : %s × Array (α × Vector α %s) :=" % (rty, dim))
            out_lines.append("  (%s, calls)" % ret)
        else:
            out_lines.append("  %s" % ret)
        return "\n\n".join(em.aux + ["\n".join(out_lines)]), {"livein": livein, "outs": [ret]}
    # structure of outputs
    fields = []
    for w in outs:
        if w == "calls":
            fields.append("  calls : Array (α × Vector α %s)" % dim)
        elif is_vec(ctx, w):
            fields.append("  %s : Vector α %s" % (w, dim))
        else:
            fields.append("  %s : α" % w)
    sname = name[0].upper() + name[1:] + "Out"
    out_lines.insert(0, "structure %s (α : Type) (%s : Nat) where\n%s\n" % (sname, dim, "\n".join(fields)))
    out_lines.append("def %s {%s : Nat} %s : %s α %s :=" % (name, dim, " ".join(params), sname, dim))
    if has_calls_in:
        out_lines.append("  let calls : Array (α × Vector α %s) := #[]" % dim)
    out_lines += em.lines
    out_lines.append("  { " + ", ".join("%s := %s" % (w, w) for w in outs) + " }")
    return "\n\n".join(em.aux + ["\n".join(out_lines)]), {"livein": livein, "outs": outs}


def expr_to_lean(name, text, consts, params, prop=False, doc=""):
    """Translate a single Rust expression into a Lean def with the given scalar params."""
    e = parse_expr(text)
    ctx = E.Ctx(consts)
    body = E.expr(ctx, e)
    ps = " ".join("(%s : α)" % p for p in params)
    ty = "Prop" if prop else "α"
    lines = []
    if doc:
        lines.append("/-- %s -/" % doc)
    lines.append("def %s %s : %s :=\n  %s" % (name, ps, ty, body))
    if prop:
        lines.append("instance : Decidable (%s %s) := by unfold %s; exact inferInstance" % (name, " ".join(params), name))
    return "\n".join(lines)
