"""Rust-subset AST -> Lean 4 text (functional form over `[Num α]`, vectors as `Vector α n`).

Translation rules (kept deliberately syntactic so that evaluation order is preserved and the
`Float` instance reproduces the Rust arithmetic bit for bit):

* straight-line assignments            -> `let` chain (shadowing = mutation)
* `for i in 0..n { v[i] = e; ... }`    -> one body function `Fin n -> tuple`, one `Vector.ofFn` per written vector
                                          (only accepted if every write in the body is to index `i`
                                           [or block `k*n+i`], i.e. the loop is pointwise)
* `for i in 0..n { acc += e; ... }`    -> `Fin.foldl n` over the tuple of accumulators
* `if c { .. } else { .. }`            -> tuple-valued `if` over the variables assigned in either branch
* `f.ode(t, &a, &mut b)`               -> `let b := f t a` and the call time appended to `calls`
* `a.copy_from_slice(&b)`              -> `let a := b`
"""
from fractions import Fraction
from rsparse import TieBroken, f64_bits


def lit(frac, fval):
    fr = Fraction(frac)
    return "(Num.lit (%d) %d 0x%016X)" % (fr.numerator, fr.denominator, f64_bits(fval))


KNOWN_PATH_CONSTS = {
    ("Float", "EPSILON"): (Fraction(1, 2 ** 52), 2.0 ** -52),
    ("f64", "EPSILON"): (Fraction(1, 2 ** 52), 2.0 ** -52),
    ("Float", "MIN_POSITIVE"): (Fraction(1, 2 ** 1022), 2.0 ** -1022),
}


class Ctx:
    """Naming/typing context for one translated function or region."""

    def __init__(self, consts, dim="n", nat_vars=(), vec_vars=(), blocks=None, mat_vars=(), const_ns="", scalars_as_params=()):
        self.consts = consts            # set of constant names of the method file
        self.dim = dim
        self.nat_vars = set(nat_vars) | {dim}
        # names that are booleans in the source (`if last { xend } else { x + h }`)
        self.bool_vars = {"last"}
        self.vec_vars = set(vec_vars)
        self.mat_vars = set(mat_vars)
        self.blocks = blocks or {}      # e.g. {'cont': 5}  -> cont0..cont4
        self.loopvars = []              # stack of (rustname)
        self.local_elems = {}           # inside a pointwise body: (vecname) -> lean local name
        self.const_ns = const_ns

    def is_nat_expr(self, e):
        k = e[0]
        if k == "num":
            return e[1] == "int"
        if k == "id":
            return e[1] in self.nat_vars or e[1] in self.loopvars
        if k == "bin":
            return self.is_nat_expr(e[2]) and self.is_nat_expr(e[3])
        if k == "paren":
            return self.is_nat_expr(e[1])
        if k == "mcall" and e[2] == "len":
            return True
        return False


def block_index(ctx, idx):
    """Recognise `i`, `n + i`, `k * n + i`  ->  (block k, loopvar)  else None."""
    n = ctx.dim
    if idx[0] == "id" and idx[1] in ctx.loopvars:
        return (0, idx[1])
    if idx[0] == "bin" and idx[1] == "+":
        a, b = idx[2], idx[3]
        if b[0] == "id" and b[1] in ctx.loopvars:
            if a == ("id", n):
                return (1, b[1])
            if a[0] == "bin" and a[1] == "*" and a[2][0] == "num" and a[2][1] == "int" and a[3] == ("id", n):
                return (a[2][2], b[1])
    return None


def block_range(ctx, rng):
    """`0..n`, `..n`, `n..2*n`, `3 * n..4 * n` -> block number."""
    n = ctx.dim
    if rng[0] != "range":
        return None
    lo, hi = rng[1], rng[2]

    def mult(e):
        if e is None:
            return 0
        if e[0] == "num" and e[1] == "int" and e[2] == 0:
            return 0
        if e == ("id", n):
            return 1
        if e[0] == "bin" and e[1] == "*" and e[2][0] == "num" and e[3] == ("id", n):
            return e[2][2]
        return None
    a, b = mult(lo), mult(hi)
    if a is None or b is None or b != a + 1:
        return None
    return a


def vec_name(ctx, recv, idx=None, rng=None):
    """Lean name of the vector (block) addressed by recv[idx] / recv[rng]."""
    if recv[0] == "paren":
        recv = recv[1]
    if recv[0] == "ref":
        return vec_name(ctx, recv[1])
    if recv[0] == "index" and recv[2][0] == "range":
        base = recv[1]
        if base[0] != "id":
            raise TieBroken("unsupported slice base")
        k = block_range(ctx, recv[2])
        if k is None or base[1] not in ctx.blocks:
            raise TieBroken("unsupported slice %r" % (recv,))
        return "%s%d" % (base[1], k)
    if recv[0] != "id":
        raise TieBroken("unsupported vector expression %r" % (recv,))
    name = recv[1]
    if name in ctx.blocks:
        if idx is None:
            raise TieBroken("blocked buffer %s used whole" % name)
        bi = block_index(ctx, idx)
        if bi is None:
            raise TieBroken("unsupported index into %s: %r" % (name, idx))
        return "%s%d" % (name, bi[0])
    return name


def expr(ctx, e):
    k = e[0]
    if k == "num":
        if e[1] == "int":
            return str(e[2])
        return lit(e[2], e[3])
    if k == "bool":
        return "True" if e[1] else "False"
    if k == "paren":
        return "(" + expr(ctx, e[1]) + ")"
    if k == "id":
        name = e[1]
        if name in ctx.consts:
            return ctx.const_ns + name
        return name
    if k == "path":
        key = tuple(e[1][-2:])
        if key in KNOWN_PATH_CONSTS:
            return lit(*KNOWN_PATH_CONSTS[key])
        raise TieBroken("unknown path %r" % (e[1],))
    if k == "neg":
        return "(-" + expr(ctx, e[1]) + ")"
    if k == "not":
        return "(¬ " + expr(ctx, e[1]) + ")"
    if k == "deref":
        return expr(ctx, e[1])
    if k == "cast":
        if e[2] in ("Float", "f64"):
            if ctx.is_nat_expr(e[1]):
                return "(Num.ofNat " + nat_expr(ctx, e[1]) + ")"
            # float-to-float cast: identity
            return expr(ctx, e[1])
        raise TieBroken("unsupported cast to %s" % e[2])
    if k == "bin":
        op, a, b = e[1], e[2], e[3]
        if ctx.is_nat_expr(e):
            return nat_expr(ctx, e)
        A, B = expr(ctx, a), expr(ctx, b)
        if op in "+-*/":
            return "(%s %s %s)" % (A, op, B)
        if op in ("<", ">"):
            return "(%s %s %s)" % (A, op, B)
        if op == "<=":
            return "(%s ≤ %s)" % (A, B)
        if op == ">=":
            return "(%s ≥ %s)" % (A, B)
        if op == "==":
            return "(Num.eqb %s %s = true)" % (A, B)
        if op == "!=":
            return "(Num.eqb %s %s = false)" % (A, B)
        if op == "&&":
            return "(%s ∧ %s)" % (A, B)
        if op == "||":
            return "(%s ∨ %s)" % (A, B)
        raise TieBroken("unsupported operator %s" % op)
    if k == "ifexpr":
        return "(if %s then %s else %s)" % (expr(ctx, e[1]), expr(ctx, e[2]), expr(ctx, e[3]))
    if k == "mcall":
        recv, name, args = e[1], e[2], e[3]
        R = expr(ctx, recv)
        if name == "is_nan" and not args:
            return "(Num.isNaN %s = true)" % R
        if name == "abs" and not args:
            return "(Num.abs %s)" % R
        if name == "sqrt" and not args:
            return "(Num.sqrt %s)" % R
        if name == "signum" and not args:
            return "(Num.signum %s)" % R
        if name == "max" and len(args) == 1:
            return "(Num.fmax %s %s)" % (R, expr(ctx, args[0]))
        if name == "min" and len(args) == 1:
            return "(Num.fmin %s %s)" % (R, expr(ctx, args[0]))
        if name == "powf" and len(args) == 1:
            return "(Num.pow %s %s)" % (R, expr(ctx, args[0]))
        if name == "powi" and len(args) == 1 and args[0][0] == "num" and args[0][2] == 2:
            return "(%s * %s)" % (R, R)
        if name == "clamp" and len(args) == 2:
            return "(Num.clamp %s %s %s)" % (R, expr(ctx, args[0]), expr(ctx, args[1]))
        raise TieBroken("unsupported method .%s()" % name)
    if k == "index":
        recv, idx = e[1], e[2]
        if recv[0] == "id" and recv[1] in ctx.mat_vars:
            if idx[0] == "paren":
                idx = idx[1]
            if idx[0] != "tuple" or len(idx[1]) != 2:
                raise TieBroken("matrix index must be (r, c)")
            return "(%s %s %s)" % (recv[1], nat_expr(ctx, idx[1][0]), nat_expr(ctx, idx[1][1]))
        name = vec_name(ctx, recv, idx)
        bi = block_index(ctx, idx)
        if bi is None:
            # scalar-tolerance style index `atol[i]` is handled the same; constant index not supported
            raise TieBroken("unsupported index expression %r" % (idx,))
        lv = bi[1]
        key = (name, lv)
        if key in ctx.local_elems:
            return ctx.local_elems[key]
        return "%s[%s]" % (name, lv)
    raise TieBroken("unsupported expression node %r" % (k,))


def nat_expr(ctx, e):
    k = e[0]
    if k == "num":
        return str(e[2])
    if k == "id":
        if e[1] in ctx.loopvars:
            return "%s.val" % e[1]
        return e[1]
    if k == "paren":
        return "(" + nat_expr(ctx, e[1]) + ")"
    if k == "bin":
        return "(%s %s %s)" % (nat_expr(ctx, e[2]), e[1], nat_expr(ctx, e[3]))
    if k == "mcall" and e[2] == "len":
        return ctx.dim
    raise TieBroken("unsupported nat expression %r" % (e,))


def first_access_is_write(body, name):
    """In a loop body: is the first statement touching scalar `name` a plain `name = ...` whose rhs does not read it?"""
    def reads(e):
        k = e[0]
        if k == "id":
            return e[1] == name
        if k in ("num", "bool", "path"):
            return False
        if k in ("paren", "neg", "not", "deref", "ref", "cast"):
            return reads(e[1])
        if k == "bin":
            return reads(e[2]) or reads(e[3])
        if k == "mcall":
            return reads(e[1]) or any(reads(a) for a in e[3])
        if k == "index":
            return reads(e[2])
        if k == "tuple":
            return any(reads(a) for a in e[1])
        return False
    for s in body:
        k = s[0]
        if k == "let":
            if s[2] is not None and reads(s[2]):
                return False
        elif k == "assign":
            if reads(s[3]):
                return False
            if s[2] == ("id", name):
                return s[1] == "="
            if s[2][0] == "index" and reads(s[2][2]):
                return False
        elif k == "if":
            if reads(s[1]):
                return False
            if any_touch(s[2] + (s[3] or []), name):
                return False
        elif k == "for":
            if any_touch(s[3], name):
                return False
    return False


def any_touch(ss, name):
    txt = repr(ss)
    return ("('id', '%s')" % name) in txt



# ------------------------------------------------------------------ statements

def _is_vec(ctx, w):
    if w in ctx.vec_vars:
        return True
    for b in ctx.blocks:
        if w.startswith(b) and w[len(b):].isdigit():
            return True
    return False


def assigned_vars(ctx, stmts, loopvars=()):
    """Ordered list of outer variables (lean names) written by a statement list,
    excluding names declared by `let` inside (returned separately)."""
    out, lets = [], []

    def add(name):
        if name not in out:
            out.append(name)

    def walk(ss, lvs):
        for s in ss:
            if s[0] == "let":
                if s[1] not in lets:
                    lets.append(s[1])
                add(s[1])
            elif s[0] == "assign":
                lhs = s[2]
                if lhs[0] == "id":
                    add(lhs[1])
                elif lhs[0] == "index":
                    ctx.loopvars = list(lvs)
                    add(vec_name(ctx, lhs[1], lhs[2]))
                else:
                    raise TieBroken("unsupported assignment target %r" % (lhs,))
            elif s[0] == "for":
                inner, inner_lets = assigned_vars(ctx, s[3], list(lvs) + [s[1]])
                for w in inner:
                    if w in inner_lets:
                        continue
                    if not _is_vec(ctx, w) and first_access_is_write(s[3], w):
                        continue  # loop-local temporary declared outside the loop
                    add(w)
            elif s[0] == "if":
                walk(s[2], lvs)
                if s[3]:
                    walk(s[3], lvs)
            elif s[0] == "expr":
                e = s[1]
                if e[0] == "mcall" and e[2] == "ode":
                    add(vec_name(ctx, e[3][2]))
                    add("calls")
                elif e[0] == "mcall" and e[2] == "copy_from_slice":
                    add(vec_name(ctx, e[1]))
                elif e[0] == "mcall" and e[2] == "fill":
                    add(vec_name(ctx, e[1]))
                else:
                    raise TieBroken("unsupported expression statement %r" % (e[:3],))
    saved = list(ctx.loopvars)
    walk(stmts, list(loopvars))
    ctx.loopvars = saved
    return out, lets


def tuple_of(names):
    if len(names) == 1:
        return names[0]
    return "(" + ", ".join(names) + ")"


def proj(base, i, n):
    """i-th component of an n-tuple expression `base` (right-nested pairs)."""
    if n == 1:
        return base
    s = base
    for _ in range(i):
        s = "(%s).2" % s
    if i < n - 1:
        s = "(%s).1" % s
    return s


class Emitter:
    def __init__(self, ctx, ind="  ", hoist=None):
        self.ctx = ctx
        self.lines = []
        self.ind = ind
        self.tmp = 0
        # hoist = (region name, callback(stmt) -> livein list): top-level loops become their own defs
        self.hoist = hoist
        self.aux = []       # texts of hoisted definitions
        self.nloops = 0

    def fresh(self, base):
        self.tmp += 1
        return "%s_%d" % (base, self.tmp)

    def emit(self, s, depth):
        self.lines.append(self.ind * depth + s)

    def stmts(self, ss, depth):
        for s in ss:
            self.stmt(s, depth)

    def stmt(self, s, depth):
        ctx = self.ctx
        k = s[0]
        if k == "let":
            if s[2] is None:
                return  # declaration without initialiser: assigned later
            self.emit("let %s := %s" % (s[1], expr(ctx, s[2])), depth)
            return
        if k == "assign":
            op, lhs, rhs = s[1], s[2], s[3]
            if lhs[0] == "id":
                name = lhs[1]
                R = expr(ctx, rhs)
                if op == "=":
                    self.emit("let %s := %s" % (name, R), depth)
                else:
                    self.emit("let %s := (%s %s %s)" % (name, name, op[0], R), depth)
                return
            if lhs[0] == "index":
                # element write inside a pointwise body
                name = vec_name(ctx, lhs[1], lhs[2])
                bi = block_index(ctx, lhs[2])
                if bi is None or not ctx.loopvars or bi[1] != ctx.loopvars[-1] and False:
                    raise TieBroken("element write with unsupported index")
                lv = bi[1]
                R = expr(ctx, rhs)
                cur = ctx.local_elems.get((name, lv), "%s[%s]" % (name, lv))
                local = "%s_at" % name
                if op == "=":
                    self.emit("let %s := %s" % (local, R), depth)
                else:
                    self.emit("let %s := (%s %s %s)" % (local, cur, op[0], R), depth)
                ctx.local_elems[(name, lv)] = local
                return
            raise TieBroken("unsupported assignment")
        if k == "expr":
            e = s[1]
            if e[0] == "mcall" and e[2] == "ode":
                t, a, b = e[3]
                tname = self.fresh("t")
                self.emit("let %s := %s" % (tname, expr(ctx, t)), depth)
                aname = vec_name(ctx, a)
                self.emit("let %s := f calls.size %s %s" % (vec_name(ctx, b), tname, aname), depth)
                self.emit("let calls := calls.push (%s, %s)" % (tname, aname), depth)
                return
            if e[0] == "mcall" and e[2] == "copy_from_slice":
                self.emit("let %s := %s" % (vec_name(ctx, e[1]), vec_name(ctx, e[3][0])), depth)
                return
            raise TieBroken("unsupported expression statement")
        if k == "if":
            self.if_stmt(s, depth)
            return
        if k == "for":
            self.for_stmt(s, depth)
            return
        raise TieBroken("unsupported statement %r" % k)

    def if_stmt(self, s, depth):
        ctx = self.ctx
        cond, then, els = s[1], s[2], s[3] or []
        w1, l1 = assigned_vars(ctx, then, ctx.loopvars)
        w2, l2 = assigned_vars(ctx, els, ctx.loopvars)
        ws = [w for w in w1 + [x for x in w2 if x not in w1] if w not in l1 and w not in l2]
        if not ws:
            return
        # inside pointwise bodies element writes are locals named <vec>_at: a conditional element write would have to merge
        # that local, which this emitter does not do -- refuse rather than drop the write
        if ctx.loopvars and any(self.is_vec_name(w) for w in ws):
            raise TieBroken("conditional element write inside a pointwise loop (`if .. { v[i] = .. }`) is not supported")
        def names(ws_):
            return ws_
        self.emit("let %s := if %s then" % (tuple_of(ws), expr(ctx, cond)), depth)
        saved = dict(ctx.local_elems)
        self.stmts(then, depth + 2)
        self.emit(tuple_of(ws), depth + 2)
        ctx.local_elems = dict(saved)
        self.emit("else", depth + 1)
        self.stmts(els, depth + 2)
        self.emit(tuple_of(ws), depth + 2)
        ctx.local_elems = saved

    def for_stmt(self, s, depth):
        if self.hoist is not None and depth == 1 and not self.ctx.loopvars:
            self.hoisted_for(s, depth)
            return
        self.for_stmt_inline(s, depth)

    def hoisted_for(self, s, depth):
        ctx = self.ctx
        rname, uses_cb = self.hoist
        self.nloops += 1
        aux_name = "%s_loop%d" % (rname, self.nloops)
        livein = uses_cb(s)
        ws, lets = assigned_vars(ctx, s[3], [s[1]])
        outer = [w for w in ws if w not in lets]
        vec_w = [w for w in outer if self.is_vec_name(w)]
        sc_w = [w for w in outer if not self.is_vec_name(w) and not first_access_is_write(s[3], w)]
        outs = vec_w if vec_w else sc_w
        if not outs:
            return
        sub = Emitter(ctx, self.ind)
        sub.tmp = 0
        sub.for_stmt_inline(s, 1)
        params = []
        args = []
        for kind, nm in livein:
            if kind == "scalar":
                params.append("(%s : α)" % nm)
            elif kind == "nat":
                params.append("(%s : Nat)" % nm)
            elif kind == "bool":
                params.append("(%s : Bool)" % nm)
            elif kind == "vec":
                params.append("(%s : Vector α %s)" % (nm, ctx.dim))
            elif kind == "mat":
                params.append("(%s : Nat → Nat → α)" % nm)
            else:
                continue
            args.append("(%s := %s)" % (nm, nm))
        tys = ["Vector α %s" % ctx.dim if self.is_vec_name(w) else "α" for w in outs]
        rty = " × ".join(tys)
        text = ["def %s {%s : Nat} %s : %s :=" % (aux_name, ctx.dim, " ".join(params), rty)]
        text += sub.lines
        text.append("  " + tuple_of(outs))
        self.aux.append("\n".join(text))
        self.emit("let %s := %s %s" % (tuple_of(outs), aux_name, " ".join(args)), depth)

    def for_stmt_inline(self, s, depth):
        ctx = self.ctx
        var, rng, body = s[1], s[2], s[3]
        if not (rng[0] == "range" and rng[1] is not None and rng[1][0] == "num" and rng[1][2] == 0
                and rng[2] is not None and not rng[3]):
            raise TieBroken("loop range must be 0..n")
        hi = rng[2]
        if hi != ("id", ctx.dim) and not (hi[0] == "mcall" and hi[2] == "len"):
            raise TieBroken("loop bound must be the dimension `%s`" % ctx.dim)
        ws, lets = assigned_vars(ctx, body, ctx.loopvars + [var])
        outer = [w for w in ws if w not in lets]
        # classify
        vec_w = [w for w in outer if self.is_vec_name(w)]
        sc_w = [w for w in outer if not self.is_vec_name(w) and not first_access_is_write(body, w)]
        ctx.loopvars.append(var)
        saved_locals = dict(ctx.local_elems)
        try:
            if vec_w and not sc_w:
                bodyf = self.fresh("body")
                self.emit("let %s := fun (%s : Fin %s) =>" % (bodyf, var, ctx.dim), depth)
                self.stmts(body, depth + 2)
                outs = []
                for w in vec_w:
                    key = (w, var)
                    if key not in ctx.local_elems:
                        raise TieBroken("vector %s written at an index other than the loop variable" % w)
                    outs.append(ctx.local_elems[key])
                self.emit(tuple_of(outs), depth + 2)
                ctx.local_elems = saved_locals
                for j, w in enumerate(vec_w):
                    self.emit("let %s := Vector.ofFn fun %s => %s" % (w, var, proj("%s %s" % (bodyf, var), j, len(vec_w))), depth)
            elif sc_w and not vec_w:
                st = tuple_of(sc_w)
                self.emit("let %s := Fin.foldl %s (fun st (%s : Fin %s) =>" % (st, ctx.dim, var, ctx.dim), depth)
                self.emit("let %s := st" % st, depth + 2)
                self.stmts(body, depth + 2)
                self.emit("%s) %s" % (st, st), depth + 2)
                ctx.local_elems = saved_locals
            elif not vec_w and not sc_w:
                pass
            else:
                raise TieBroken("loop mixes vector writes %r and scalar accumulators %r" % (vec_w, sc_w))
        finally:
            ctx.loopvars.pop()
            ctx.local_elems = saved_locals

    def is_vec_name(self, w):
        ctx = self.ctx
        if w in ctx.vec_vars:
            return True
        for b, k in ctx.blocks.items():
            if w.startswith(b) and w[len(b):].isdigit():
                return True
        return False
